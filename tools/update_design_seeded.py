#!/venv/bin/python
"""Replace the seeded-changes table of DESIGN.md section 7 with the current tools/seeded_report.py output."""
import subprocess
from pathlib import Path
ROOT = Path(__file__).resolve().parents[1]
table = subprocess.run([str(ROOT / "tools" / "seeded_report.py")], capture_output=True, text=True, check=True).stdout
p = ROOT / "DESIGN.md"
s = p.read_text()
a = s.index("<!-- SEEDED_TABLE_BEGIN -->") + len("<!-- SEEDED_TABLE_BEGIN -->")
b = s.index("<!-- SEEDED_TABLE_END -->")
p.write_text(s[:a] + "\n" + table + s[b:])
print("updated", table.count("\n") - 2, "rows")
