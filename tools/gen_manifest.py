#!/venv/bin/python
"""Regenerate MANIFEST.json from the per-property modules (tools/props/Cxx.py: MANIFEST dict)."""
import importlib
import json
import sys
from pathlib import Path

ROOT = Path(__file__).resolve().parents[1]
sys.path.insert(0, str(ROOT))

PENDING_REASON = "check not built yet in this session (work in progress; see DESIGN.md section 3 for the planned Lean model)"


def main():
    ids = [json.loads(l)["id"] for l in (ROOT / "properties.jsonl").read_text().splitlines() if l.strip()]
    checks, na = [], []
    overrides = {}
    ov = ROOT / "tools" / "not_applicable.json"
    if ov.exists():
        overrides = json.loads(ov.read_text())
    for pid in ids:
        f = ROOT / "tools" / "props" / f"{pid}.py"
        if pid in overrides:
            na.append({"property_id": pid, "reason": overrides[pid]})
            continue
        if not f.exists():
            na.append({"property_id": pid, "reason": PENDING_REASON})
            continue
        try:
            mod = importlib.import_module(f"tools.props.{pid}")
        except Exception as e:  # noqa: BLE001
            print(f"{pid}: cannot import ({e}); listed as pending")
            na.append({"property_id": pid, "reason": PENDING_REASON})
            continue
        m = getattr(mod, "MANIFEST", None)
        if m is None:
            na.append({"property_id": pid, "reason": PENDING_REASON})
            continue
        checks.append({
            "property_id": pid,
            "quick_cmd": f"./check {pid} --tier quick",
            "thorough_cmd": f"./check {pid} --tier thorough",
            "evidence_file": f"evidence/{pid}.json",
            "replay_cmd_template": f"./check {pid} --replay {{path}}",
            "engine": m.get("engine", "lean"),
            "level_claimed": {"category": m.get("category", "proof"), "text": m["text"], "design_ref": m.get("design_ref", "DESIGN.md")},
            "level_note": m["level_note"],
            "technique": m["technique"],
        })
    manifest = {
        "version": 1,
        "setup_cmd": "./setup.sh",
        "hooks": {
            "guard": "AMPFORM_VERIF",
            "enable": "no source hooks: checks import ampform from /repo/src (PYTHONPATH) and replace module-level names from the harness process; AMPFORM_VERIF=1 is exported by the checks but nothing in /repo reads it",
            "baseline_off_cmd": "cd /repo && /venv/bin/python -m pytest -ra -q -p no:cacheprovider --timeout=900 --continue-on-collection-errors",
            "source_commits": [],
            "add_only": True,
        },
        "engines": [
            {"name": "lean", "path": "lean/", "serves_properties": [c["property_id"] for c in checks],
             "kind_free_text": "Lean 4 project: hand-written models (Ampverif/Model), definitions regenerated from /repo (Ampverif/Gen, GenFloat), lemmas, one property-theorem file per property (Ampverif/Props), axiom audit"},
            {"name": "translate", "path": "tools/translate/", "serves_properties": [c["property_id"] for c in checks],
             "kind_free_text": "sympy tree / generated numpy code -> Lean (reals/complex for theorems, Float twin for validation)"},
            {"name": "props", "path": "tools/props/", "serves_properties": [c["property_id"] for c in checks],
             "kind_free_text": "per-property drivers: regenerate, lake build + audit, correspondence / translator validation against the real code, failing-input search, evidence"},
        ],
        "checks": checks,
        "not_applicable": na,
        "notes": "Fix commits in /repo (message prefix 'fix:') are listed in known_findings.json under 'fixed'. No hooks were added to /repo.",
    }
    (ROOT / "MANIFEST.json").write_text(json.dumps(manifest, indent=1) + "\n")
    import jsonschema
    jsonschema.validate(manifest, json.loads(Path("/root/.vp/MANIFEST.schema.json").read_text()))
    print(f"MANIFEST.json: {len(checks)} checks, {len(na)} not_applicable — valid")


if __name__ == "__main__":
    main()
