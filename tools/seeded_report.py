#!/venv/bin/python
"""Print a markdown table of the independently seeded changes and which checks caught them
(from seeded/<name>/meta.json and result_<prop>.json); pasted into DESIGN.md section 7."""
import glob
import json
import os
from pathlib import Path

ROOT = Path(__file__).resolve().parents[1]
rows = []
for d in sorted(glob.glob(str(ROOT / "seeded" / "*"))):
    name = os.path.basename(d)
    try:
        meta = json.load(open(f"{d}/meta.json"))
    except Exception:  # noqa: BLE001
        continue
    results = []
    for r in sorted(glob.glob(f"{d}/result_*.json")):
        res = json.load(open(r))
        how = ""
        rep = res.get("first_replay") or {}
        if res["detected"]:
            broken = rep.get("broken") or []
            kinds = sorted({b.get("kind", "?") for b in broken}) if isinstance(broken, list) else []
            found = "no-failing-input-found" not in " ".join(res.get("violation_lines", []))
            how = ("failing input" if found else "no failing input") + (" + broken " + "/".join(kinds) if kinds else "")
        results.append(f"{res['check']} {res['tier']}: " + (f"**caught** ({how})" if res["detected"] else "missed"))
    summary = (meta.get("summary") or "").replace("|", "/").replace("\n", " ")
    needs = (meta.get("needs_to_manifest") or "").replace("|", "/").replace("\n", " ")
    rows.append(f"| {name} | {meta.get('property')} | {summary[:260]} | {needs[:200]} | {'; '.join(results) or 'not run yet'} |")
print("| seeded | property | change | needs to manifest | checks |")
print("|---|---|---|---|---|")
print("\n".join(rows))
