#!/bin/bash
# tools/run_seeded.sh <seeded name> <property id> [tier]
# Runs ./check <property> against /repo HEAD + seeded/<name>/patch.diff (in a scratch worktree
# selected with VERIF_REPO, so /repo itself and concurrently running checks are undisturbed),
# stores the outcome in seeded/<name>/result_<prop>.json, then re-runs the check on /repo to restore
# the regenerated Lean files.
set -u
NAME=$1; PROP=$2; TIER=${3:-quick}
WT=$(mktemp -d /tmp/wt_seeded_XXXX); rmdir "$WT"
git -C /repo worktree add -q --detach "$WT" HEAD || exit 2
cleanup() { git -C /repo worktree remove --force "$WT" 2>/dev/null; rm -rf "$WT"; }
trap cleanup EXIT
git -C "$WT" apply /verif/seeded/$NAME/patch.diff || { echo "patch does not apply"; exit 3; }
cd /verif
t0=$(date +%s)
VERIF_REPO="$WT" ./check $PROP --tier $TIER > /tmp/seeded_$NAME.$PROP.out 2>&1; code=$?
t1=$(date +%s)
grep -E "^VIOLATION|^KNOWN-FINDING|^\[$PROP\] tier" /tmp/seeded_$NAME.$PROP.out | head -8
replay=$(grep -m1 -oE "replay=[^ ]+" /tmp/seeded_$NAME.$PROP.out | cut -d= -f2)
/venv/bin/python - "$NAME" "$PROP" "$TIER" "$code" "$((t1-t0))" "$replay" <<'PY'
import json, sys, pathlib
name, prop, tier, code, secs, replay = sys.argv[1:7]
out = pathlib.Path(f"/tmp/seeded_{name}.{prop}.out").read_text()
rep = None
if replay and pathlib.Path("/verif", replay).exists():
    rep = json.loads(pathlib.Path("/verif", replay).read_text())
    rep = {k: rep[k] for k in rep if k in ("input", "signature", "broken")}
res = {"seeded": name, "check": prop, "tier": tier, "exit_code": int(code), "detected": int(code) == 1,
       "seconds": int(secs), "violation_lines": [l for l in out.splitlines() if l.startswith("VIOLATION")][:5],
       "first_replay": rep}
text = json.dumps(res, indent=1, default=str)
if len(text) > 20000:  # keep the file valid JSON: shorten the replay, not the string
    res["first_replay"] = {"note": "replay too large to store here", "head": json.dumps(rep, default=str)[:4000]}
    text = json.dumps(res, indent=1, default=str)
pathlib.Path(f"/verif/seeded/{name}/result_{prop}.json").write_text(text)
print("detected" if res["detected"] else f"NOT DETECTED (exit {code})")
PY
./check $PROP --tier quick > /tmp/seeded_restore.out 2>&1 || { echo "WARNING: check on clean /repo did not exit 0 afterwards"; tail -3 /tmp/seeded_restore.out; }
rm -f /tmp/seeded_$NAME.$PROP.out
