#!/bin/bash
# tools/confirm_seed.sh <property id> <dir with patch.diff demo.py meta.json> [name]
# Confirms an independently written property-breaking change in a scratch worktree of /repo:
#   demo passes without the change, fails with it, and the unedited suite still gives the baseline.
# On success the change is stored as /verif/seeded/<name>/ with a 'confirmed' record in meta.json.
set -u
ID=$1; SRC=$2; NAME=${3:-$ID}
WT=$(mktemp -d /tmp/wt_confirm_XXXX); rmdir "$WT"
git -C /repo worktree add -q --detach "$WT" HEAD || exit 2
cleanup() { git -C /repo worktree remove --force "$WT" 2>/dev/null; rm -rf "$WT"; }
trap cleanup EXIT
cd "$WT"
run_demo() { (cd "$SRC" && PYTHONPATH="$WT/src" timeout 900 /venv/bin/python "$SRC/demo.py" > "$WT/demo.out" 2>&1); echo $?; }
before=$(run_demo); tail -2 "$WT/demo.out" > "$WT/demo_before.txt"
if ! git apply "$SRC/patch.diff"; then echo "PATCH DOES NOT APPLY to HEAD"; exit 3; fi
after=$(run_demo); tail -3 "$WT/demo.out" > "$WT/demo_after.txt"
suite=$(PYTHONPATH="$WT/src" /venv/bin/python -m pytest -q -p no:cacheprovider -n 6 --color=no --timeout=900 2>&1 | tail -1)
echo "demo without change: exit $before; with change: exit $after; suite with change: $suite"
ok=1
[ "$before" = "0" ] || ok=0
[ "$after" != "0" ] || ok=0
case "$suite" in *"302 passed"*"8 errors"*) ;; *) ok=0;; esac
if [ $ok = 1 ]; then
  mkdir -p /verif/seeded/$NAME
  cp "$SRC/patch.diff" "$SRC/demo.py" /verif/seeded/$NAME/
  /venv/bin/python - "$SRC/meta.json" "/verif/seeded/$NAME/meta.json" "$before" "$after" "$suite" "$(git -C /repo rev-parse --short HEAD)" "$(cat $WT/demo_after.txt)" <<'PY'
import json, sys
src, dst, before, after, suite, head, tail = sys.argv[1:8]
try:
    m = json.load(open(src))
except Exception:
    m = {}
m["confirmed"] = {"repo_head": head, "demo_exit_without_change": int(before), "demo_exit_with_change": int(after),
                  "suite_with_change": suite, "demo_output_with_change_tail": tail,
                  "how": "tools/confirm_seed.sh: scratch git worktree of /repo HEAD, PYTHONPATH=<worktree>/src; demo.py before/after `git apply patch.diff`; unedited suite with the change"}
json.dump(m, open(dst, "w"), indent=1)
PY
  echo "CONFIRMED -> /verif/seeded/$NAME"
else
  echo "NOT CONFIRMED"; cat "$WT/demo_before.txt" "$WT/demo_after.txt"; exit 1
fi
