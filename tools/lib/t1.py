"""Generic runner for translator-tied (T1) properties.

run():
  1. regenerate Gen/<ns>.lean (ℝ/ℂ, used by the theorems) and GenFloat/<ns>.lean (executable
     twin) from the working tree;
  2. `lake build` the property modules + axiom audit (kernel re-checks every theorem against the
     regenerated definitions);
  3. validate the translator: the Float twin (run by Lean) against the real lambdified
     expression (run by numpy) on seeded points;
  4. run the independent search oracle on the real code; when 2 or 3 broke, what it finds is
     the replay; when it finds nothing the violation is reported `no-failing-input-found`.
"""

from __future__ import annotations

import math
import traceback
from dataclasses import dataclass, field
from typing import Callable

from tools.lib import common
from tools.translate import core


@dataclass
class T1Property:
    prop_id: str
    sources: list[str]
    namespace: str
    build_definitions: Callable  # () -> (defs, reals, facts)
    points: Callable  # (name, nargs, rng, n) -> list[list[float]]
    search: Callable  # (chk, rng, n) -> list[dict] (failing inputs on the real code)
    prop_modules: list[str]
    n_points: dict = field(default_factory=lambda: {"quick": 40, "thorough": 400})
    n_search: dict = field(default_factory=lambda: {"quick": 200, "thorough": 5000})
    rtol: float = 1e-10
    extra_imports: tuple = ()
    expected_facts: dict | None = None  # facts that must hold (name -> value)
    signature_of: Callable | None = None  # failing input -> signature dict for known findings
    post: Callable | None = None  # (chk, ctx) extra steps (T2 correspondences etc.)
    trusted: tuple = ()

    def regenerate(self):
        """Rewrite Gen/GenFloat from the working tree (used by setup.sh)."""
        common.use_repo_source()
        hashes = common.source_blob_hashes(self.sources)
        header = "sources: " + ", ".join(f"{k}@{v[:10]}" for k, v in hashes.items())
        gen_mod = f"Ampverif.Gen.{self.namespace}"
        flt_mod = f"Ampverif.GenFloat.{self.namespace}"
        defs, _, _ = self.build_definitions()
        common.write_if_changed(common.LEAN / (gen_mod.replace(".", "/") + ".lean"),
                                core.render_gen(gen_mod, defs, header, self.extra_imports))
        common.write_if_changed(common.LEAN / (flt_mod.replace(".", "/") + ".lean"),
                                core.render_float(flt_mod, defs, header))

    def run(self, tier: str, seed: int) -> int:  # noqa: C901, PLR0912, PLR0915
        chk = common.Check(self.prop_id, tier, seed)
        common.use_repo_source()
        rng = common.rng_for(self.prop_id, seed)
        hashes = common.source_blob_hashes(self.sources)
        chk.info("source_blobs", hashes)
        header = "sources: " + ", ".join(f"{k}@{v[:10]}" for k, v in hashes.items())
        gen_mod = f"Ampverif.Gen.{self.namespace}"
        flt_mod = f"Ampverif.GenFloat.{self.namespace}"
        translated = False
        defs = reals = facts = None
        try:
            defs, reals, facts = self.build_definitions()
            gen_text = core.render_gen(gen_mod, defs, header, self.extra_imports)
            flt_text = core.render_float(flt_mod, defs, header)
            common.write_if_changed(common.LEAN / (gen_mod.replace(".", "/") + ".lean"), gen_text)
            common.write_if_changed(common.LEAN / (flt_mod.replace(".", "/") + ".lean"), flt_text)
            translated = True
            chk.info("generated_definitions", [d.name for d in defs])
        except core.Untranslatable as e:
            chk.broken_correspondence("translator", f"source no longer translatable: {e}")
        except Exception as e:  # noqa: BLE001  the library itself failed while being unfolded
            chk.broken_correspondence("translator", "".join(traceback.format_exception_only(type(e), e))[-600:])

        # --- facts
        if translated and self.expected_facts:
            for k, v in self.expected_facts.items():
                chk.coverage["obligations"] += 1
                if facts.get(k) == v:
                    chk.coverage["discharged"] += 1
                else:
                    chk.broken_correspondence("fact", f"{k}: expected {v!r}, source gives {facts.get(k)!r}")
            chk.info("facts", facts)

        # --- proofs
        if translated:
            res = common.prove(self.prop_id, self.prop_modules)
            chk.record_proof(res, "cd lean && lake build " + " ".join(self.prop_modules) + f" && lake env lean Ampverif/Audit/{self.prop_id}.lean")
            if res["failed"]:
                chk.note("proof obligations not discharged: " + "; ".join(f"{k}: {v[:160]}" for k, v in list(res["failed"].items())[:5]))

        # --- translator validation (Float twin vs real code)
        if translated:
            try:
                self.validate(chk, defs, reals, rng, self.n_points[tier])
            except common.LeanRunError as e:
                chk.broken_correspondence("float-twin", f"Lean driver failed: {e}"[:800])
            except Exception as e:  # noqa: BLE001
                chk.broken_correspondence("float-twin", "".join(traceback.format_exception_only(type(e), e))[-600:])

        # --- optional additional steps
        if self.post is not None:
            self.post(chk, {"tier": tier, "seed": seed, "rng": rng, "defs": defs, "facts": facts})

        # --- search on the real code (always; deeper when something broke)
        n = self.n_search[tier] * (4 if chk.broken else 1)
        found = []
        try:
            found = self.search(chk, common.rng_for(self.prop_id, seed, "search"), n)
        except Exception as e:  # noqa: BLE001
            found = [{"what": "the real code raised while the property was evaluated",
                      "error": "".join(traceback.format_exception(type(e), e, e.__traceback__))[-1500:]}]
        seen_what = set()
        uniq = []
        for f in found:
            if f.get("what") not in seen_what:
                seen_what.add(f.get("what"))
                uniq.append(f)
        for f in uniq[:3]:
            sig = self.signature_of(f) if self.signature_of else {"what": f.get("what")}
            chk.failing_input(sig, {"input": f, "broken": chk.broken})
        if chk.broken and not chk.violations:
            # nothing new was found on the real code (known findings do not explain a broken tie)
            for b in chk.broken[:3]:
                chk.unexplained(b.get("theorem") or b.get("what"), b)
        chk.coverage["rule"] = (
            "evaluations = translator-validation points (Lean Float twin vs numpy on the real lambdified "
            "expression) + independent-oracle cases on the real code; distinct_nontrivial counts distinct "
            "(definition, point) / (oracle family, case index) pairs with finite values")
        chk.coverage["trusted_base"] = [
            "Lean 4.33 kernel + Mathlib v4.33 (axioms: see axioms_reported)",
            "tools/translate (sympy tree -> Lean), validated on this run by the Float twin",
            "sympy lambdify/numpy used to execute the real expressions",
            *self.trusted,
        ]
        return chk.finish()

    # ------------------------------------------------------------------ validation
    def validate(self, chk, defs, reals, rng, n):
        import numpy as np
        import sympy as sp

        lines = []
        plan = []
        for d in defs:
            if d.name not in reals:
                continue
            expr, args = reals[d.name]
            nfloats = sum(1 if (d.ty == "real" or p in d.real_params) else 2 for p in d.params)
            pts = self.points(d.name, nfloats, rng, n)
            for pt in pts:
                lines.append(" ".join([d.name, *[str(core.float_bits(v)) for v in pt]]))
                plan.append((d, pt))
        out = common.lean_run(f"Ampverif/GenFloat/{self.namespace}.lean", "\n".join(lines) + "\n")
        outs = out.strip().split("\n") if out.strip() else []
        if len(outs) != len(plan):
            chk.broken_correspondence("float-twin", f"driver returned {len(outs)} lines for {len(plan)} requests")
            return
        fcache = {}
        mism = 0
        for (d, pt), o in zip(plan, outs):
            expr, args = reals[d.name]
            if d.name not in fcache:
                fcache[d.name] = sp.lambdify(args, expr.doit() if hasattr(expr, "doit") else expr, "numpy")
            if o == "bad-op":
                chk.broken_correspondence("float-twin", f"driver rejected {d.name}")
                return
            lean_vals = [core.bits_float(int(t)) for t in o.split()]
            if d.ty == "real":
                with np.errstate(all="ignore"):
                    ref = fcache[d.name](*pt)
                ref_vals = [float(np.real(ref))]
            else:
                cargs = []
                i = 0
                for p in d.params:
                    if p in d.real_params:
                        cargs.append(pt[i]); i += 1
                    else:
                        cargs.append(complex(pt[i], pt[i + 1])); i += 2
                with np.errstate(all="ignore"):
                    ref = complex(fcache[d.name](*[complex(a) if not isinstance(a, complex) else a for a in cargs]))
                ref_vals = [ref.real, ref.imag]
            ok = True
            scale = max(1.0, *[abs(v) for v in ref_vals if math.isfinite(v)] or [1.0])
            for a, b in zip(lean_vals, ref_vals):
                if math.isnan(a) and math.isnan(b):
                    continue
                if math.isinf(a) or math.isinf(b):
                    ok = ok and (a == b)
                    continue
                if not (abs(a - b) <= self.rtol * scale):
                    ok = False
            finite = all(math.isfinite(v) for v in ref_vals)
            chk.count((d.name, tuple(pt)) if finite else None)
            if not ok:
                mism += 1
                if mism <= 3:
                    chk.broken_correspondence("float-twin", {"definition": d.name, "point": pt, "lean": lean_vals, "numpy": ref_vals})
        chk.info("translator_validation_points", len(plan))
        chk.info("translator_validation_mismatches", mism)
        if plan:
            d, pt = plan[0]
            chk.sample({"translator_validation": d.name, "point": pt, "lean_float": outs[0]})
