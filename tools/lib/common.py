"""Shared plumbing for the ampform verification checks.

Everything a per-property module needs: locating the source tree under test, building and
auditing Lean modules, running Lean drivers over the line protocol, evidence files, known
findings, replay files and the VIOLATION / KNOWN-FINDING protocol.
"""

from __future__ import annotations

import fcntl
import hashlib
import json
import os
import random
import re
import subprocess
import sys
import time
from pathlib import Path

ROOT = Path(__file__).resolve().parents[2]
LEAN = ROOT / "lean"
REPO = Path(os.environ.get("VERIF_REPO", "/repo"))
PY = "/venv/bin/python"
ALLOWED_AXIOMS = {"propext", "Classical.choice", "Quot.sound"}
FORBIDDEN = re.compile(
    r"\bsorry\b|\badmit\b|^\s*axiom\s|native_decide|bv_decide|implemented_by|\bunsafe\s|maxHeartbeats\s+0\b"
)


def use_repo_source() -> None:
    """Make `import ampform` resolve to the working tree under test."""
    src = str(REPO / "src")
    if src not in sys.path:
        sys.path.insert(0, src)
    os.environ["PYTHONPATH"] = src + os.pathsep + os.environ.get("PYTHONPATH", "")
    os.environ.setdefault("AMPFORM_VERIF", "1")


def source_blob_hashes(rel_files: list[str]) -> dict[str, str]:
    out = {}
    for rel in rel_files:
        p = REPO / rel
        if p.exists():
            data = p.read_bytes()
            out[rel] = hashlib.sha1(b"blob %d\0" % len(data) + data).hexdigest()
        else:
            out[rel] = "missing"
    return out


# --------------------------------------------------------------------------- Lean


class _LakeLock:
    """Serialises builds of the SAME target set (different properties build concurrently)."""

    def __init__(self, key: str = ""):
        self.key = re.sub(r"[^A-Za-z0-9]", "_", key)[:80]

    def __enter__(self):
        self.f = open(LEAN / f".lake.lock.{self.key}", "w")
        fcntl.flock(self.f, fcntl.LOCK_EX)
        return self

    def __exit__(self, *a):
        fcntl.flock(self.f, fcntl.LOCK_UN)
        self.f.close()


def write_if_changed(path: Path, text: str) -> bool:
    path.parent.mkdir(parents=True, exist_ok=True)
    if path.exists() and path.read_text() == text:
        return False
    path.write_text(text)
    return True


def lake_build(targets: list[str], timeout: int = 1800) -> tuple[bool, str]:
    """`lake build <targets>`; returns (ok, combined log)."""
    with _LakeLock(targets[0] if targets else ""):
        try:
            p = subprocess.run(
                ["lake", "build", *targets],
                cwd=LEAN,
                capture_output=True,
                text=True,
                timeout=timeout,
            )
        except subprocess.TimeoutExpired as e:
            raise InfraError(f"lake build {targets} timed out after {timeout}s") from e
    return p.returncode == 0, p.stdout + p.stderr


def lean_run(rel_file: str, stdin_text: str, timeout: int = 900) -> str:
    """`lake env lean --run <file>` with the given stdin; returns stdout."""
    p = subprocess.run(
        ["lake", "env", "lean", "--run", rel_file],
        cwd=LEAN,
        input=stdin_text,
        capture_output=True,
        text=True,
        timeout=timeout,
    )
    if p.returncode != 0:
        raise LeanRunError(p.stdout[-4000:] + p.stderr[-4000:])
    return p.stdout


class InfraError(Exception):
    """Infrastructure problem (timeout, missing tool): exit code 2, never a violation."""


class LeanRunError(Exception):
    pass


_DECL = re.compile(r"^(?:@\[[^\]]*\]\s*)?(?:private\s+|protected\s+)?theorem\s+([A-Za-z_][\w'.]*)", re.M)


def strip_comments(text: str) -> str:
    # remove block comments (nested not handled beyond one level of /- -/) and line comments
    out = []
    i, depth, n = 0, 0, len(text)
    while i < n:
        if text.startswith("/-", i):
            depth += 1
            i += 2
        elif depth and text.startswith("-/", i):
            depth -= 1
            i += 2
        elif depth:
            if text[i] == "\n":
                out.append("\n")
            i += 1
        elif text.startswith("--", i):
            while i < n and text[i] != "\n":
                i += 1
        else:
            out.append(text[i])
            i += 1
    return "".join(out)


def theorems_in(rel_file: str) -> list[tuple[str, int]]:
    """(fully qualified theorem name, line) for each theorem of a Lean file (namespace-aware)."""
    text = strip_comments((LEAN / rel_file).read_text())
    res = []
    ns: list[str] = []
    for lineno, line in enumerate(text.split("\n"), 1):
        m = re.match(r"^namespace\s+(\S+)", line)
        if m:
            ns.append(m.group(1))
            continue
        m = re.match(r"^end\s+(\S+)", line)
        if m and ns and ns[-1] == m.group(1):
            ns.pop()
            continue
        m = _DECL.match(line)
        if m:
            res.append((".".join([*ns, m.group(1)]), lineno))
    return res


def forbidden_hits(rel_files: list[str]) -> list[str]:
    hits = []
    for rel in rel_files:
        p = LEAN / rel
        if not p.exists():
            continue
        for lineno, line in enumerate(strip_comments(p.read_text()).split("\n"), 1):
            if FORBIDDEN.search(line):
                hits.append(f"{rel}:{lineno}: {line.strip()[:120]}")
    return hits


def lean_deps(rel_file: str, seen: set[str] | None = None) -> list[str]:
    """Project-local files a Lean file depends on (transitively), incl. itself."""
    seen = set() if seen is None else seen
    if rel_file in seen or not (LEAN / rel_file).exists():
        return []
    seen.add(rel_file)
    out = [rel_file]
    for m in re.finditer(r"^import\s+(Ampverif[\w.]*)", (LEAN / rel_file).read_text(), re.M):
        out += lean_deps(m.group(1).replace(".", "/") + ".lean", seen)
    return out


def prove(prop_id: str, prop_modules: list[str], timeout: int = 1800) -> dict:
    """Build the property modules and their axiom audit.

    Returns a dict with: obligations (list of theorem names), discharged (names whose proof the
    kernel accepted and whose axioms are within the allowed set), failed (name -> reason),
    axioms (name -> list), log (str), build_ok (bool).
    """
    files = [m.replace(".", "/") + ".lean" for m in prop_modules]
    thms: list[tuple[str, str, int]] = []
    for mod, f in zip(prop_modules, files):
        for name, line in theorems_in(f):
            thms.append((name, f, line))
    names = [t[0] for t in thms]
    audit_mod = f"Ampverif.Audit.{prop_id}"
    audit_text = (
        "-- generated by tools/lib/common.py: axiom audit of the property theorems\n"
        + "".join(f"import {m}\n" for m in prop_modules)
        + "".join(f"#print axioms {n}\n" for n in names)
    )
    write_if_changed(LEAN / (audit_mod.replace(".", "/") + ".lean"), audit_text)
    ok, log = lake_build([*prop_modules], timeout=timeout)
    failed: dict[str, str] = {}
    axioms: dict[str, list[str]] = {}
    if ok:
        # run the audit outside lake's cache so that its output is always produced
        p = subprocess.run(
            ["lake", "env", "lean", audit_mod.replace(".", "/") + ".lean"],
            cwd=LEAN, capture_output=True, text=True, timeout=timeout,
        )
        alog = p.stdout + p.stderr
        log += alog
        for m in re.finditer(
            r"'([^']+)' depends on axioms: \[([^\]]*)\]|'([^']+)' does not depend on any axioms",
            alog,
        ):
            if m.group(1):
                axioms[m.group(1)] = [a.strip() for a in m.group(2).replace("\n", " ").split(",") if a.strip()]
            else:
                axioms[m.group(3)] = []
        for n in names:
            if n not in axioms:
                failed[n] = "no axiom report (theorem missing from the compiled module)"
            elif not set(axioms[n]) <= ALLOWED_AXIOMS:
                failed[n] = "axioms outside the allowed set: " + ", ".join(sorted(set(axioms[n]) - ALLOWED_AXIOMS))
    else:
        # attribute each error to the enclosing theorem (errors name file:line:col)
        errs = re.findall(r"error: ([^\s:]+\.lean):(\d+):(\d+): (.*)", log)
        for ef, el, _, msg in errs:
            ef_rel = ef.split("lean/")[-1] if "lean/" in ef else ef
            cand = [t for t in thms if ef_rel.endswith(t[1]) and t[2] <= int(el)]
            if cand:
                failed.setdefault(cand[-1][0], msg[:300])
            else:
                failed.setdefault(f"<{ef_rel}:{el}>", msg[:300])
        if not errs:
            failed["<build>"] = log[-600:]
        # a theorem in a module that did not compile is not discharged even if it has no
        # error of its own only when it depends on a failed one; we cannot tell, so we count
        # only the theorems with errors as failed and report build_ok = False.
    recheck = None
    if ok and os.environ.get("VERIF_TIER") == "thorough":
        # independent re-check of the compiled modules (the toolchain's leanchecker)
        try:
            p = subprocess.run(["lake", "env", "leanchecker", *prop_modules], cwd=LEAN,
                               capture_output=True, text=True, timeout=timeout)
            recheck = {"cmd": "lake env leanchecker " + " ".join(prop_modules), "exit": p.returncode}
            if p.returncode != 0:
                failed["<leanchecker>"] = (p.stdout + p.stderr)[-400:]
        except subprocess.TimeoutExpired:
            recheck = {"cmd": "leanchecker", "exit": "timeout (not a verdict)"}
    all_files = sorted({d for f in files for d in lean_deps(f)})
    hits = forbidden_hits(all_files)
    for h in hits:
        failed[f"<forbidden {h}>"] = "forbidden construct in proof sources"
    if ok:
        discharged = [n for n in names if n not in failed]
    else:
        # the module did not compile: nothing in it was accepted by the kernel as a whole. We still
        # name the theorems whose own proofs failed, but count no theorem as discharged.
        discharged = []
        for n in names:
            failed.setdefault(n, "not checked: the module (or a module it imports) does not compile")
    return {
        "obligations": names,
        "discharged": discharged,
        "failed": failed,
        "axioms": axioms,
        "log": log,
        "build_ok": ok,
        "files": all_files,
        "leanchecker": recheck,
    }


# --------------------------------------------------------------------------- PRNG


def rng_for(prop_id: str, seed: int, stream: str = "") -> random.Random:
    return random.Random(f"{prop_id}:{seed}:{stream}")


# --------------------------------------------------------------------------- known findings


def load_known_findings() -> dict:
    p = ROOT / "known_findings.json"
    if not p.exists():
        return {"known": [], "fixed": []}
    return json.loads(p.read_text())


# --------------------------------------------------------------------------- the check object


class Check:
    """Collects what one run of one property check did and renders the verdict."""

    def __init__(self, prop_id: str, tier: str, seed: int):
        self.id = prop_id
        self.tier = tier
        self.seed = seed
        self.t0 = time.time()
        self.coverage: dict = {
            "obligations": 0,
            "discharged": 0,
            "checker_cmd": "",
            "trusted_base": [],
            "evaluations": 0,
            "distinct_nontrivial": 0,
            "rule": "",
            "samples": [],
        }
        self.assumptions: list[str] = []
        self.violations: list[dict] = []
        self.known_hits: list[str] = []
        self.broken: list[dict] = []  # broken obligations / correspondences (not yet violations)
        self.notes: list[str] = []
        self._distinct: set = set()
        self.known = load_known_findings()

    # ---- counting
    def count(self, key_nontrivial=None, n: int = 1):
        self.coverage["evaluations"] += n
        if key_nontrivial is not None:
            self._distinct.add(key_nontrivial)

    def sample(self, s, limit: int = 6):
        if len(self.coverage["samples"]) < limit:
            self.coverage["samples"].append(s)

    def info(self, key: str, value):
        self.coverage[key] = value

    def note(self, s: str):
        self.notes.append(s)
        print(f"[{self.id}] {s}", flush=True)

    # ---- proofs
    def record_proof(self, res: dict, checker_cmd: str):
        self.coverage["obligations"] += len(res["obligations"])
        self.coverage["discharged"] += len(res["discharged"])
        self.coverage["checker_cmd"] = checker_cmd
        self.coverage.setdefault("theorems", [])
        self.coverage["theorems"] += res["obligations"]
        if res.get("leanchecker") is not None:
            self.coverage["leanchecker"] = res["leanchecker"]
        ax = sorted({a for v in res["axioms"].values() for a in v})
        self.coverage["axioms_reported"] = sorted(set(self.coverage.get("axioms_reported", [])) | set(ax))
        own = {n: w for n, w in res["failed"].items() if not str(w).startswith("not checked:")}
        shown = own or dict(list(res["failed"].items())[:1])
        for name, why in list(shown.items())[:8]:
            self.broken.append({"kind": "proof", "theorem": name, "detail": why})
        if not res["build_ok"] and not res["failed"]:
            self.broken.append({"kind": "proof", "theorem": "<build>", "detail": res["log"][-800:]})

    def broken_correspondence(self, what: str, detail):
        self.broken.append({"kind": "correspondence", "what": what, "detail": detail})

    # ---- verdicts
    def match_known(self, signature: dict) -> dict | None:
        for k in self.known.get("known", []):
            if k.get("property") != self.id:
                continue
            m = k.get("match", {})
            if all(signature.get(a) == b for a, b in m.items()):
                return k
        return None

    def failing_input(self, signature: dict, replay: dict):
        """A concrete input on which the property fails on the real code."""
        k = self.match_known(signature)
        if k is not None:
            line = f"KNOWN-FINDING: property={self.id} {k['what']}"
            if line not in self.known_hits:
                self.known_hits.append(line)
            return
        self.violations.append({"signature": signature, "replay": replay, "found": True})

    def unexplained(self, what: str, detail):
        """A broken obligation/correspondence for which no failing input was found."""
        self.violations.append({"signature": {"broken": what}, "replay": {"broken": what, "detail": detail}, "found": False})

    def finish(self) -> int:
        cov = self.coverage
        cov["distinct_nontrivial"] = len(self._distinct)
        cov["broken"] = self.broken
        cov["known_findings_hit"] = self.known_hits
        cov["notes"] = self.notes
        wall = time.time() - self.t0
        ev = {
            "property_id": self.id,
            "tier": self.tier,
            "seed": self.seed,
            "level": "proof",
            "coverage": cov,
            "assumptions": self.assumptions,
            "wall_s": round(wall, 2),
            "violations": len(self.violations),
        }
        (ROOT / "evidence").mkdir(exist_ok=True)
        (ROOT / "evidence" / f"{self.id}.json").write_text(json.dumps(ev, indent=1, default=str) + "\n")
        for line in self.known_hits:
            print(line, flush=True)
        code = 0
        for i, v in enumerate(self.violations):
            (ROOT / "replays").mkdir(exist_ok=True)
            path = ROOT / "replays" / f"{self.id}_{self.tier}_{self.seed}_{i}.json"
            rep = {"property": self.id, **v["replay"], "signature": v["signature"],
                   "how_to_run": f"./check {self.id} --replay {path.relative_to(ROOT)}"}
            path.write_text(json.dumps(rep, indent=1, default=str) + "\n")
            tail = "" if v["found"] else " no-failing-input-found"
            print(f"VIOLATION property={self.id} replay={path.relative_to(ROOT)}{tail}", flush=True)
            code = 1
        print(
            f"[{self.id}] tier={self.tier} seed={self.seed} obligations={cov['obligations']} "
            f"discharged={cov['discharged']} evaluations={cov['evaluations']} "
            f"distinct={cov['distinct_nontrivial']} violations={len(self.violations)} "
            f"known={len(self.known_hits)} wall={wall:.1f}s",
            flush=True,
        )
        return code
