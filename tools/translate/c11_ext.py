"""Typed extension of the translator core, used by C11 and C12.

`core.py` prints a definition either entirely over ℝ or entirely over ℂ. The phase-space factors
and lineshapes mix both: real arguments `s, m1, m2`, real sub-terms (`q²`, `|q²|`, `ρ̂`), and
complex values that only arise from `sqrt`/`log` of a possibly negative real or from `I`. This
module keeps the same closed AST (produced by `core.Translator`, plus three node kinds) and adds

* a TYPED printer: every sub-term is printed at the smallest of the types N ⊂ R ⊂ C that its
  syntax allows and is coerced where a larger type is needed. `sqrt x`/`log x` of a real `x` are
  `Real.sqrt`/`Real.log` only when `x ≥ 0` is syntactically evident (`Abs(..)`, squares,
  non-negative numerals, symbols carrying SymPy's `nonnegative`/`positive` assumption), else the
  principal complex functions of the coerced argument;
* function-valued parameters (a generic phase-space factor / form factor):
    ("fapp", f, [t...])     application of a function parameter of the current definition
    ("fref", f)             a function parameter passed on as an argument
    ("dref", name)          a generated definition passed as a function argument
* the two renderings (`Gen` over ℝ/ℂ with Mathlib, `GenFloat` over Float/CF, import-free but for
  `Ampverif.Model.CFloat`) and a validation loop that compares the Lean Float twin with the real
  lambdified code under numpy (complex128) and under mpmath at 50 digits (conditioning).
"""

from __future__ import annotations

import math
import traceback
from dataclasses import dataclass, field
from typing import Callable

import sympy as sp

from tools.lib import common
from tools.translate import core
from tools.translate.core import Untranslatable

R, C, N = "R", "C", "N"


def Fun(args, ret):  # noqa: N802
    return ("fun", tuple(args), ret)


_LEAN_TY = {R: "ℝ", C: "ℂ", N: "ℕ"}
_FLOAT_TY = {R: "Float", C: "CF", N: "Nat"}


def ty_text(t, mode: str) -> str:
    table = _LEAN_TY if mode == "lean" else _FLOAT_TY
    if isinstance(t, tuple):
        return "(" + " → ".join([*(ty_text(a, mode) for a in t[1]), ty_text(t[2], mode)]) + ")"
    return table[t]


class TDef:
    """A typed generated definition."""

    def __init__(self, name, params, ret, body=None, doc="", nonneg=(), raw_lean=None,
                 raw_float=None, dispatch=True):
        self.name = name
        self.params = list(params)  # [(leanName, type)]
        self.ret = ret
        self.body = body
        self.doc = doc
        self.nonneg = set(nonneg)
        self.raw_lean = raw_lean
        self.raw_float = raw_float
        self.dispatch = dispatch and all(t in (R, N, C) for _, t in self.params)

    @property
    def sig(self):
        return ([t for _, t in self.params], self.ret)


class RawBlock:
    """Verbatim text for the two renderings (regenerated tables, dispatchers)."""

    dispatch = False

    def __init__(self, name, lean_text, float_text="", sigs=None):
        self.name = name
        self.lean_text = lean_text
        self.float_text = float_text
        self.sigs = dict(sigs or {})  # definitions introduced by the block: name -> ([types], ret)
        self.body = None
        self.doc = ""


class XTranslator(core.Translator):
    """core.Translator + marker functions and per-class hooks.

    `funcs`: sympy undefined function (marker) -> name of a function parameter.
    `hooks`: list of callables (expr, translator) -> ast | None, tried first.
    """

    def __init__(self, classes=None, funcs=None, hooks=()):
        super().__init__(classes=classes, extra=self._extra)
        self.funcs = dict(funcs or {})
        self.hooks = list(hooks)

    def _extra(self, e, _tr):
        for h in self.hooks:
            r = h(e, self)
            if r is not None:
                return r
        if isinstance(e, sp.core.function.AppliedUndef):
            f = self.funcs.get(e.func)
            if f is None:
                raise Untranslatable(f"unknown function {e.func}")
            return ("fapp", f, [self.tr(a) for a in e.args])
        return None


# ------------------------------------------------------------------------------ typed printer


class TypedPrinter:
    def __init__(self, mode: str, sigs: dict, env: dict, nonneg=()):
        assert mode in ("lean", "float")
        self.mode = mode
        self.sigs = sigs  # definition name -> ([param types], ret)
        self.env = env  # symbol -> type (parameters of the definition being printed)
        self.nonneg = set(nonneg)
        self.fp = core.FloatPrinter()

    # -- helpers
    def coerce(self, text, ty, want):
        if ty == want:
            return text
        if ty == R and want == C:
            return f"(({text} : ℝ) : ℂ)" if self.mode == "lean" else f"(CF.ofFloat {text})"
        raise Untranslatable(f"cannot use a term of type {ty} where {want} is expected: {text[:80]}")

    def join(self, tys):
        if any(t not in (R, C) for t in tys):
            raise Untranslatable(f"arithmetic on non-numeric type {tys}")
        return C if C in tys else R

    def nn(self, t) -> bool:
        """syntactically evident `0 ≤ t` (t real)"""
        k = t[0]
        if k == "num":
            return t[1] >= 0
        if k == "pi":
            return True
        if k == "sym":
            return t[1] in self.nonneg
        if k == "call" and t[1] == "abs":
            return True
        if k == "call" and t[1] == "exp":
            return self.p(t)[1] == R
        if k == "pow":
            if self.p(t[1])[1] != R:
                return False
            if t[3] == 1 and t[2] % 2 == 0:
                return True
            return self.nn(t[1])
        if k in ("mul", "add"):
            return all(self.nn(a) for a in t[1])
        return False

    def num(self, p, q, ty=R):
        if self.mode == "lean":
            tn = _LEAN_TY[ty]
            return f"({p} : {tn})" if q == 1 else f"(({p} : {tn}) / {q})"
        return self.fp.num(p, q)

    # -- terms
    def p(self, t):  # noqa: C901, PLR0911, PLR0912, PLR0915
        k = t[0]
        lean = self.mode == "lean"
        if k == "num":
            return self.num(t[1], t[2]), R
        if k == "sym":
            ty = self.env.get(t[1])
            if ty is None:
                raise Untranslatable(f"free symbol {t[1]} is not a parameter of the definition")
            if ty == N:
                # a natural number used as a number: cast
                return (f"({t[1]} : ℝ)" if lean else f"(Float.ofNat {t[1]})"), R
            if isinstance(ty, tuple):
                raise Untranslatable(f"function parameter {t[1]} used as a number")
            return t[1], ty
        if k == "pi":
            return ("Real.pi" if lean else "(Float.ofScientific 3141592653589793 true 15)"), R
        if k == "I":
            return ("Complex.I" if lean else "CF.I"), C
        if k == "nan":
            if lean:
                raise Untranslatable("nan (Piecewise without a default branch)")
            return "((0.0 : Float) / 0.0)", R
        if k in ("add", "mul"):
            parts = [self.p(a) for a in t[1]]
            ty = self.join([b for _, b in parts])
            op = " + " if k == "add" else " * "
            return "(" + op.join(self.coerce(a, b, ty) for a, b in parts) + ")", ty
        if k == "pow":
            b, ty = self.p(t[1])
            p_, q = t[2], t[3]
            if ty not in (R, C):
                raise Untranslatable("power of a non-numeric term")
            if q == 2:
                if ty == R and self.nn(t[1]):
                    b = f"(Real.sqrt {b})" if lean else f"(Float.sqrt {b})"
                else:
                    b = self.coerce(b, ty, C)
                    ty = C
                    b = f"({b} ^ ((1 : ℂ) / 2))" if lean else f"(CF.sqrt {b})"
            elif q != 1:
                raise Untranslatable(f"power with denominator {q}")
            if p_ == 1:
                return b, ty
            if lean:
                if p_ >= 0:
                    return f"({b} ^ {p_})", ty
                if p_ == -1:
                    return f"({b})⁻¹", ty
                return f"(({b} ^ {-p_})⁻¹)", ty
            return (f"(fpowi {b} ({p_}))" if ty == R else f"(CF.powi {b} ({p_}))"), ty
        if k == "call":
            return self.call(t[1], t[2])
        if k == "ite":
            branches = [(self.c(c), self.p(v)) for c, v in t[1]]
            els = self.p(t[2])
            ty = self.join([v[1] for _, v in branches] + [els[1]])
            s = self.coerce(*els, ty)
            for c, v in reversed(branches):
                s = f"(if {c} then {self.coerce(*v, ty)} else {s})"
            return s, ty
        if k == "app":
            sig = self.sigs.get(t[1])
            if sig is None:
                raise Untranslatable(f"call of unknown definition {t[1]}")
            return self.apply(t[1], sig, t[2])
        if k == "fapp":
            sig = self.env.get(t[1])
            if not isinstance(sig, tuple):
                raise Untranslatable(f"{t[1]} is not a function parameter")
            return self.apply(t[1], (list(sig[1]), sig[2]), t[2])
        raise Untranslatable(f"ast node {k}")

    def apply(self, name, sig, args):
        ptys, ret = sig
        if len(ptys) != len(args):
            raise Untranslatable(f"{name} applied to {len(args)} arguments, expects {len(ptys)}")
        out = [name]
        for want, a in zip(ptys, args):
            out.append(self.arg(a, want))
        return "(" + " ".join(out) + ")", ret

    def arg(self, a, want):
        if want == N:
            if a[0] == "num" and a[2] == 1 and a[1] >= 0:
                return str(a[1])
            if a[0] == "sym" and self.env.get(a[1]) == N:
                return a[1]
            raise Untranslatable(f"argument {a!r} where a natural number is expected"[:200])
        if isinstance(want, tuple):
            if a[0] == "fref" and self.env.get(a[1]) == want:
                return a[1]
            if a[0] == "dref" and self.sigs.get(a[1]) is not None:
                ptys, ret = self.sigs[a[1]]
                if ("fun", tuple(ptys), ret) == want:
                    return a[1]
                # a real-valued definition used as a complex-valued function
                if tuple(ptys) == want[1] and ret == R and want[2] == C:
                    xs = [f"x{i}" for i in range(len(ptys))]
                    call = " ".join([a[1], *xs])
                    body = f"(({call} : ℝ) : ℂ)" if self.mode == "lean" else f"(CF.ofFloat ({call}))"
                    return f"(fun {' '.join(xs)} => {body})"
            raise Untranslatable(f"argument {a!r} where a function is expected"[:200])
        txt, ty = self.p(a)
        return self.coerce(txt, ty, want)

    def call(self, f, args):  # noqa: C901, PLR0911, PLR0912
        lean = self.mode == "lean"
        a0, ty = self.p(args[0])
        if f == "abs":
            if ty == R:
                return (f"|{a0}|" if lean else f"(Float.abs {a0})"), R
            return (f"‖{a0}‖" if lean else f"(CF.abs {a0})"), R
        if f in ("re", "im"):
            if ty == R:
                return (a0 if f == "re" else self.num(0, 1)), R
            return f"({a0}).{f}", R
        if f == "conj":
            if ty == R:
                return a0, R
            return (f"((starRingEnd ℂ) {a0})" if lean else f"(CF.conj {a0})"), C
        if f == "sqrt":
            return self.p(("pow", args[0], 1, 2))
        if f == "log":
            if ty == R and self.nn(args[0]):
                return (f"(Real.log {a0})" if lean else f"(Float.log {a0})"), R
            a0 = self.coerce(a0, ty, C)
            return (f"(Complex.log {a0})" if lean else f"(CF.log {a0})"), C
        if f in ("exp", "cos", "sin"):
            if ty == R:
                return (f"(Real.{f} {a0})" if lean else f"(Float.{f} {a0})"), R
            return (f"(Complex.{f} {a0})" if lean else f"(CF.{f} {a0})"), C
        if f in ("atan", "acos"):
            if ty != R:
                raise Untranslatable(f"{f} of a complex term")
            lname = {"atan": "Real.arctan", "acos": "Real.arccos"}[f]
            return (f"({lname} {a0})" if lean else f"(Float.{f} {a0})"), R
        if f == "atan2":
            a1, ty1 = self.p(args[1])
            if ty != R or ty1 != R:
                raise Untranslatable("atan2 of complex terms")
            return (f"(Complex.arg (⟨{a1}, {a0}⟩ : ℂ))" if lean else f"(Float.atan2 {a0} {a1})"), R
        raise Untranslatable(f"call {f}")

    def c(self, c):
        if c[0] in ("and", "or"):
            op = {("and", True): " ∧ ", ("or", True): " ∨ ", ("and", False): " && ", ("or", False): " || "}[
                (c[0], self.mode == "lean")]
            return "(" + op.join(self.c(a) for a in c[1]) + ")"
        a, ta = self.p(c[1])
        b, tb = self.p(c[2])
        if ta != R or tb != R:
            raise Untranslatable("comparison of complex terms")
        sym = (core._RELSYM if self.mode == "lean" else
               {"le": "<=", "lt": "<", "ge": ">=", "gt": ">", "eq": "==", "ne": "!="})[c[0]]
        return f"{a} {sym} {b}"


def infer_ret(d: TDef, sigs: dict) -> str:
    return TypedPrinter("lean", sigs, dict(d.params), d.nonneg).p(d.body)[1]


# ------------------------------------------------------------------------------ files

_IMPORTS = {
    "Real.sqrt": "Mathlib.Analysis.Real.Sqrt",
    "Real.log": "Mathlib.Analysis.SpecialFunctions.Log.Basic",
    "Real.exp": "Mathlib.Analysis.SpecialFunctions.Exp",
    "Real.arctan": "Mathlib.Analysis.SpecialFunctions.Trigonometric.Arctan",
    "Real.arccos": "Mathlib.Analysis.SpecialFunctions.Trigonometric.Inverse",
    "Real.cos": "Mathlib.Analysis.SpecialFunctions.Trigonometric.Basic",
    "Real.sin": "Mathlib.Analysis.SpecialFunctions.Trigonometric.Basic",
    "Real.pi": "Mathlib.Analysis.SpecialFunctions.Trigonometric.Basic",
    "Complex.arg": "Mathlib.Analysis.SpecialFunctions.Complex.Arg",
    "Complex.log": "Mathlib.Analysis.SpecialFunctions.Complex.Log",
    "Complex.exp": "Mathlib.Analysis.SpecialFunctions.Exp",
    "Complex.cos": "Mathlib.Analysis.SpecialFunctions.Trigonometric.Basic",
    "Complex.sin": "Mathlib.Analysis.SpecialFunctions.Trigonometric.Basic",
    "(1 : ℂ) / 2": "Mathlib.Analysis.SpecialFunctions.Pow.Complex",
    "ℂ": "Mathlib.Analysis.Complex.Basic",
    "‖": "Mathlib.Analysis.Complex.Norm",
}


def check_types(defs: list[TDef]) -> dict:
    """Signature table; checks that every body has the declared type (ℝ bodies may be declared ℂ)."""
    sigs: dict = {}
    for d in defs:
        if isinstance(d, RawBlock):
            sigs.update(d.sigs)
            continue
        if d.body is not None:
            got = infer_ret(d, sigs)
            if d.ret is None:
                d.ret = got
            elif got != d.ret and not (got == R and d.ret == C):
                raise Untranslatable(f"definition {d.name} is {got}-valued in the source, the model expects {d.ret}")
        sigs[d.name] = d.sig
    return sigs


def render_gen(module: str, defs: list[TDef], header: str, extra_imports=()) -> str:
    sigs: dict = {}
    body = []
    for d in defs:
        if isinstance(d, RawBlock):
            body.append(d.lean_text)
            body.append("")
            sigs.update(d.sigs)
            continue
        if d.doc:
            body.append(f"/-- {d.doc} -/")
        sig = " ".join(f"({n} : {ty_text(t, 'lean')})" for n, t in d.params)
        if d.raw_lean is not None:
            txt = d.raw_lean
        else:
            pr = TypedPrinter("lean", sigs, dict(d.params), d.nonneg)
            txt, ty = pr.p(d.body)
            txt = pr.coerce(txt, ty, d.ret)
        body.append(f"noncomputable def {d.name} {sig} : {ty_text(d.ret, 'lean')} :=\n  {txt}")
        body.append("")
        sigs[d.name] = d.sig
    body_text = "\n".join(body)
    imports = {"Mathlib.Data.Real.Basic"} | set(extra_imports)
    for k, v in _IMPORTS.items():
        if k in body_text:
            imports.add(v)
    out = [f"-- GENERATED by /verif/tools/translate (c11_ext) — do not edit. {header}"]
    out += [f"import {i}" for i in sorted(imports)]
    out += ["set_option linter.all false", "open Classical", f"namespace {module}", "", body_text, f"end {module}"]
    return "\n".join(out) + "\n"


def render_float(module: str, defs: list[TDef], header: str) -> str:
    sigs: dict = {}
    out = [f"-- GENERATED by /verif/tools/translate (c11_ext) — do not edit. {header}",
           "import Ampverif.Model.CFloat", "set_option linter.all false", "set_option linter.unusedVariables false",
           "open Ampverif", f"namespace {module}", core.FLOAT_PRELUDE]
    for d in defs:
        if isinstance(d, RawBlock):
            if d.float_text:
                out.append(d.float_text)
                out.append("")
            sigs.update(d.sigs)
            continue
        sig = " ".join(f"({n} : {ty_text(t, 'float')})" for n, t in d.params)
        if d.raw_float is not None:
            txt = d.raw_float
        else:
            pr = TypedPrinter("float", sigs, dict(d.params), d.nonneg)
            txt, ty = pr.p(d.body)
            txt = pr.coerce(txt, ty, d.ret)
        out.append(f"def {d.name} {sig} : {ty_text(d.ret, 'float')} :=\n  {txt}")
        out.append("")
        sigs[d.name] = d.sig
    out.append("def dispatch (name : String) (a : Array Float) : Option (Array Float) :=")
    out.append("  match name with")
    for d in defs:
        if not d.dispatch:
            continue
        args = []
        i = 0
        for _, t in d.params:
            if t == C:
                args.append(f"⟨a[{i}]!, a[{i + 1}]!⟩")
                i += 2
            elif t == N:
                args.append(f"(a[{i}]!).toUInt64.toNat")
                i += 1
            else:
                args.append(f"a[{i}]!")
                i += 1
        call = " ".join([d.name, *args])
        if d.ret == R:
            out.append(f'  | "{d.name}" => if a.size = {i} then some #[{call}] else none')
        else:
            out.append(f'  | "{d.name}" => if a.size = {i} then (let r := {call}; some #[r.re, r.im]) else none')
    out.append("  | _ => none")
    out.append(f"end {module}")
    out.append(core._MAIN.replace("NS", module))
    return "\n".join(out) + "\n"


# ------------------------------------------------------------------------------ reference evaluation


@dataclass
class Real:
    """The real object a generated definition is validated against.

    expr: the ampform expression (doit() is applied); args: its symbols in the order of the
    definition's parameters; complex_args: symbols passed as python `complex` (complex dtype);
    mp_only(point) -> bool: points where numpy's value depends on the sign of a zero imaginary
    part; there the twin is compared with the mpmath evaluation of the same lambdified code."""

    expr: object
    args: list
    complex_args: tuple = ()
    mp_only: Callable | None = None
    # family(point) -> (key, expr, args): the real object depends on integer parameters of the
    # point (angular momentum); `args` then lists only the symbols of the float parameters
    family: Callable | None = None


def _mp_expr(expr):
    """`doit()` + ComplexSqrt replaced by its own definition (mpmath printing is not implemented
    for that class; the numpy printer prints exactly this definition)."""
    from ampform.sympy.math import ComplexSqrt

    e = expr.doit() if hasattr(expr, "doit") else sp.sympify(expr)
    return e.replace(lambda x: isinstance(x, ComplexSqrt), lambda x: x.get_definition())


def numpy_fn(real: Real):
    e = real.expr.doit() if hasattr(real.expr, "doit") else sp.sympify(real.expr)
    return sp.lambdify(real.args, e, "numpy")


def mpmath_fn(real: Real):
    return sp.lambdify(real.args, _mp_expr(real.expr), "mpmath")


def mp_call(f, pt, dps=50):
    import mpmath

    with mpmath.workdps(dps):
        try:
            v = f(*[mpmath.mpf(x) if isinstance(x, float) else x for x in pt])
            v = mpmath.mpmathify(v)
            return complex(v)
        except (ZeroDivisionError, ValueError, OverflowError):
            return complex("nan")


# ------------------------------------------------------------------------------ runner


@dataclass
class TypedT1Property:
    prop_id: str
    sources: list
    namespace: str
    build_definitions: Callable  # () -> (defs[TDef], reals{name: Real}, facts{})
    points: Callable  # (name, rng, n) -> list of points (floats / ints in parameter order)
    search: Callable  # (chk, rng, n, tier) -> list of failing inputs
    prop_modules: list
    n_points: dict = field(default_factory=lambda: {"quick": 40, "thorough": 400})
    n_search: dict = field(default_factory=lambda: {"quick": 200, "thorough": 5000})
    rtol: float = 1e-10
    extra_imports: tuple = ()
    expected_facts: dict | None = None
    signature_of: Callable | None = None
    trusted: tuple = ()
    post: Callable | None = None  # (chk, ctx) additional ties (T2 correspondences), run before the search

    def modules(self):
        return f"Ampverif.Gen.{self.namespace}", f"Ampverif.GenFloat.{self.namespace}"

    def _write(self, defs, header):
        gen_mod, flt_mod = self.modules()
        check_types(defs)
        gen_text = render_gen(gen_mod, defs, header, self.extra_imports)
        flt_text = render_float(flt_mod, defs, header)
        common.write_if_changed(common.LEAN / (gen_mod.replace(".", "/") + ".lean"), gen_text)
        common.write_if_changed(common.LEAN / (flt_mod.replace(".", "/") + ".lean"), flt_text)

    def regenerate(self):
        common.use_repo_source()
        hashes = common.source_blob_hashes(self.sources)
        header = "sources: " + ", ".join(f"{k}@{v[:10]}" for k, v in hashes.items())
        defs, _, _ = self.build_definitions()
        self._write(defs, header)

    def run(self, tier: str, seed: int) -> int:  # noqa: C901, PLR0912
        chk = common.Check(self.prop_id, tier, seed)
        common.use_repo_source()
        rng = common.rng_for(self.prop_id, seed)
        hashes = common.source_blob_hashes(self.sources)
        chk.info("source_blobs", hashes)
        header = "sources: " + ", ".join(f"{k}@{v[:10]}" for k, v in hashes.items())
        translated = False
        defs = reals = facts = None
        try:
            defs, reals, facts = self.build_definitions()
            self._write(defs, header)
            translated = True
            chk.info("generated_definitions", [d.name for d in defs])
        except Untranslatable as e:
            chk.broken_correspondence("translator", f"source no longer translatable into the model: {e}")
        except Exception as e:  # noqa: BLE001
            chk.broken_correspondence("translator", "".join(traceback.format_exception_only(type(e), e))[-600:])

        if translated and self.expected_facts:
            for k, v in self.expected_facts.items():
                chk.coverage["obligations"] += 1
                if facts.get(k) == v:
                    chk.coverage["discharged"] += 1
                else:
                    chk.broken_correspondence("fact", f"{k}: expected {v!r}, source gives {facts.get(k)!r}")
            chk.info("facts", {k: (v if isinstance(v, (int, float, str, bool, type(None))) else str(v)) for k, v in facts.items()})

        if translated:
            res = common.prove(self.prop_id, self.prop_modules)
            if not res["build_ok"]:
                # the property module did not compile: none of its theorems was accepted and audited
                # in this run (common.prove only attributes the error lines)
                res["discharged"] = []
            chk.record_proof(res, "cd lean && lake build " + " ".join(self.prop_modules)
                             + f" && lake env lean Ampverif/Audit/{self.prop_id}.lean")
            if res["failed"]:
                chk.note("proof obligations not discharged: "
                         + "; ".join(f"{k}: {v[:160]}" for k, v in list(res["failed"].items())[:5]))
            elif tier == "thorough":
                self.replay_kernel(chk, res)

        if translated:
            try:
                self.validate(chk, defs, reals, rng, self.n_points[tier])
            except common.LeanRunError as e:
                chk.broken_correspondence("float-twin", f"Lean driver failed: {e}"[:800])
            except Exception as e:  # noqa: BLE001
                chk.broken_correspondence("float-twin", "".join(traceback.format_exception(type(e), e, e.__traceback__))[-900:])

        if self.post is not None:
            try:
                self.post(chk, {"tier": tier, "seed": seed, "rng": common.rng_for(self.prop_id, seed, "post")})
            except common.LeanRunError as e:
                chk.broken_correspondence("post", f"Lean driver failed: {e}"[:800])
            except Exception as e:  # noqa: BLE001
                chk.broken_correspondence("post", "".join(traceback.format_exception(type(e), e, e.__traceback__))[-900:])

        n = self.n_search[tier] * (4 if chk.broken else 1)
        found = []
        try:
            found = self.search(chk, common.rng_for(self.prop_id, seed, "search"), n, tier)
        except Exception as e:  # noqa: BLE001
            found = [{"what": "the real code raised while the property was evaluated",
                      "error": "".join(traceback.format_exception(type(e), e, e.__traceback__))[-1500:]}]
        seen = set()
        uniq = []
        for f in found:
            if f.get("what") not in seen:
                seen.add(f.get("what"))
                uniq.append(f)
        n_viol = len(chk.violations)
        known_first = sorted(uniq, key=lambda f: 0 if f.get("class") else 1)
        shown, plain = [], 0
        for f in known_first:  # every known-finding class, plus up to four other distinct failing inputs
            if f.get("class") or plain < 4:
                shown.append(f)
                plain += 0 if f.get("class") else 1
        for f in shown:
            sig = self.signature_of(f) if self.signature_of else {"what": f.get("what")}
            chk.failing_input(sig, {"input": f, "broken": chk.broken})
        if chk.broken and len(chk.violations) == n_viol:
            for b in chk.broken:
                chk.unexplained(b.get("theorem") or b.get("what"), b)
        chk.coverage["rule"] = (
            "evaluations = translator-validation points (Lean Float/CF twin vs numpy complex128 and mpmath on the "
            "real lambdified expression) + independent-oracle cases on the real code; distinct_nontrivial counts "
            "distinct (definition, point) / (oracle clause, case) pairs with finite, well-conditioned values")
        chk.coverage["trusted_base"] = [
            "Lean 4.33 kernel + Mathlib v4.33 (axioms: see axioms_reported)",
            "tools/translate core + c11_ext (sympy tree -> typed Lean), validated on this run by the Float/CF twin",
            "sympy lambdify, numpy and mpmath used to execute the real expressions",
            *self.trusted,
        ]
        return chk.finish()

    def replay_kernel(self, chk, res):
        """thorough tier: re-check the compiled property modules and the project-local modules they
        import with the external kernel (`leanchecker`), independently of the elaborator's run."""
        import subprocess

        mods = sorted({f[:-5].replace("/", ".") for f in res["files"]})
        chk.coverage["obligations"] += 1
        try:
            p = subprocess.run(["lake", "env", "leanchecker", *mods], cwd=common.LEAN, capture_output=True,
                               text=True, timeout=1200)
        except subprocess.TimeoutExpired as e:
            raise common.InfraError("leanchecker timed out") from e
        chk.info("leanchecker_modules", mods)
        if p.returncode == 0:
            chk.coverage["discharged"] += 1
        else:
            chk.broken.append({"kind": "proof", "theorem": "<leanchecker>", "detail": (p.stdout + p.stderr)[-600:]})

    # -------------------------------------------------------------- validation
    def validate(self, chk, defs, reals, rng, n):  # noqa: C901, PLR0912, PLR0915
        import numpy as np

        lines, plan = [], []
        for d in defs:
            if d.name not in reals or not d.dispatch:
                continue
            for pt in self.points(d.name, rng, n):
                toks = []
                for (_, t), v in zip(d.params, pt):
                    toks.append(str(core.float_bits(float(v))))
                    if t == C:
                        toks.append(str(core.float_bits(0.0)))
                lines.append(" ".join([d.name, *toks]))
                plan.append((d, pt))
        _, flt_mod = self.modules()
        out = common.lean_run(flt_mod.replace(".", "/") + ".lean", "\n".join(lines) + "\n")
        outs = out.strip().split("\n") if out.strip() else []
        if len(outs) != len(plan):
            chk.broken_correspondence("float-twin", f"driver returned {len(outs)} lines for {len(plan)} requests")
            return
        fnp, fmp = {}, {}
        mism = 0
        stats = {"compared_numpy": 0, "compared_mpmath_signed_zero_region": 0, "skipped_ill_conditioned": 0,
                 "skipped_non_finite": 0}
        per_def: dict = {}
        for (d, pt), o in zip(plan, outs):
            real = reals[d.name]
            if o == "bad-op":
                chk.broken_correspondence("float-twin", f"driver rejected {d.name}")
                return
            if real.family is not None:
                fkey, fexpr, fargs = real.family(pt)
                key = (d.name, fkey)
                fpt = [v for v in pt if not (isinstance(v, int) and not isinstance(v, bool))]
                this = Real(fexpr, fargs, real.complex_args)
            else:
                key, fpt, this = d.name, list(pt), real
            if key not in fnp:
                fnp[key] = numpy_fn(this)
                fmp[key] = mpmath_fn(this)
            lv = [core.bits_float(int(t)) for t in o.split()]
            lean_val = complex(lv[0], lv[1] if len(lv) > 1 else 0.0)
            cset = {str(a) for a in real.complex_args}
            call = [complex(v) if str(a) in cset else float(v) for a, v in zip(this.args, fpt)]
            try:
                with np.errstate(all="ignore"):
                    ref = complex(fnp[key](*call))
            except (ZeroDivisionError, TypeError):  # TypeError: numpy ufunc without a complex loop (arctan2)
                ref = complex("nan")
            mp = mp_call(fmp[key], [float(v) for v in fpt])
            pd = per_def.setdefault(d.name, {"points": 0, "compared": 0})
            pd["points"] += 1
            fin = lambda z: math.isfinite(z.real) and math.isfinite(z.imag)  # noqa: E731
            if not fin(mp) or not (fin(ref) or (real.mp_only and real.mp_only(pt))):
                stats["skipped_non_finite"] += 1
                chk.count(None)
                continue
            scale = max(1.0, abs(mp))
            tol = self.rtol * scale
            if real.mp_only is not None and real.mp_only(pt):
                ok = abs(lean_val - mp) <= tol
                stats["compared_mpmath_signed_zero_region"] += 1
            elif abs(ref - mp) <= tol / 100:
                ok = abs(lean_val - ref) <= tol
                stats["compared_numpy"] += 1
            else:
                # ill-conditioned for double precision: the twin must still be as close to the
                # exact value as numpy is (within three orders of magnitude)
                ok = (not fin(lean_val)) or abs(lean_val - mp) <= 1e3 * abs(ref - mp) + tol
                stats["skipped_ill_conditioned"] += 1
                chk.count(None)
                if ok:
                    continue
            if ok:
                pd["compared"] += 1
                chk.count((d.name, tuple(pt)))
            else:
                chk.count(None)
                mism += 1
                if mism <= 3:
                    chk.broken_correspondence("float-twin", {
                        "definition": d.name, "point": list(pt), "lean": [lean_val.real, lean_val.imag],
                        "numpy": [ref.real, ref.imag], "mpmath": [mp.real, mp.imag]})
        chk.info("translator_validation_points", len(plan))
        chk.info("translator_validation_mismatches", mism)
        chk.info("translator_validation_stats", stats)
        chk.info("translator_validation_per_definition", per_def)
        for name, pd in per_def.items():
            if pd["compared"] * 2 < pd["points"]:
                chk.broken_correspondence("float-twin", f"fewer than half of the validation points of {name} were comparable ({pd})")
        if plan:
            d, pt = plan[0]
            chk.sample({"translator_validation": d.name, "point": list(pt), "lean_float_bits": outs[0]})
