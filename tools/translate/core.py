"""SymPy tree -> small closed AST -> Lean printers (ℝ, ℂ and executable Float twins).

The node set is closed: anything not listed aborts the translation with `Untranslatable`
(which the checks treat as a broken proof obligation, never silently skipped).

AST (plain tuples):
  ("num", p, q)                      rational p/q (q > 0)
  ("sym", leanName)                  variable
  ("I",) ("pi",) ("nan",)
  ("add", [t...]) ("mul", [t...])
  ("pow", base, p, q)                base ** (p/q), q in {1, 2}
  ("call", f, [t...])                f in CALLS
  ("ite", [(cond, t)...], telse)     cond = ("le"|"lt"|"ge"|"gt"|"eq"|"ne", a, b)
  ("app", defName, [t...])           call of another generated definition
"""

from __future__ import annotations

import re
from fractions import Fraction

import sympy as sp

CALLS = {
    "sqrt", "abs", "log", "atan", "acos", "atan2", "cos", "sin", "exp", "conj", "re", "im",
    "sign",
}


class Untranslatable(Exception):
    pass


_GREEK = {"\\": "", "{": "", "}": "", "^": "_", ",": "_", " ": "", "(": "", ")": "", "+": "p", "-": "m", "~": "bar", "*": "st", "'": "pr", "/": "o", ".": "d"}


def lean_name(name: str) -> str:
    s = "".join(_GREEK.get(c, c) for c in name)
    s = re.sub(r"[^A-Za-z0-9_]", "_", s)
    if not s or s[0].isdigit():
        s = "v" + s
    if s in {"fun", "let", "in", "if", "then", "else", "at", "from", "have", "show", "end", "def", "theorem", "open", "by", "do", "match", "with", "Type", "Prop", "Sort", "pi", "I", "λ", "lambda", "set", "by"}:
        s += "_"
    return s


class Translator:
    """Converts SymPy expressions to the AST.

    `classes` maps an ampform expression class to a generated definition name; instances of
    those classes become ("app", name, args) so that the Lean model keeps the structure of
    the source. Every other non-builtin node is unfolded with `.evaluate()`/`.doit(deep=False)`
    when `unfold_unknown` is set, else rejected.
    """

    def __init__(self, classes: dict | None = None, unfold_unknown: bool = False, extra=None):
        self.classes = dict(classes or {})
        self.unfold_unknown = unfold_unknown
        self.extra = extra  # callable(expr, translator) -> ast | None
        self.symbols: dict[str, sp.Symbol] = {}

    def sym(self, s: sp.Symbol) -> tuple:
        n = lean_name(s.name)
        prev = self.symbols.get(n)
        if prev is not None and prev != s:
            raise Untranslatable(f"two symbols map to Lean name {n}: {prev!r} {s!r}")
        self.symbols[n] = s
        return ("sym", n)

    def __call__(self, e) -> tuple:
        return self.tr(sp.sympify(e))

    def tr(self, e) -> tuple:  # noqa: C901, PLR0911, PLR0912
        if self.extra is not None:
            r = self.extra(e, self)
            if r is not None:
                return r
        for cls, name in self.classes.items():
            if type(e) is cls:
                return ("app", name, [self.tr(a) for a in e.args])
        if isinstance(e, sp.Integer):
            return ("num", int(e), 1)
        if isinstance(e, sp.Rational):
            return ("num", int(e.p), int(e.q))
        if isinstance(e, sp.Float):
            fr = Fraction(float(e))
            if fr.denominator > 10**6:
                fr = Fraction(str(e)).limit_denominator(10**12)
            return ("num", fr.numerator, fr.denominator)
        if e is sp.I:
            return ("I",)
        if e is sp.pi:
            return ("pi",)
        if e is sp.nan:
            return ("nan",)
        if isinstance(e, sp.Symbol):
            return self.sym(e)
        if isinstance(e, sp.Add):
            return ("add", [self.tr(a) for a in e.args])
        if isinstance(e, sp.Mul):
            return ("mul", [self.tr(a) for a in e.args])
        if isinstance(e, sp.Pow):
            b, x = e.args
            if isinstance(x, sp.Rational) and x.q in (1, 2):
                return ("pow", self.tr(b), int(x.p), int(x.q))
            if b is sp.E:
                return ("call", "exp", [self.tr(x)])
            raise Untranslatable(f"Pow with exponent {x!r}")
        if isinstance(e, sp.exp):
            return ("call", "exp", [self.tr(e.args[0])])
        simple = {
            sp.Abs: "abs", sp.log: "log", sp.atan: "atan", sp.acos: "acos", sp.cos: "cos",
            sp.sin: "sin", sp.conjugate: "conj", sp.re: "re", sp.im: "im", sp.sign: "sign",
        }
        for cls, name in simple.items():
            if isinstance(e, cls):
                if len(e.args) != 1:
                    raise Untranslatable(f"{name} with {len(e.args)} args")
                return ("call", name, [self.tr(e.args[0])])
        if isinstance(e, sp.atan2):
            return ("call", "atan2", [self.tr(e.args[0]), self.tr(e.args[1])])
        if isinstance(e, sp.Piecewise):
            branches = []
            telse = None
            for val, cond in e.args:
                if cond is sp.true or cond == True:  # noqa: E712
                    telse = self.tr(val)
                    break
                branches.append((self.cond(cond), self.tr(val)))
            if telse is None:
                telse = ("nan",)
            return ("ite", branches, telse)
        if self.unfold_unknown and hasattr(e, "evaluate"):
            return self.tr(e.evaluate())
        raise Untranslatable(f"node {type(e).__module__}.{type(e).__name__}: {e!r}"[:300])

    def cond(self, c) -> tuple:
        rel = {
            sp.LessThan: "le", sp.StrictLessThan: "lt", sp.GreaterThan: "ge",
            sp.StrictGreaterThan: "gt", sp.Equality: "eq", sp.Unequality: "ne",
        }
        for cls, name in rel.items():
            if isinstance(c, cls):
                return (name, self.tr(c.args[0]), self.tr(c.args[1]))
        if isinstance(c, sp.And):
            return ("and", [self.cond(a) for a in c.args])
        if isinstance(c, sp.Or):
            return ("or", [self.cond(a) for a in c.args])
        raise Untranslatable(f"condition {c!r}")


# ------------------------------------------------------------------------------ printers

_RELSYM = {"le": "≤", "lt": "<", "ge": "≥", "gt": ">", "eq": "=", "ne": "≠"}


class RealPrinter:
    """Prints the AST as a term of type ℝ (Mathlib)."""

    ty = "ℝ"
    imports = ("Mathlib.Analysis.SpecialFunctions.Trigonometric.Inverse",
               "Mathlib.Analysis.SpecialFunctions.Trigonometric.Arctan",
               "Mathlib.Analysis.SpecialFunctions.Log.Basic",
               "Mathlib.Analysis.SpecialFunctions.Complex.Arg",
               "Mathlib.Analysis.Real.Sqrt")
    fn = {"sqrt": "Real.sqrt", "log": "Real.log", "atan": "Real.arctan", "acos": "Real.arccos",
          "cos": "Real.cos", "sin": "Real.sin", "exp": "Real.exp"}

    def num(self, p, q):
        if q == 1:
            return f"({p} : {self.ty})"
        return f"(({p} : {self.ty}) / {q})"

    def p(self, t) -> str:  # noqa: C901, PLR0911, PLR0912
        k = t[0]
        if k == "num":
            return self.num(t[1], t[2])
        if k == "sym":
            return t[1]
        if k == "pi":
            return "Real.pi"
        if k == "I":
            raise Untranslatable("imaginary unit in a real definition")
        if k == "nan":
            raise Untranslatable("nan in a real definition")
        if k == "add":
            return "(" + " + ".join(self.p(a) for a in t[1]) + ")"
        if k == "mul":
            return "(" + " * ".join(self.p(a) for a in t[1]) + ")"
        if k == "pow":
            b, p_, q = self.p(t[1]), t[2], t[3]
            if q == 2:
                b = f"{self.fn['sqrt']} {b}" if b.startswith("(") or " " not in b else f"{self.fn['sqrt']} ({b})"
                b = f"({b})"
            if p_ == 1:
                return b
            if p_ >= 0:
                return f"({b} ^ {p_})"
            if p_ == -1:
                return f"({b})⁻¹"
            return f"(({b} ^ {-p_})⁻¹)"
        if k == "call":
            f, args = t[1], t[2]
            if f == "abs":
                return f"|{self.p(args[0])}|"
            if f == "atan2":
                # atan2(y, x) = arg (x + i y)
                return f"(Complex.arg (⟨{self.p(args[1])}, {self.p(args[0])}⟩ : ℂ))"
            if f in ("conj", "re"):
                return self.p(args[0])
            if f == "sign":
                return f"(SignType.sign {self.p(args[0])} : {self.ty})"
            if f in self.fn:
                return f"({self.fn[f]} {self.p(args[0])})"
            raise Untranslatable(f"call {f} in a real definition")
        if k == "ite":
            s = self.p(t[2])
            for c, v in reversed(t[1]):
                s = f"(if {self.c(c)} then {self.p(v)} else {s})"
            return s
        if k == "app":
            return "(" + " ".join([t[1], *[self.p(a) for a in t[2]]]) + ")"
        raise Untranslatable(f"ast node {k}")

    def c(self, c) -> str:
        if c[0] in ("and", "or"):
            op = " ∧ " if c[0] == "and" else " ∨ "
            return "(" + op.join(self.c(a) for a in c[1]) + ")"
        return f"{self.p(c[1])} {_RELSYM[c[0]]} {self.p(c[2])}"


class ComplexPrinter(RealPrinter):
    """Prints the AST as a term of type ℂ; real-typed symbols must be coerced by the caller
    (we print every variable as ((x : ℝ) : ℂ) when `real_vars` contains it)."""

    ty = "ℂ"
    imports = ("Mathlib.Analysis.SpecialFunctions.Pow.Complex",
               "Mathlib.Analysis.SpecialFunctions.Complex.Log",
               "Mathlib.Analysis.SpecialFunctions.Trigonometric.Inverse",
               "Mathlib.Analysis.SpecialFunctions.Complex.Arg",
               "Mathlib.Analysis.Real.Sqrt")
    fn = {"log": "Complex.log", "cos": "Complex.cos", "sin": "Complex.sin", "exp": "Complex.exp"}

    def __init__(self, real_vars=()):
        self.real_vars = set(real_vars)

    def p(self, t) -> str:
        k = t[0]
        if k == "sym":
            return f"({t[1]} : ℂ)" if t[1] in self.real_vars else t[1]
        if k == "I":
            return "Complex.I"
        if k == "pi":
            return "(Real.pi : ℂ)"
        if k == "pow" and t[3] == 2:
            b = f"(({self.p(t[1])}) ^ ((1 : ℂ) / 2))"
            p_ = t[2]
            if p_ == 1:
                return b
            if p_ >= 0:
                return f"({b} ^ {p_})"
            if p_ == -1:
                return f"({b})⁻¹"
            return f"(({b} ^ {-p_})⁻¹)"
        if k == "call":
            f, args = t[1], t[2]
            if f == "abs":
                return f"((‖{self.p(args[0])}‖ : ℝ) : ℂ)"
            if f == "conj":
                return f"((starRingEnd ℂ) {self.p(args[0])})"
            if f == "re":
                return f"((({self.p(args[0])}).re : ℝ) : ℂ)"
            if f == "im":
                return f"((({self.p(args[0])}).im : ℝ) : ℂ)"
            if f == "sqrt":
                return f"(({self.p(args[0])}) ^ ((1 : ℂ) / 2))"
            if f in self.fn:
                return f"({self.fn[f]} {self.p(args[0])})"
            raise Untranslatable(f"call {f} in a complex definition")
        if k == "ite":
            s = self.p(t[2])
            for c, v in reversed(t[1]):
                s = f"(if {self.c(c)} then {self.p(v)} else {s})"
            return s
        return super().p(t)

    def c(self, c) -> str:
        # comparisons are between real quantities: print both sides as reals
        rp = RealPrinter()
        if c[0] in ("and", "or"):
            op = " ∧ " if c[0] == "and" else " ∨ "
            return "(" + op.join(self.c(a) for a in c[1]) + ")"
        return f"{rp.p(c[1])} {_RELSYM[c[0]]} {rp.p(c[2])}"


class FloatPrinter:
    """Prints the AST as an executable term of type Float (import-free)."""

    ty = "Float"
    fn = {"sqrt": "Float.sqrt", "log": "Float.log", "atan": "Float.atan", "acos": "Float.acos",
          "cos": "Float.cos", "sin": "Float.sin", "exp": "Float.exp", "abs": "Float.abs"}

    def num(self, p, q):
        s = f"(Float.ofInt ({p}))"
        return s if q == 1 else f"({s} / (Float.ofNat {q}))"

    def p(self, t) -> str:  # noqa: C901, PLR0911, PLR0912
        k = t[0]
        if k == "num":
            return self.num(t[1], t[2])
        if k == "sym":
            return t[1]
        if k == "pi":
            return "(Float.ofScientific 3141592653589793 true 15)"
        if k == "nan":
            return "((0.0 : Float) / 0.0)"
        if k == "I":
            raise Untranslatable("imaginary unit in a Float definition")
        if k == "add":
            return "(" + " + ".join(self.p(a) for a in t[1]) + ")"
        if k == "mul":
            return "(" + " * ".join(self.p(a) for a in t[1]) + ")"
        if k == "pow":
            b, p_, q = self.p(t[1]), t[2], t[3]
            if q == 2:
                b = f"(Float.sqrt {b})"
            if p_ == 1:
                return b
            return f"(fpowi {b} ({p_}))"
        if k == "call":
            f, args = t[1], t[2]
            if f == "atan2":
                return f"(Float.atan2 {self.p(args[0])} {self.p(args[1])})"
            if f in ("conj", "re"):
                return self.p(args[0])
            if f == "sign":
                return f"(fsign {self.p(args[0])})"
            if f in self.fn:
                return f"({self.fn[f]} {self.p(args[0])})"
            raise Untranslatable(f"call {f} in a Float definition")
        if k == "ite":
            s = self.p(t[2])
            for c, v in reversed(t[1]):
                s = f"(if {self.c(c)} then {self.p(v)} else {s})"
            return s
        if k == "app":
            return "(" + " ".join([t[1], *[self.p(a) for a in t[2]]]) + ")"
        raise Untranslatable(f"ast node {k}")

    def c(self, c) -> str:
        if c[0] in ("and", "or"):
            op = " && " if c[0] == "and" else " || "
            return "(" + op.join(self.c(a) for a in c[1]) + ")"
        sym = {"le": "<=", "lt": "<", "ge": ">=", "gt": ">", "eq": "==", "ne": "!="}[c[0]]
        return f"{self.p(c[1])} {sym} {self.p(c[2])}"


class CFloatPrinter(FloatPrinter):
    """Prints the AST as an executable term of type CF (complex pair of Floats, see
    Ampverif/Model/CFloat.lean). Variables listed in real_vars are Floats and get lifted."""

    ty = "CF"
    fn = {"sqrt": "CF.sqrt", "log": "CF.log", "exp": "CF.exp", "cos": "CF.cos", "sin": "CF.sin",
          "conj": "CF.conj"}

    def __init__(self, real_vars=()):
        self.real_vars = set(real_vars)

    def num(self, p, q):
        return f"(CF.ofFloat {FloatPrinter().num(p, q)})"

    def p(self, t) -> str:
        k = t[0]
        if k == "sym":
            return f"(CF.ofFloat {t[1]})" if t[1] in self.real_vars else t[1]
        if k == "I":
            return "CF.I"
        if k == "pi":
            return "(CF.ofFloat (Float.ofScientific 3141592653589793 true 15))"
        if k == "nan":
            return "(CF.ofFloat ((0.0 : Float) / 0.0))"
        if k == "pow":
            b, p_, q = self.p(t[1]), t[2], t[3]
            if q == 2:
                b = f"(CF.sqrt {b})"
            if p_ == 1:
                return b
            return f"(CF.powi {b} ({p_}))"
        if k == "call":
            f, args = t[1], t[2]
            if f == "abs":
                return f"(CF.ofFloat (CF.abs {self.p(args[0])}))"
            if f == "re":
                return f"(CF.ofFloat ({self.p(args[0])}).re)"
            if f == "im":
                return f"(CF.ofFloat ({self.p(args[0])}).im)"
            if f in self.fn:
                return f"({self.fn[f]} {self.p(args[0])})"
            if f in ("atan", "acos", "atan2"):
                fp = _RealOfComplex(self)
                return f"(CF.ofFloat {fp.p(t)})"
            raise Untranslatable(f"call {f} in a CF definition")
        return super().p(t)

    def c(self, c) -> str:
        fp = _RealOfComplex(self)
        if c[0] in ("and", "or"):
            op = " && " if c[0] == "and" else " || "
            return "(" + op.join(self.c(a) for a in c[1]) + ")"
        sym = {"le": "<=", "lt": "<", "ge": ">=", "gt": ">", "eq": "==", "ne": "!="}[c[0]]
        return f"{fp.p(c[1])} {sym} {fp.p(c[2])}"


class _RealOfComplex(FloatPrinter):
    """Float printer for real sub-terms (conditions, atan arguments) of a complex definition;
    complex-typed variables are projected to their real part."""

    def __init__(self, outer: CFloatPrinter):
        self.outer = outer

    def p(self, t) -> str:
        if t[0] == "sym" and t[1] not in self.outer.real_vars:
            return f"({t[1]}).re"
        if t[0] == "app":
            return f"({self.outer.p(t)}).re"
        return super().p(t)


FLOAT_PRELUDE = """
def fpowi (b : Float) (n : Int) : Float :=
  let rec go (k : Nat) (acc : Float) : Float := match k with
    | 0 => acc
    | k + 1 => go k (acc * b)
  if n ≥ 0 then go n.toNat 1.0 else 1.0 / go (-n).toNat 1.0
def fsign (x : Float) : Float := if x > 0 then 1.0 else if x < 0 then -1.0 else x
"""


# ------------------------------------------------------------------------------ files


class Definition:
    def __init__(self, name: str, params: list[str], body: tuple, ty: str = "real",
                 real_params: list[str] | None = None, doc: str = ""):
        self.name = name
        self.params = params
        self.body = body
        self.ty = ty  # "real" | "complex"
        self.real_params = params if real_params is None else real_params
        self.doc = doc


def _needed_imports(body_text: str) -> set[str]:
    imports = {"Mathlib.Data.Real.Basic"}
    table = {
        "Real.sqrt": "Mathlib.Analysis.Real.Sqrt",
        "Real.log": "Mathlib.Analysis.SpecialFunctions.Log.Basic",
        "Real.exp": "Mathlib.Analysis.SpecialFunctions.Exp",
        "Real.arctan": "Mathlib.Analysis.SpecialFunctions.Trigonometric.Arctan",
        "Real.arccos": "Mathlib.Analysis.SpecialFunctions.Trigonometric.Inverse",
        "Real.cos": "Mathlib.Analysis.SpecialFunctions.Trigonometric.Basic",
        "Real.sin": "Mathlib.Analysis.SpecialFunctions.Trigonometric.Basic",
        "Real.pi": "Mathlib.Analysis.SpecialFunctions.Trigonometric.Basic",
        "Complex.arg": "Mathlib.Analysis.SpecialFunctions.Complex.Arg",
        "Complex.log": "Mathlib.Analysis.SpecialFunctions.Complex.Log",
        "Complex.exp": "Mathlib.Analysis.SpecialFunctions.Exp",
        "Complex.cos": "Mathlib.Analysis.SpecialFunctions.Trigonometric.Basic",
        "Complex.sin": "Mathlib.Analysis.SpecialFunctions.Trigonometric.Basic",
        "(1 : ℂ) / 2": "Mathlib.Analysis.SpecialFunctions.Pow.Complex",
        "ℂ": "Mathlib.Analysis.Complex.Basic",
        "SignType.sign": "Mathlib.Data.Sign.Basic",
    }
    for k, v in table.items():
        if k in body_text:
            imports.add(v)
    return imports


def render_gen(namespace: str, defs: list[Definition], header: str, extra_imports=()) -> str:
    body = []
    for d in defs:
        if d.doc:
            body.append(f"/-- {d.doc} -/")
        if d.ty == "real":
            ps = " ".join(d.params)
            sig = f"({ps} : ℝ) " if d.params else ""
            body.append(f"noncomputable def {d.name} {sig}: ℝ :=\n  {RealPrinter().p(d.body)}")
        else:
            rp = [p for p in d.params if p in d.real_params]
            sig = " ".join(f"({p} : ℝ)" if p in rp else f"({p} : ℂ)" for p in d.params)
            body.append(f"noncomputable def {d.name} {sig} : ℂ :=\n  {ComplexPrinter(rp).p(d.body)}")
        body.append("")
    body_text = "\n".join(body)
    imports = _needed_imports(body_text) | set(extra_imports)
    out = [f"-- GENERATED by /verif/tools/translate — do not edit. {header}"]
    out += [f"import {i}" for i in sorted(imports)]
    out += ["set_option linter.all false", "open Classical", f"namespace {namespace}", "", body_text]
    out.append(f"end {namespace}")
    return "\n".join(out) + "\n"


def render_float(namespace: str, defs: list[Definition], header: str) -> str:
    """Executable twin plus a line-protocol `main`:  `<def> <bits>...` -> result bits.

    Real definitions take/return Float; complex ones take Floats for real params and two
    Floats (re, im) for complex params and return two values."""
    has_c = any(d.ty == "complex" for d in defs)
    out = [f"-- GENERATED by /verif/tools/translate — do not edit. {header}"]
    if has_c:
        out.append("import Ampverif.Model.CFloat")
        out.append("open Ampverif")
    out += ["set_option linter.all false", f"namespace {namespace}", FLOAT_PRELUDE]
    for d in defs:
        if d.ty == "real":
            ps = " ".join(d.params)
            sig = f"({ps} : Float) " if d.params else ""
            out.append(f"def {d.name} {sig}: Float :=\n  {FloatPrinter().p(d.body)}")
        else:
            rp = [p for p in d.params if p in d.real_params]
            sig = " ".join(f"({p} : Float)" if p in rp else f"({p} : CF)" for p in d.params)
            out.append(f"def {d.name} {sig} : CF :=\n  {CFloatPrinter(rp).p(d.body)}")
        out.append("")
    # dispatcher
    out.append("def dispatch (name : String) (a : Array Float) : Option (Array Float) :=")
    out.append("  match name with")
    for d in defs:
        args = []
        i = 0
        for p in d.params:
            if d.ty == "complex" and p not in d.real_params:
                args.append(f"⟨a[{i}]!, a[{i + 1}]!⟩")
                i += 2
            else:
                args.append(f"a[{i}]!")
                i += 1
        call = " ".join([d.name, *args])
        if d.ty == "real":
            out.append(f'  | "{d.name}" => if a.size = {i} then some #[{call}] else none')
        else:
            out.append(f'  | "{d.name}" => if a.size = {i} then (let r := {call}; some #[r.re, r.im]) else none')
    out.append("  | _ => none")
    out.append(f"end {namespace}")
    out.append(_MAIN.replace("NS", namespace))
    return "\n".join(out) + "\n"


_MAIN = """
partial def loop (h : IO.FS.Stream) : IO Unit := do
  let line ← h.getLine
  if line.isEmpty then return ()
  let toks := (line.trimAscii.toString.splitOn " ").filter (· ≠ "")
  match toks with
  | [] => loop h
  | name :: rest =>
    let args := rest.map (fun t => Float.ofBits (t.toNat!).toUInt64)
    match NS.dispatch name args.toArray with
    | some r => IO.println (" ".intercalate (r.toList.map (fun x => toString x.toBits.toNat)))
    | none => IO.println "bad-op"
    loop h
def main : IO Unit := do loop (← IO.getStdin)
"""


# ------------------------------------------------------------------------------ validation


def float_bits(x: float) -> int:
    import struct

    return struct.unpack("<Q", struct.pack("<d", float(x)))[0]


def bits_float(b: int) -> float:
    import struct

    return struct.unpack("<d", struct.pack("<Q", int(b)))[0]
