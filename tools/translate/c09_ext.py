"""Translator extension for the K-matrix properties (C09, C10).

* `Indexed` elements (`K[0, 1]`, `m[1]`, `Gamma[1, 0]`, ...) become Lean variables `K_0_1`, `m_1`...
* `Sum(body, (R, a, b))` with integer bounds is expanded term by term (`xreplace`), without
  calling `doit()` on the summand (so that the unevaluated ampform nodes stay visible).
* `EnergyDependentWidth` is unfolded ONE level with its own `evaluate()`; the form factors and
  phase-space factors it (and the P-vector) refers to become *leaf* variables of the Lean model:
      phsp(s, m_a[i], m_b[i])            -> rho{i}        (the same name formulate() substitutes)
      phsp(m[R]**2, m_a[i], m_b[i])      -> rhoR_{R}_{i}
      FormFactor(s, m_a[i], m_b[i], L, d)       -> ff_{i}
      FormFactor(m[R]**2, m_a[i], m_b[i], L, d) -> ff0_{R}_{i}
  The leaves are remembered with the sympy expression they stand for; the translator validation
  evaluates the REAL leaf expressions numerically and feeds them to the Lean twin, so the naming
  is checked on every run. Any other phase-space class / argument pattern aborts the translation.
* a float twin renderer with an inline complex-pair prelude (import-free).
"""

from __future__ import annotations

import re

import sympy as sp

from tools.translate import core


class LeafTranslator:
    """Builds the `extra` hook of core.Translator and records the leaves it met."""

    def __init__(self, phsp_classes, s_symbol, L=None, d=None, known_sums=None):
        from ampform.dynamics import EnergyDependentWidth
        from ampform.dynamics.form_factor import FormFactor

        self.EDW = EnergyDependentWidth
        self.FF = FormFactor
        self.phsp_classes = tuple(phsp_classes)
        self.s = s_symbol
        self.L = L
        self.d = d
        self.leaves: dict[str, sp.Expr] = {}
        self.indexed: dict[str, sp.Expr] = {}
        # Sum objects that ARE an already translated parametrisation: expr -> (def name, params, meaning)
        self.known_sums: dict = dict(known_sums or {})
        self.inherited: dict = {}
        self.tr = core.Translator(extra=self.extra)

    # -- naming
    @staticmethod
    def indexed_name(e: sp.Indexed) -> str:
        base = str(e.base.label)
        idx = []
        for i in e.indices:
            if not isinstance(i, (sp.Integer, int)):
                raise core.Untranslatable(f"symbolic index in {e!r}")
            idx.append(str(int(i)))
        return core.lean_name(base + "_" + "_".join(idx))

    def _channel(self, m1, m2) -> int:
        if not (isinstance(m1, sp.Indexed) and isinstance(m2, sp.Indexed)):
            raise core.Untranslatable(f"channel masses {m1!r}, {m2!r}")
        if str(m1.base.label) != "m_a" or str(m2.base.label) != "m_b" or m1.indices != m2.indices:
            raise core.Untranslatable(f"channel masses {m1!r}, {m2!r} are not (m_a[i], m_b[i])")
        return int(m1.indices[0])

    def _point(self, s) -> str:
        """'' when s is the Mandelstam symbol, 'R' suffix when it is m[R]**2."""
        if s == self.s:
            return ""
        if isinstance(s, sp.Pow) and s.exp == 2 and isinstance(s.base, sp.Indexed) and str(s.base.base.label) == "m":
            return str(int(s.base.indices[0]))
        raise core.Untranslatable(f"unexpected energy argument {s!r}")

    def leaf(self, name: str, e) -> tuple:
        prev = self.leaves.get(name)
        if prev is not None and prev != e:
            raise core.Untranslatable(f"leaf {name} stands for two expressions: {prev!r} / {e!r}")
        self.leaves[name] = e
        self.tr.symbols.setdefault(name, sp.Symbol(name))
        return ("sym", name)

    # -- hook
    def extra(self, e, tr):  # noqa: C901, PLR0911
        if isinstance(e, sp.Indexed):
            n = self.indexed_name(e)
            prev = self.indexed.get(n)
            if prev is not None and prev != e:
                raise core.Untranslatable(f"two Indexed map to {n}")
            self.indexed[n] = e
            tr.symbols[n] = e
            return ("sym", n)
        if isinstance(e, sp.Sum) and e in self.known_sums:
            name, params, meaning = self.known_sums[e]
            self.inherited.update({k: v for k, v in meaning.items() if v is not None})
            return ("app", name, [("sym", p) for p in params])
        if isinstance(e, sp.Sum):
            body = e.args[0]
            if len(e.args) != 2:
                raise core.Untranslatable("nested Sum limits")
            var, lo, hi = e.args[1]
            if not (isinstance(lo, sp.Integer) and isinstance(hi, sp.Integer)):
                raise core.Untranslatable(f"Sum with symbolic bounds {e.args[1]!r}")
            terms = [tr.tr(body.xreplace({var: sp.Integer(k)})) for k in range(int(lo), int(hi) + 1)]
            if not terms:
                return ("num", 0, 1)
            return terms[0] if len(terms) == 1 else ("add", terms)
        if isinstance(e, self.EDW):
            if e.phsp_factor not in self.phsp_classes:
                raise core.Untranslatable(f"EnergyDependentWidth uses phase-space factor {e.phsp_factor!r}, not the one passed")
            return tr.tr(e.evaluate())
        if isinstance(e, self.FF):
            s, m1, m2, L, d = e.args
            if self.L is not None and L != self.L:
                raise core.Untranslatable(f"form factor with angular momentum {L!r}, not the one passed")
            if self.d is not None and d != self.d:
                raise core.Untranslatable(f"form factor with meson radius {d!r}, not the one passed")
            i = self._channel(m1, m2)
            pt = self._point(s)
            return self.leaf(f"ff_{i}" if pt == "" else f"ff0_{pt}_{i}", e)
        for cls in self.phsp_classes:
            if type(e) is cls:
                s, m1, m2 = e.args
                i = self._channel(m1, m2)
                pt = self._point(s)
                return self.leaf(f"rho{i}" if pt == "" else f"rhoR_{pt}_{i}", e)
        if hasattr(e, "evaluate") and not isinstance(e, (sp.Symbol,)):
            raise core.Untranslatable(f"unexpected ampform node {type(e).__name__}: {e!r}"[:200])
        return None


def ast_symbols(t, acc=None) -> set:
    acc = set() if acc is None else acc
    if isinstance(t, tuple):
        if t and t[0] == "sym":
            acc.add(t[1])
        for a in t[1:]:
            ast_symbols(a, acc)
    elif isinstance(t, list):
        for a in t:
            ast_symbols(a, acc)
    return acc


def make_def(name, params, real_params, body, doc="") -> core.Definition:
    used = ast_symbols(body)
    missing = used - set(params)
    if missing:
        raise core.Untranslatable(f"{name}: symbols {sorted(missing)} are not parameters of this definition family")
    return core.Definition(name, list(params), body, ty="complex",
                           real_params=[p for p in params if p in set(real_params)], doc=doc)


# ------------------------------------------------------------------ float twin with inline CF

CF_PRELUDE = """
structure CF where
  re : Float
  im : Float
namespace CF
def ofFloat (x : Float) : CF := ⟨x, 0.0⟩
def I : CF := ⟨0.0, 1.0⟩
instance : Add CF := ⟨fun a b => ⟨a.re + b.re, a.im + b.im⟩⟩
instance : Mul CF := ⟨fun a b => ⟨a.re * b.re - a.im * b.im, a.re * b.im + a.im * b.re⟩⟩
def conj (a : CF) : CF := ⟨a.re, -a.im⟩
def abs (a : CF) : Float :=
  let x := Float.abs a.re
  let y := Float.abs a.im
  let big := if x > y then x else y
  let small := if x > y then y else x
  if big == 0.0 then 0.0 else big * Float.sqrt (1.0 + (small / big) * (small / big))
def inv (a : CF) : CF :=
  -- Smith's algorithm (what numpy uses) for 1 / a
  if Float.abs a.re >= Float.abs a.im then
    let r := a.im / a.re
    let d := a.re + a.im * r
    ⟨1.0 / d, (0.0 - r) / d⟩
  else
    let r := a.re / a.im
    let d := a.re * r + a.im
    ⟨r / d, (0.0 - 1.0) / d⟩
def powi (b : CF) (n : Int) : CF :=
  let rec go (k : Nat) (acc : CF) : CF := match k with
    | 0 => acc
    | k + 1 => go k (acc * b)
  if n ≥ 0 then go n.toNat ⟨1.0, 0.0⟩ else inv (go (-n).toNat ⟨1.0, 0.0⟩)
def negSign (x : Float) : Bool := (x.toBits >>> 63) == 1
def sqrt (a : CF) : CF :=
  -- principal branch, honouring the sign of a zero imaginary part (C99 csqrt)
  if a.re == 0.0 && a.im == 0.0 then ⟨0.0, a.im⟩ else
  let t := Float.sqrt ((Float.abs a.re + abs a) / 2.0)
  if a.re >= 0.0 then ⟨t, a.im / (2.0 * t)⟩
  else ⟨Float.abs a.im / (2.0 * t), if negSign a.im then (0.0 - t) else t⟩
def exp (a : CF) : CF := let e := Float.exp a.re; ⟨e * Float.cos a.im, e * Float.sin a.im⟩
def log (a : CF) : CF := ⟨Float.log (abs a), Float.atan2 a.im a.re⟩
def cos (a : CF) : CF := ⟨Float.cos a.re * Float.cosh a.im, 0.0 - Float.sin a.re * Float.sinh a.im⟩
def sin (a : CF) : CF := ⟨Float.sin a.re * Float.cosh a.im, Float.cos a.re * Float.sinh a.im⟩
end CF
"""


class KComplexPrinter(core.ComplexPrinter):
    """ComplexPrinter whose calls of other generated definitions pass real parameters as reals."""

    def p(self, t) -> str:
        if t[0] == "app":
            args = [a[1] if (a[0] == "sym" and a[1] in self.real_vars) else self.p(a) for a in t[2]]
            return "(" + " ".join([t[1], *args]) + ")"
        return super().p(t)


class KCFloatPrinter(core.CFloatPrinter):
    def p(self, t) -> str:
        if t[0] == "app":
            args = [a[1] if (a[0] == "sym" and a[1] in self.real_vars) else self.p(a) for a in t[2]]
            return "(" + " ".join([t[1], *args]) + ")"
        return super().p(t)


def render_gen(namespace: str, defs, header: str, extra_imports=()) -> str:
    """As core.render_gen for complex definitions, with KComplexPrinter."""
    body = []
    for d in defs:
        if d.doc:
            body.append(f"/-- {d.doc} -/")
        rp = [p for p in d.params if p in d.real_params]
        sig = " ".join(f"({p} : ℝ)" if p in rp else f"({p} : ℂ)" for p in d.params)
        body.append(f"noncomputable def {d.name} {sig} : ℂ :=\n  {KComplexPrinter(rp).p(d.body)}")
        body.append("")
    body_text = "\n".join(body)
    imports = core._needed_imports(body_text) | set(extra_imports)  # noqa: SLF001
    out = [f"-- GENERATED by /verif/tools/translate — do not edit. {header}"]
    out += [f"import {i}" for i in sorted(imports)]
    out += ["set_option linter.all false", f"namespace {namespace}", "", body_text, f"end {namespace}"]
    return "\n".join(out) + "\n"


def render_float_inline(namespace: str, defs, header: str) -> str:
    """Executable twin (complex definitions only) with the complex-pair model inlined, and the
    same line-protocol `main` as core.render_float."""
    out = [f"-- GENERATED by /verif/tools/translate — do not edit. {header}",
           "set_option linter.unusedVariables false", f"namespace {namespace}",
           core.FLOAT_PRELUDE, CF_PRELUDE]
    for d in defs:
        rp = [p for p in d.params if p in d.real_params]
        sig = " ".join(f"({p} : Float)" if p in rp else f"({p} : CF)" for p in d.params)
        out.append(f"def {d.name} {sig} : CF :=\n  {KCFloatPrinter(rp).p(d.body)}")
        out.append("")
    out.append("def dispatch (name : String) (a : Array Float) : Option (Array Float) :=")
    out.append("  match name with")
    for d in defs:
        args = []
        i = 0
        for p in d.params:
            if p not in d.real_params:
                args.append(f"⟨a[{i}]!, a[{i + 1}]!⟩")
                i += 2
            else:
                args.append(f"a[{i}]!")
                i += 1
        call = " ".join([d.name, *args])
        out.append(f'  | "{d.name}" => if a.size = {i} then (let r := {call}; some #[r.re, r.im]) else none')
    out.append("  | _ => none")
    out.append(f"end {namespace}")
    out.append(core._MAIN.replace("NS", namespace))  # noqa: SLF001
    return "\n".join(out) + "\n"


def natural_key(name: str):
    return [int(t) if t.isdigit() else t for t in re.split(r"(\d+)", name)]
