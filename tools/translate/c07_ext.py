"""Translator extension for C07: per-event reading of the array classes that occur in the
unfolding of `InvariantMass`, `Energy`, `EuclideanNorm(ThreeMomentum(..))`, `Phi`, `Theta`
(DESIGN Appendix B): `ArraySymbol p_i` is the four-vector (E_i, x_i, y_i, z_i), `ArraySum` is vector
addition, `ArraySlice(p, (:, k))` is component k, `ArrayAxisSum(ArraySlice(p, (:, 1:))**2, axis=1)`
is the sum of the squares of the spatial components. Anything else aborts the translation."""

from __future__ import annotations

import sympy as sp

from tools.translate import core

COMP = ("E", "x", "y", "z")


class ArrayReader:
    def __init__(self):
        from ampform.sympy import _array_expressions as ae

        self.ae = ae

    def vec(self, e, tr) -> list[tuple]:
        ae = self.ae
        if type(e) is ae.ArraySymbol:
            name = str(e.name)
            if not (name.startswith("p") and name[1:].isdigit()):
                raise core.Untranslatable(f"array symbol {name!r}")
            i = name[1:]
            return [tr.sym(sp.Symbol(f"{c}{i}", real=True)) for c in COMP]
        if type(e) is ae.ArraySum:
            parts = [self.vec(a, tr) for a in e.args]
            if len(parts) == 1:
                return parts[0]
            return [("add", [p[k] for p in parts]) for k in range(4)]
        raise core.Untranslatable(f"four-vector node {type(e).__name__}")

    @staticmethod
    def _is_full_slice(idx) -> bool:
        return (isinstance(idx, sp.Tuple) and len(idx) == 3 and idx[0] == 0
                and type(idx[1]).__name__ == "NoneToken" and type(idx[2]).__name__ in ("NoneToken", "One"))

    @staticmethod
    def _is_spatial_slice(idx) -> bool:
        return (isinstance(idx, sp.Tuple) and len(idx) == 3 and idx[0] == 1
                and type(idx[1]).__name__ == "NoneToken" and type(idx[2]).__name__ in ("NoneToken", "One"))

    def __call__(self, e, tr):
        ae = self.ae
        if type(e) is ae.ArraySlice:
            idx = e.indices
            if len(idx) == 2 and self._is_full_slice(idx[0]) and isinstance(idx[1], sp.Integer) and 0 <= int(idx[1]) <= 3:
                return self.vec(e.parent, tr)[int(idx[1])]
            raise core.Untranslatable(f"ArraySlice with indices {idx!r}")
        if type(e) is ae.ArrayAxisSum:
            arr, axis = e.args
            if axis != 1:
                raise core.Untranslatable(f"ArrayAxisSum over axis {axis!r}")
            if not (isinstance(arr, sp.Pow) and arr.args[1] == 2 and type(arr.args[0]) is ae.ArraySlice):
                raise core.Untranslatable(f"ArrayAxisSum of {str(arr)[:80]}")
            sl = arr.args[0]
            idx = sl.indices
            if not (len(idx) == 2 and self._is_full_slice(idx[0]) and self._is_spatial_slice(idx[1])):
                raise core.Untranslatable(f"ArrayAxisSum of a slice with indices {idx!r}")
            v = self.vec(sl.parent, tr)
            return ("add", [("pow", v[k], 2, 1) for k in (1, 2, 3)])
        if type(e) in (ae.ArraySymbol, ae.ArraySum):
            raise core.Untranslatable("a four-vector where a scalar is expected")
        return None


def split_complex_sqrt(expr, tr):
    """`ComplexSqrt(x)` through `get_definition()`: Piecewise((I*sqrt(-x), x < 0), (sqrt(x), True)).
    Returns (re_ast, im_ast, arg_ast): the real and imaginary part as real `ite` terms. A branch
    value `I*v` contributes (0, v), any other value `v` contributes (v, 0) (its branch condition
    makes it real); anything that is not such a two-branch Piecewise aborts."""
    from ampform.sympy.math import ComplexSqrt

    if type(expr) is not ComplexSqrt:
        raise core.Untranslatable(f"expected ComplexSqrt, got {type(expr).__name__}")
    definition = expr.get_definition()
    if not isinstance(definition, sp.Piecewise):
        raise core.Untranslatable("ComplexSqrt.get_definition() is not a Piecewise")
    re_br, im_br = [], []
    re_else = im_else = None
    zero = ("num", 0, 1)
    for val, cond in definition.args:
        coeff = val.as_coefficient(sp.I)
        re_v, im_v = (zero, tr(coeff)) if coeff is not None else (tr(val), zero)
        if cond is sp.true or cond == True:  # noqa: E712
            re_else, im_else = re_v, im_v
            break
        c = tr.cond(cond)
        re_br.append((c, re_v))
        im_br.append((c, im_v))
    if re_else is None:
        raise core.Untranslatable("ComplexSqrt definition without a default branch")
    return ("ite", re_br, re_else), ("ite", im_br, im_else), tr(expr.args[0])
