"""Translator extension for C07: per-event reading of the array classes that occur in the
unfolding of `InvariantMass`, `Energy`, `EuclideanNorm(ThreeMomentum(..))`, `Phi`, `Theta`
(DESIGN Appendix B): `ArraySymbol p_i` is the four-vector (E_i, x_i, y_i, z_i), `ArraySum` is vector
addition, `ArraySlice(p, (:, k))` is component k, `ArrayAxisSum(ArraySlice(p, (:, 1:))**2, axis=1)`
is the sum of the squares of the spatial components. Anything else aborts the translation."""

from __future__ import annotations

import sympy as sp

from tools.translate import core

COMP = ("E", "x", "y", "z")


class ArrayReader:
    def __init__(self):
        from ampform.sympy import _array_expressions as ae

        self.ae = ae

    def vec(self, e, tr) -> list[tuple]:
        ae = self.ae
        if type(e) is ae.ArraySymbol:
            name = str(e.name)
            if not (name.startswith("p") and name[1:].isdigit()):
                raise core.Untranslatable(f"array symbol {name!r}")
            i = name[1:]
            return [tr.sym(sp.Symbol(f"{c}{i}", real=True)) for c in COMP]
        if type(e) is ae.ArraySum:
            parts = [self.vec(a, tr) for a in e.args]
            if len(parts) == 1:
                return parts[0]
            return [("add", [p[k] for p in parts]) for k in range(4)]
        raise core.Untranslatable(f"four-vector node {type(e).__name__}")

    @staticmethod
    def _is_full_slice(idx) -> bool:
        return (isinstance(idx, sp.Tuple) and len(idx) == 3 and idx[0] == 0
                and type(idx[1]).__name__ == "NoneToken" and type(idx[2]).__name__ in ("NoneToken", "One"))

    @staticmethod
    def _is_spatial_slice(idx) -> bool:
        return (isinstance(idx, sp.Tuple) and len(idx) == 3 and idx[0] == 1
                and type(idx[1]).__name__ == "NoneToken" and type(idx[2]).__name__ in ("NoneToken", "One"))

    def __call__(self, e, tr):
        ae = self.ae
        if type(e) is ae.ArraySlice:
            idx = e.indices
            if len(idx) == 2 and self._is_full_slice(idx[0]) and isinstance(idx[1], sp.Integer) and 0 <= int(idx[1]) <= 3:
                return self.vec(e.parent, tr)[int(idx[1])]
            raise core.Untranslatable(f"ArraySlice with indices {idx!r}")
        if type(e) is ae.ArrayAxisSum:
            arr, axis = e.args
            if axis != 1:
                raise core.Untranslatable(f"ArrayAxisSum over axis {axis!r}")
            if not (isinstance(arr, sp.Pow) and arr.args[1] == 2 and type(arr.args[0]) is ae.ArraySlice):
                raise core.Untranslatable(f"ArrayAxisSum of {str(arr)[:80]}")
            sl = arr.args[0]
            idx = sl.indices
            if not (len(idx) == 2 and self._is_full_slice(idx[0]) and self._is_spatial_slice(idx[1])):
                raise core.Untranslatable(f"ArrayAxisSum of a slice with indices {idx!r}")
            v = self.vec(sl.parent, tr)
            return ("add", [("pow", v[k], 2, 1) for k in (1, 2, 3)])
        if type(e) in (ae.ArraySymbol, ae.ArraySum):
            raise core.Untranslatable("a four-vector where a scalar is expected")
        return None


def split_complex_sqrt(expr, tr):
    """`ComplexSqrt(x)` through `get_definition()`: Piecewise((I*sqrt(-x), x < 0), (sqrt(x), True)).
    Returns (re_ast, im_ast, arg_ast): the real and imaginary part as real `ite` terms. A branch
    value `I*v` contributes (0, v), any other value `v` contributes (v, 0) (its branch condition
    makes it real); anything that is not such a two-branch Piecewise aborts."""
    from ampform.sympy.math import ComplexSqrt

    if type(expr) is not ComplexSqrt:
        raise core.Untranslatable(f"expected ComplexSqrt, got {type(expr).__name__}")
    definition = expr.get_definition()
    if not isinstance(definition, sp.Piecewise):
        raise core.Untranslatable("ComplexSqrt.get_definition() is not a Piecewise")
    re_br, im_br = [], []
    re_else = im_else = None
    zero = ("num", 0, 1)
    for val, cond in definition.args:
        coeff = val.as_coefficient(sp.I)
        re_v, im_v = (zero, tr(coeff)) if coeff is not None else (tr(val), zero)
        if cond is sp.true or cond == True:  # noqa: E712
            re_else, im_else = re_v, im_v
            break
        c = tr.cond(cond)
        re_br.append((c, re_v))
        im_br.append((c, im_v))
    if re_else is None:
        raise core.Untranslatable("ComplexSqrt definition without a default branch")
    return ("ite", re_br, re_else), ("ite", im_br, im_else), tr(expr.args[0])


# --------------------------------------------------------------------------- the helicity-frame chain


class ChainReader(ArrayReader):
    """`ArrayReader` that also reads `ArrayMultiplication(BoostZMatrix, RotationYMatrix,
    RotationZMatrix, p)` per event, as a chain of matrix-vector products of the library's own
    explicit matrices, every non-trivial matrix entry and every intermediate vector being a named
    generated definition (so that theorems can talk about them one at a time)."""

    def __init__(self, params):
        super().__init__()
        self.params = list(params)
        self.registered: dict = {}

    def vec(self, e, tr):
        if e in self.registered:
            return [("app", n, [("sym", p) for p in self.params]) for n in self.registered[e]]
        return super().vec(e, tr)

    def __call__(self, e, tr):
        ae = self.ae
        from ampform.kinematics import lorentz as lz

        if type(e) is ae.ArrayAxisSum:
            arr, axis = e.args
            if axis == 1 and isinstance(arr, sp.Pow) and arr.args[1] == 2 and type(arr.args[0]) is lz.ThreeMomentum:
                v = self.vec(arr.args[0].args[0], tr)
                return ("add", [("pow", v[k], 2, 1) for k in (1, 2, 3)])
        return super().__call__(e, tr)


def chain_definitions(theta_expr, phi_expr, params, prefix="hel"):
    """Definitions for one real kinematic-variable pair `Theta/Phi(ArrayMultiplication(BoostZMatrix(β),
    RotationYMatrix(−Θ), RotationZMatrix(−Φ), p))`:

      rzCos rzSin ryCos rySin frGamma frGammaBeta     the non-trivial matrix entries
      rzE..rzZ, ryE..ryZ, helE..helZ                    the vector after each matrix
      helCosArg, helTheta, helPhi                       acos argument, Theta(...), Phi(...) unfolded

    plus facts about the layout of the three matrices. Everything that does not have exactly the
    expected shape aborts (`Untranslatable`)."""
    from ampform.kinematics import angles as ang
    from ampform.kinematics import lorentz as lz
    from ampform.sympy import _array_expressions as ae
    from ampform.sympy.math import ComplexSqrt

    if type(theta_expr) is not ang.Theta or type(phi_expr) is not ang.Phi or theta_expr.args[0] != phi_expr.args[0]:
        raise core.Untranslatable("expected Theta(m), Phi(m) of one boosted momentum")
    am = theta_expr.args[0]
    if type(am) is not ae.ArrayMultiplication or len(am.args) != 4:
        raise core.Untranslatable("expected ArrayMultiplication(Bz, Ry, Rz, p)")
    bz, ry, rz, p = am.args
    if type(bz) is not lz.BoostZMatrix or type(ry) is not lz.RotationYMatrix or type(rz) is not lz.RotationZMatrix:
        raise core.Untranslatable("expected BoostZMatrix·RotationYMatrix·RotationZMatrix")
    reader = ChainReader(params)
    tr = core.Translator(extra=reader, unfold_unknown=True)
    RZ, RY = rz.as_explicit(), ry.as_explicit()
    impl = bz.evaluate()
    if type(impl) is not lz._BoostZMatrixImplementation or len(impl.args) != 5:  # noqa: SLF001
        raise core.Untranslatable("BoostZMatrix.evaluate() has an unexpected shape")
    gamma, gamma_beta = impl.args[1], impl.args[2]
    BZ = sp.Matrix([[gamma, 0, 0, -gamma_beta], [0, 1, 0, 0], [0, 0, 1, 0], [-gamma_beta, 0, 0, gamma]])
    explicit = bz.as_explicit().replace(lambda x: type(x) is ComplexSqrt, lambda x: sp.sqrt(x.args[0]))
    facts = {
        "BoostZ_layout_matches_as_explicit": bool(explicit == BZ),
        "RotationY_layout": bool(RY == sp.Matrix([[1, 0, 0, 0], [0, RY[1, 1], 0, RY[1, 3]], [0, 0, 1, 0], [0, -RY[1, 3], 0, RY[1, 1]]])),
        "RotationZ_layout": bool(RZ == sp.Matrix([[1, 0, 0, 0], [0, RZ[1, 1], -RZ[2, 1], 0], [0, RZ[2, 1], RZ[1, 1], 0], [0, 0, 0, 1]])),
    }
    named = {"rzCos": RZ[1, 1], "rzSin": RZ[2, 1], "ryCos": RY[1, 1], "rySin": RY[1, 3],
             "frGamma": gamma, "frGammaBeta": gamma_beta}
    docs = {"rzCos": "RotationZMatrix(-Phi(frame)).as_explicit()[1,1]", "rzSin": "RotationZMatrix(-Phi(frame)).as_explicit()[2,1]",
            "ryCos": "RotationYMatrix(-Theta(frame)).as_explicit()[1,1]", "rySin": "RotationYMatrix(-Theta(frame)).as_explicit()[1,3]",
            "frGamma": "gamma of BoostZMatrix(|p|/E of the frame).evaluate()", "frGammaBeta": "gamma*beta of BoostZMatrix(...).evaluate()"}
    defs = [core.Definition(k, params, tr(v.doit()), doc=docs[k]) for k, v in named.items()]
    sym_args = [("sym", q) for q in params]

    def entry(x):
        if x == 0:
            return None
        if x == 1:
            return ("num", 1, 1)
        for k, v in named.items():
            if x == v:
                return ("app", k, sym_args)
            if x == -v:
                return ("mul", [("num", -1, 1), ("app", k, sym_args)])
        raise core.Untranslatable(f"matrix entry {x!r} is none of the named entries")

    def matvec(M, v):
        out = []
        for r in range(4):
            terms = []
            for c in range(4):
                e = entry(M[r, c])
                if e is None:
                    continue
                terms.append(v[c] if e == ("num", 1, 1) else ("mul", [e, v[c]]))
            out.append(terms[0] if len(terms) == 1 else ("add", terms))
        return out

    vec = reader.vec(p, tr)
    comp = ("E", "X", "Y", "Z")
    for stage, M, doc in (("rz", RZ, "after RotationZMatrix(-Phi(frame))"), ("ry", RY, "… then RotationYMatrix(-Theta(frame))"),
                          (prefix, BZ, "… then BoostZMatrix(beta(frame)): the momentum in the helicity frame")):
        new = matvec(M, vec)
        names = [stage + c for c in comp]
        defs += [core.Definition(n, params, t, doc=f"component {c} {doc}") for n, t, c in zip(names, new, comp)]
        vec = [("app", n, sym_args) for n in names]
    reader.registered[am] = [prefix + c for c in comp]
    th = tr(theta_expr.evaluate())
    if th[0] != "call" or th[1] != "acos":
        raise core.Untranslatable("Theta does not unfold to acos(...)")
    defs.append(core.Definition(prefix + "CosArg", params, th[2][0], doc="the argument of acos in Theta(boosted momentum)"))
    defs.append(core.Definition(prefix + "Theta", params, ("call", "acos", [("app", prefix + "CosArg", sym_args)]),
                                doc="Theta(BoostZ·RotY·RotZ·p) unfolded: the real kinematic variable"))
    defs.append(core.Definition(prefix + "Phi", params, tr(phi_expr.evaluate()), doc="Phi(BoostZ·RotY·RotZ·p) unfolded"))
    return defs, facts
