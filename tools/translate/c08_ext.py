"""C08 translator extension (property-local; candidates for a merge into core are marked MERGE).

Two front ends produce the SAME core AST (tools/translate/core.py):

* `ExplicitTranslator` — the SymPy trees returned by the library's own `as_explicit()` /
  `evaluate()`, read PER EVENT: `ArraySlice(p,(:,k))` is component k of the four-momentum,
  `ArrayAxisSum(v**2, axis=1)` the sum of squares, `ArrayMultiplication(M.., v)` the
  matrix-vector product of the explicit matrices (DESIGN Appendix B);
* `NumpyCode` — the source text that `sympy.lambdify` generates from the library's
  `_numpycode` printers, parsed with Python's `ast` and interpreted symbolically per event
  (`array([[..]]).transpose((2,0,1))`, `einsum("..")`, `sum(.., axis=1)`, `len`, `ones`,
  `zeros`, slices, arithmetic, cse temporaries inlined). Any other name is rejected.

On top of that `lift_radicands` names every square-root radicand of a family of entries as
its own definition (`<family>_rad`), so that theorems can talk about it without depending on
how the source happens to spell it.
"""

from __future__ import annotations

import ast as pyast
from fractions import Fraction

import sympy as sp

from tools.translate import core
from tools.translate.core import Untranslatable

MOMENTUM_COMPONENTS = ("E", "px", "py", "pz")


# ----------------------------------------------------------------------------- AST helpers


def num(n) -> tuple:
    fr = Fraction(n)
    return ("num", fr.numerator, fr.denominator)


def add(ts):
    ts = list(ts)
    return ts[0] if len(ts) == 1 else ("add", ts)


def mul(ts):
    ts = list(ts)
    return ts[0] if len(ts) == 1 else ("mul", ts)


def key_of(t) -> str:
    return repr(t)


# ----------------------------------------------------------------------------- explicit side


class ExplicitTranslator:
    """SymPy tree (after the library's own unfolding) -> core AST, per event.

    `momenta` maps the name of an ArraySymbol to its four component names."""

    def __init__(self, momenta: dict[str, tuple[str, str, str, str]] | None = None,
                 vec_prefix: str | None = None, params: list[str] | None = None):
        self.momenta = momenta or {"p": MOMENTUM_COMPONENTS}
        self.guards: list[str] = []
        self.tr = core.Translator(extra=self._extra)
        # with `vec_prefix`, every matrix-times-vector result (ArrayMultiplication) becomes four named
        # definitions `<prefix>_v<k>_<i>` (k = order of first appearance); see `Family(vecs=...)`
        self.vec_prefix = vec_prefix
        self.params = list(params or [])
        self.vec_defs: list[tuple[str, tuple]] = []
        self._vec_seen: dict = {}

    # scalar -----------------------------------------------------------------
    def scalar(self, e) -> tuple:
        return self.tr(e)

    def _extra(self, e, tr):  # noqa: C901, PLR0911
        from ampform.kinematics import lorentz as lz
        from ampform.sympy._array_expressions import ArrayAxisSum, ArraySlice
        from ampform.sympy.math import ComplexSqrt

        if isinstance(e, ArraySlice):
            idx = self._slice_second_index(e)
            if not isinstance(idx, int):
                raise Untranslatable(f"vector-valued slice used as a scalar: {e}")
            v = self.vector(e.parent)
            if not 0 <= idx < len(v):
                raise Untranslatable(f"slice index out of range: {e}")
            return v[idx]
        if isinstance(e, ArrayAxisSum):
            if e.axis != 1:
                raise Untranslatable(f"ArrayAxisSum over axis {e.axis}")
            return add(self.vector(e.array))
        if isinstance(e, ComplexSqrt):
            # real branch of ComplexSqrt (x >= 0); the guard is recorded and must be implied by the
            # hypotheses of every theorem that uses the definition (DESIGN Appendix B).
            self.guards.append(f"ComplexSqrt({e.args[0]}) read on its real branch (argument >= 0)")
            return ("pow", tr.tr(e.args[0]), 1, 2)
        scalar_classes = (lz.Energy, lz.FourMomentumX, lz.FourMomentumY, lz.FourMomentumZ,
                          lz.EuclideanNormSquared, lz.EuclideanNorm, lz.InvariantMass)
        if isinstance(e, scalar_classes):
            return tr.tr(e.evaluate())
        return None

    @staticmethod
    def _slice_second_index(e):
        """ArraySlice(parent, (:, k)) -> k (int) or (start, stop) for `k:`; anything else rejected."""
        idx = e.args[1]
        if len(idx) != 2:  # noqa: PLR2004
            raise Untranslatable(f"slice with {len(idx)} indices: {e}")
        first, second = idx
        none = {type(None)}
        def is_none(x):
            return x is None or type(x).__name__ == "NoneToken" or type(x) in none
        if not (isinstance(first, sp.Tuple) and first[0] == 0 and is_none(first[1]) and is_none(first[2])):
            raise Untranslatable(f"first slice index is not ':' in {e}")
        if isinstance(second, (int, sp.Integer)):
            return int(second)
        if isinstance(second, sp.Tuple) and is_none(second[1]) and (is_none(second[2]) or second[2] == 1):
            return (int(second[0]), None)
        raise Untranslatable(f"unsupported slice {e}")

    # vector -----------------------------------------------------------------
    def vector(self, e) -> list:  # noqa: C901, PLR0911
        from sympy.tensor.array.expressions.array_expressions import ArraySymbol

        from ampform.kinematics import lorentz as lz
        from ampform.sympy._array_expressions import ArrayMultiplication, ArraySlice, ArraySum

        if isinstance(e, ArraySymbol):
            name = e.name if isinstance(e.name, str) else str(e.name)
            if name not in self.momenta:
                raise Untranslatable(f"unknown array symbol {name}")
            return [self.tr.sym(sp.Symbol(c, real=True)) for c in self.momenta[name]]
        if isinstance(e, ArraySum):
            vs = [self.vector(t) for t in e.terms]
            return [add(c) for c in zip(*vs)]
        if isinstance(e, ArrayMultiplication):
            if self.vec_prefix is not None and e in self._vec_seen:
                return list(self._vec_seen[e])
            *ms, v = e.args
            out = self.vector(v)
            for m in reversed(ms):
                mm = self.matrix(m)
                out = [add([mul([mm[i][j], out[j]]) for j in range(len(out))]) for i in range(len(mm))]
            if self.vec_prefix is not None:
                out = name_vector(self.vec_prefix, self.params, self.vec_defs, out)
                self._vec_seen[e] = list(out)
            return out
        if isinstance(e, ArraySlice):
            idx = self._slice_second_index(e)
            v = self.vector(e.parent)
            if isinstance(idx, int):
                raise Untranslatable(f"scalar slice used as a vector: {e}")
            return v[idx[0]:]
        if isinstance(e, sp.Pow) and isinstance(e.exp, sp.Integer):
            return [("pow", c, int(e.exp), 1) for c in self.vector(e.base)]
        if isinstance(e, (lz.ThreeMomentum, lz.NegativeMomentum)):
            return self.vector(e.evaluate())
        raise Untranslatable(f"vector expression {type(e).__name__}: {e}"[:200])

    # matrix -----------------------------------------------------------------
    def matrix(self, e) -> list:
        from ampform.sympy._array_expressions import MatrixMultiplication

        if isinstance(e, MatrixMultiplication):
            ms = [self.matrix(m) for m in e.args]
            out = ms[0]
            for m in ms[1:]:
                out = [[add([mul([out[i][k], m[k][j]]) for k in range(len(m))]) for j in range(len(m[0]))]
                       for i in range(len(out))]
            return out
        if not hasattr(e, "as_explicit"):
            raise Untranslatable(f"matrix expression without as_explicit: {type(e).__name__}")
        m = e.as_explicit()
        if m.shape != (4, 4):
            raise Untranslatable(f"explicit matrix of shape {m.shape}")
        return [[self.scalar(m[i, j]) for j in range(4)] for i in range(4)]


# ----------------------------------------------------------------------------- numpy-code side


class Sc:  # per-event scalar (numpy: array of shape (n,))
    def __init__(self, t):
        self.t = t


class Const:  # python/numpy scalar without a batch axis
    def __init__(self, t):
        self.t = t


class Vec:  # per-event vector (numpy: shape (n, k))
    def __init__(self, ts):
        self.ts = list(ts)


class Mat:  # per-event matrix (numpy: shape (n, r, c))
    def __init__(self, rows):
        self.rows = [list(r) for r in rows]


class Stack:  # numpy: array([[..]]) of per-event scalars, shape (r, c, n) — only transposable
    def __init__(self, rows):
        self.rows = rows


class Len:  # len(batch array) — the number of events
    pass


NUMPY_FUNCS = {"sqrt": None, "cos": "cos", "sin": "sin"}


class NumpyCode:
    """Symbolic per-event interpreter of a lambdify-generated function.

    `arg_kinds`: parameter name -> ("vec", [component names]) | ("scalar", leanName).
    `result` is a Sc, Vec or Mat. `einsum_subscripts` lists the subscripts strings met."""

    def __init__(self, source: str, arg_kinds: dict, vec_prefix: str | None = None,
                 params: list[str] | None = None):
        self.source = source
        self.arg_kinds = arg_kinds
        # with `vec_prefix`, every VECTOR returned by an einsum call becomes four named definitions
        # `<prefix>_v<k>_<i>` (k = order of first evaluation; equal results share a name)
        self.vec_prefix = vec_prefix
        self.params = list(params or [])
        self.vec_defs: list[tuple[str, tuple]] = []
        self._vec_seen: dict = {}
        self.einsum_subscripts: list[str] = []
        self.n_temporaries = 0
        tree = pyast.parse(source)
        fns = [n for n in tree.body if isinstance(n, pyast.FunctionDef)]
        if len(fns) != 1 or len(tree.body) != 1:
            raise Untranslatable("generated code is not a single function")
        fn = fns[0]
        env = {}
        names = [a.arg for a in fn.args.args]
        if fn.args.vararg or fn.args.kwarg or fn.args.kwonlyargs or fn.args.defaults:
            raise Untranslatable("unexpected signature of the generated function")
        for n in names:
            if n not in arg_kinds:
                raise Untranslatable(f"unexpected parameter {n}")
            kind, what = arg_kinds[n]
            if kind == "vec":
                env[n] = Vec([("sym", c) for c in what])
            else:
                env[n] = Sc(("sym", what))
        self.param_names = names
        result = None
        for st in fn.body:
            if isinstance(st, pyast.Assign):
                if len(st.targets) != 1 or not isinstance(st.targets[0], pyast.Name):
                    raise Untranslatable("unsupported assignment in generated code")
                env[st.targets[0].id] = self.ev(st.value, env)
                self.n_temporaries += 1
            elif isinstance(st, pyast.Return):
                result = self.ev(st.value, env)
                break
            else:
                raise Untranslatable(f"statement {type(st).__name__} in generated code")
        if result is None:
            raise Untranslatable("generated function returns nothing")
        if isinstance(result, Const):
            raise Untranslatable("generated function returns a constant without batch axis")
        if not isinstance(result, (Sc, Vec, Mat)):
            raise Untranslatable(f"generated function returns {type(result).__name__}")
        self.result = result

    # ---- evaluation
    def ev(self, n, env):  # noqa: C901, PLR0911, PLR0912
        if isinstance(n, pyast.Constant):
            if isinstance(n.value, bool) or not isinstance(n.value, (int, float)):
                raise Untranslatable(f"constant {n.value!r} in generated code")
            return Const(num(Fraction(n.value) if isinstance(n.value, int) else Fraction(repr(n.value))))
        if isinstance(n, pyast.Name):
            if n.id in env:
                return env[n.id]
            raise Untranslatable(f"name {n.id} in generated code is neither a parameter nor a temporary")
        if isinstance(n, pyast.UnaryOp):
            if isinstance(n.op, pyast.USub):
                return self.map1(lambda t: mul([num(-1), t]), self.ev(n.operand, env))
            if isinstance(n.op, pyast.UAdd):
                return self.ev(n.operand, env)
            raise Untranslatable("unary operator in generated code")
        if isinstance(n, pyast.BinOp):
            return self.binop(n, env)
        if isinstance(n, pyast.Subscript):
            return self.subscript(n, env)
        if isinstance(n, pyast.Call):
            return self.call(n, env)
        raise Untranslatable(f"{type(n).__name__} in generated code")

    @staticmethod
    def map1(f, v):
        if isinstance(v, Sc):
            return Sc(f(v.t))
        if isinstance(v, Const):
            return Const(f(v.t))
        if isinstance(v, Vec):
            return Vec([f(t) for t in v.ts])
        if isinstance(v, Mat):
            return Mat([[f(t) for t in r] for r in v.rows])
        raise Untranslatable(f"arithmetic on {type(v).__name__}")

    def binop(self, n, env):  # noqa: C901
        if isinstance(n.op, pyast.Pow):
            base = self.ev(n.left, env)
            ex = self.const_fraction(n.right)
            if ex is None or ex.denominator not in (1, 2):
                raise Untranslatable("power with a non-constant or non-half-integer exponent in generated code")
            k, q = ex.numerator, ex.denominator
            return self.map1(lambda t: ("pow", t, k, q), base)
        a, b = self.ev(n.left, env), self.ev(n.right, env)
        if isinstance(n.op, pyast.Add):
            f = lambda x, y: add([x, y])  # noqa: E731
        elif isinstance(n.op, pyast.Sub):
            f = lambda x, y: add([x, mul([num(-1), y])])  # noqa: E731
        elif isinstance(n.op, pyast.Mult):
            f = lambda x, y: mul([x, y])  # noqa: E731
        elif isinstance(n.op, pyast.Div):
            f = lambda x, y: mul([x, ("pow", y, -1, 1)])  # noqa: E731
        else:
            raise Untranslatable(f"operator {type(n.op).__name__} in generated code")
        return self.broadcast(f, a, b)

    @classmethod
    def const_fraction(cls, n):
        """value of an exponent expression built from numeric literals only (else None)"""
        if isinstance(n, pyast.Constant) and not isinstance(n.value, bool) and isinstance(n.value, (int, float)):
            return Fraction(n.value) if isinstance(n.value, int) else Fraction(repr(n.value))
        if isinstance(n, pyast.UnaryOp) and isinstance(n.op, (pyast.USub, pyast.UAdd)):
            v = cls.const_fraction(n.operand)
            return None if v is None else (-v if isinstance(n.op, pyast.USub) else v)
        if isinstance(n, pyast.BinOp) and isinstance(n.op, (pyast.Div, pyast.Mult, pyast.Add, pyast.Sub)):
            a, b = cls.const_fraction(n.left), cls.const_fraction(n.right)
            if a is None or b is None:
                return None
            if isinstance(n.op, pyast.Div):
                return None if b == 0 else a / b
            return a * b if isinstance(n.op, pyast.Mult) else (a + b if isinstance(n.op, pyast.Add) else a - b)
        return None

    @staticmethod
    def broadcast(f, a, b):  # noqa: PLR0911
        """numpy broadcasting restricted to the shapes that mean 'per event' unambiguously."""
        if isinstance(a, Const) and isinstance(b, Const):
            return Const(f(a.t, b.t))
        if isinstance(a, (Sc, Const)) and isinstance(b, (Sc, Const)):
            return Sc(f(a.t, b.t))
        if isinstance(a, Vec) and isinstance(b, Const):
            return Vec([f(t, b.t) for t in a.ts])
        if isinstance(a, Const) and isinstance(b, Vec):
            return Vec([f(a.t, t) for t in b.ts])
        if isinstance(a, Vec) and isinstance(b, Vec) and len(a.ts) == len(b.ts):
            return Vec([f(x, y) for x, y in zip(a.ts, b.ts)])
        # (n,k) with (n,) would broadcast along the wrong axis in numpy: not a per-event operation
        raise Untranslatable(f"broadcast of {type(a).__name__} with {type(b).__name__} in generated code")

    def subscript(self, n, env):
        v = self.ev(n.value, env)
        sl = n.slice
        if not (isinstance(sl, pyast.Tuple) and len(sl.elts) == 2):  # noqa: PLR2004
            raise Untranslatable("subscript that is not [:, k]")
        first, second = sl.elts
        if not (isinstance(first, pyast.Slice) and first.lower is None and first.upper is None and first.step is None):
            raise Untranslatable("first subscript index is not ':'")
        if not isinstance(v, Vec):
            raise Untranslatable(f"subscript of {type(v).__name__}")
        if isinstance(second, pyast.Constant) and isinstance(second.value, int):
            if not 0 <= second.value < len(v.ts):
                raise Untranslatable("subscript index out of range")
            return Sc(v.ts[second.value])
        if isinstance(second, pyast.Slice) and second.upper is None and second.step is None and \
                isinstance(second.lower, pyast.Constant) and isinstance(second.lower.value, int) and \
                0 <= second.lower.value < len(v.ts):
            return Vec(v.ts[second.lower.value:])
        raise Untranslatable("unsupported subscript in generated code")

    def call(self, n, env):  # noqa: C901, PLR0911, PLR0912
        # array([[...]]).transpose((2, 0, 1))
        if isinstance(n.func, pyast.Attribute):
            if n.func.attr != "transpose" or n.keywords or len(n.args) != 1:
                raise Untranslatable(f"method {n.func.attr} in generated code")
            try:
                axes = pyast.literal_eval(n.args[0])
            except Exception as e:  # noqa: BLE001
                raise Untranslatable("transpose axes are not a literal") from e
            inner = self.ev(n.func.value, env)
            if not isinstance(inner, Stack) or tuple(axes) not in ((2, 0, 1), (2, 1, 0)):
                raise Untranslatable(f"transpose{axes} of {type(inner).__name__}")
            if tuple(axes) == (2, 1, 0):  # events first, then the TRANSPOSED matrix of each event
                return Mat([list(r) for r in zip(*inner.rows)])
            return Mat(inner.rows)
        if not isinstance(n.func, pyast.Name):
            raise Untranslatable("call of a non-name in generated code")
        f = n.func.id
        if f in env:
            raise Untranslatable(f"call of a temporary {f}")
        kw = {k.arg: k.value for k in n.keywords}
        if f == "array":
            if kw or len(n.args) != 1 or not isinstance(n.args[0], pyast.List):
                raise Untranslatable("array(..) with unexpected arguments")
            rows = []
            for r in n.args[0].elts:
                if not isinstance(r, pyast.List):
                    raise Untranslatable("array(..) is not a list of lists")
                row = []
                for c in r.elts:
                    v = self.ev(c, env)
                    if not isinstance(v, Sc):
                        raise Untranslatable(
                            f"array(..) entry is a {type(v).__name__}, not a per-event array (ragged stack)")
                    row.append(v.t)
                rows.append(row)
            if not rows or any(len(r) != len(rows[0]) for r in rows):
                raise Untranslatable("ragged array(..)")
            return Stack(rows)
        if f == "len":
            if kw or len(n.args) != 1:
                raise Untranslatable("len with unexpected arguments")
            v = self.ev(n.args[0], env)
            if not isinstance(v, (Sc, Vec, Mat)):
                raise Untranslatable("len of something without a batch axis")
            return Len()
        if f in ("ones", "zeros"):
            if kw or len(n.args) != 1 or not isinstance(self.ev(n.args[0], env), Len):
                raise Untranslatable(f"{f}(..) whose shape is not the number of events")
            return Sc(num(1 if f == "ones" else 0))
        if f == "sum":
            if set(kw) != {"axis"} or len(n.args) != 1:
                raise Untranslatable("sum(..) without axis=")
            ax = kw["axis"]
            if not (isinstance(ax, pyast.Constant) and ax.value == 1):
                raise Untranslatable("sum over an axis other than 1")
            v = self.ev(n.args[0], env)
            if not isinstance(v, Vec):
                raise Untranslatable(f"sum(.., axis=1) of {type(v).__name__}")
            return Sc(add(v.ts))
        if f in NUMPY_FUNCS:
            if kw or len(n.args) != 1:
                raise Untranslatable(f"{f} with unexpected arguments")
            v = self.ev(n.args[0], env)
            if not isinstance(v, (Sc, Const)):
                raise Untranslatable(f"{f} of {type(v).__name__}")
            t = ("pow", v.t, 1, 2) if f == "sqrt" else ("call", NUMPY_FUNCS[f], [v.t])
            return type(v)(t)
        if f == "einsum":
            if kw or len(n.args) < 2 or not (isinstance(n.args[0], pyast.Constant) and isinstance(n.args[0].value, str)):  # noqa: PLR2004
                raise Untranslatable("einsum with unexpected arguments")
            ops = [self.ev(a, env) for a in n.args[1:]]
            self.einsum_subscripts.append(n.args[0].value)
            res = einsum_symbolic(n.args[0].value, ops)
            if self.vec_prefix is not None and isinstance(res, Vec):
                k = key_of(res.ts)
                if k not in self._vec_seen:
                    self._vec_seen[k] = name_vector(self.vec_prefix, self.params, self.vec_defs, res.ts)
                res = Vec(self._vec_seen[k])
            return res
        raise Untranslatable(f"function {f} in generated code")


def name_vector(prefix: str, params: list[str], vec_defs: list, components: list) -> list:
    """register `components` as `<prefix>_v<k>_<i>` in `vec_defs`; returns the calls of these definitions"""
    k = len({n.rsplit("_", 1)[0] for n, _ in vec_defs})
    out = []
    for i, t in enumerate(components):
        name = f"{prefix}_v{k}_{i}"
        vec_defs.append((name, t))
        out.append(("app", name, [("sym", p) for p in params]))
    return out


def einsum_symbolic(subscripts: str, ops: list):  # noqa: C901, PLR0912
    """numpy.einsum semantics for '...'-prefixed operands whose leading axes are the batch:
    out[o] = sum over all letters not in the output of the product of the operand entries."""
    import itertools

    if "->" not in subscripts:
        raise Untranslatable("implicit-mode einsum")
    lhs, out = subscripts.split("->")
    groups = lhs.split(",")
    if len(groups) != len(ops):
        raise Untranslatable(f"einsum '{subscripts}' with {len(ops)} operands")
    def letters(g):
        if not g.startswith("..."):
            raise Untranslatable("einsum operand without '...'")
        ls = g[3:]
        if not ls.isalpha() or not ls.isascii():
            raise Untranslatable(f"einsum subscripts {g!r}")
        return ls
    gl = [letters(g) for g in groups]
    ol = letters(out) if out != "..." else ""
    if len(set(ol)) != len(ol):
        raise Untranslatable("repeated output subscript")
    dims: dict[str, int] = {}
    getters = []
    for ls, op in zip(gl, ops):
        if isinstance(op, Vec):
            shape = (len(op.ts),)
            getters.append(lambda ix, op=op: op.ts[ix[0]])
        elif isinstance(op, Mat):
            shape = (len(op.rows), len(op.rows[0]))
            getters.append(lambda ix, op=op: op.rows[ix[0]][ix[1]])
        elif isinstance(op, Sc):
            shape = ()
            getters.append(lambda ix, op=op: op.t)
        else:
            raise Untranslatable(f"einsum operand {type(op).__name__}")
        if len(ls) != len(shape):
            raise Untranslatable(f"einsum operand '{ls}' does not match rank {len(shape)}")
        for c, d in zip(ls, shape):
            if dims.setdefault(c, d) != d:
                raise Untranslatable("einsum dimension mismatch")
    for c in ol:
        if c not in dims:
            raise Untranslatable("einsum output subscript not among the inputs")
    summed = [c for c in dict.fromkeys("".join(gl)) if c not in ol]
    def entry(assign):
        terms = []
        for combo in itertools.product(*[range(dims[c]) for c in summed]):
            a = dict(assign)
            a.update(zip(summed, combo))
            terms.append(mul([g(tuple(a[c] for c in ls)) for g, ls in zip(getters, gl)]))
        return add(terms)
    if len(ol) == 0:
        return Sc(entry({}))
    if len(ol) == 1:
        return Vec([entry({ol[0]: i}) for i in range(dims[ol[0]])])
    if len(ol) == 2:  # noqa: PLR2004
        return Mat([[entry({ol[0]: i, ol[1]: j}) for j in range(dims[ol[1]])] for i in range(dims[ol[0]])])
    raise Untranslatable("einsum output of rank > 2")


# ----------------------------------------------------------------------------- radicands


def lift_radicands(entries: list, family: str, params: list[str]):
    """Replace the radicand of every square root in `entries` by a call of a named definition.

    Returns (new_entries, [(name, radicand_ast)]). One distinct radicand -> `<family>_rad`,
    several -> `<family>_rad0`, `<family>_rad1`, ... (theorems written for the single-radicand
    shape then stop compiling, which is what we want when an entry starts using another root)."""
    table: dict[str, tuple] = {}
    order: list[str] = []

    def walk(t):
        k = t[0]
        if k in ("num", "sym", "I", "pi", "nan"):
            return t
        if k in ("add", "mul"):
            return (k, [walk(a) for a in t[1]])
        if k == "pow":
            b = walk(t[1])
            if t[3] == 2:  # noqa: PLR2004
                kk = key_of(b)
                if kk not in table:
                    table[kk] = b
                    order.append(kk)
                return ("pow", ("radref", kk), t[2], 2)
            return ("pow", b, t[2], t[3])
        if k == "call":
            return ("call", t[1], [walk(a) for a in t[2]])
        if k == "app":
            return ("app", t[1], [walk(a) for a in t[2]])
        if k == "ite":
            raise Untranslatable("Piecewise inside a matrix entry")
        raise Untranslatable(f"ast node {k}")

    lifted = [walk(t) for t in entries]
    names = {kk: (f"{family}_rad" if len(order) == 1 else f"{family}_rad{i}") for i, kk in enumerate(order)}

    def resolve(t):
        k = t[0]
        if k == "radref":
            return ("app", names[t[1]], [("sym", p) for p in params])
        if k in ("add", "mul"):
            return (k, [resolve(a) for a in t[1]])
        if k == "pow":
            return ("pow", resolve(t[1]), t[2], t[3])
        if k in ("call", "app"):
            return (k, t[1], [resolve(a) for a in t[2]])
        return t

    return [resolve(t) for t in lifted], [(names[kk], resolve(table[kk])) for kk in order]


def share_subterms(roots: list, prefix: str, params: list[str], min_size: int = 8):
    """Name every REPEATED compound subterm of `roots` as an auxiliary definition (no rewriting).

    Nested array wrappers (`NegativeMomentum(NegativeMomentum(p))`, a momentum boosted by another
    `BoostMatrix`) make the per-event reading of the generated code — whose cse temporaries are inlined —
    grow geometrically, because every use of a component repeats the whole inner expression. This pass
    puts the sharing back WITHOUT changing a single operation: the terms are hash-consed into a DAG, and
    a node that is referenced at least twice and has at least `min_size` nodes (counted with its already
    shared descendants as leaves) becomes `<prefix>_s<i> params := <that very subterm>`; every occurrence
    is replaced by a call of that definition. Unfolding the auxiliary definitions gives back the original
    terms literally, which is what the Lean proofs do (`c08_unfold`).

    Returns (new_roots, [(name, body)]) with the auxiliary definitions in dependency order."""
    table: dict = {}
    nodes: list = []  # nid -> (kind, payload, [child nids])
    memo: dict[int, int] = {}
    keep: list = []  # keeps visited objects alive so that id() stays unique

    def intern(t) -> int:
        got = memo.get(id(t))
        if got is not None:
            return got
        k = t[0]
        if k in ("add", "mul"):
            ch, payload = [intern(a) for a in t[1]], None
        elif k == "pow":
            ch, payload = [intern(t[1])], (t[2], t[3])
        elif k in ("call", "app"):
            ch, payload = [intern(a) for a in t[2]], t[1]
        elif k in ("num", "sym", "I", "pi", "nan"):
            ch, payload = [], tuple(t[1:])
        else:
            raise Untranslatable(f"ast node {k}")
        key = (k, payload, tuple(ch))
        nid = table.get(key)
        if nid is None:
            nid = len(nodes)
            table[key] = nid
            nodes.append((k, payload, ch))
        memo[id(t)] = nid
        keep.append(t)
        return nid

    root_ids = [intern(t) for t in roots]
    refs = [0] * len(nodes)
    for _, _, ch in nodes:
        for c in ch:
            refs[c] += 1
    for r in root_ids:
        refs[r] += 1
    size = [0] * len(nodes)
    lifted: dict[int, str] = {}
    for nid, (k, _, ch) in enumerate(nodes):  # children are interned before their parents
        size[nid] = 1 + sum(1 if c in lifted else size[c] for c in ch)
        if ch and k != "app" and refs[nid] >= 2 and size[nid] >= min_size:  # noqa: PLR2004
            lifted[nid] = f"{prefix}_s{len(lifted)}"
    built: dict[int, tuple] = {}
    call_args = [("sym", p) for p in params]

    def body(nid):
        k, payload, ch = nodes[nid]
        cs = [ref(c) for c in ch]
        if k in ("add", "mul"):
            return (k, cs)
        if k == "pow":
            return ("pow", cs[0], payload[0], payload[1])
        if k in ("call", "app"):
            return (k, payload, cs)
        return (k, *payload)

    def ref(nid):
        if nid in lifted:
            return ("app", lifted[nid], call_args)
        if nid not in built:
            built[nid] = body(nid)
        return built[nid]

    aux = [(lifted[nid], body(nid)) for nid in sorted(lifted)]
    return [ref(r) for r in root_ids], aux


def _app_names(t, acc: set) -> set:
    k = t[0]
    if k == "app":
        acc.add(t[1])
        for a in t[2]:
            _app_names(a, acc)
    elif k in ("add", "mul"):
        for a in t[1]:
            _app_names(a, acc)
    elif k == "pow":
        _app_names(t[1], acc)
    elif k == "call":
        for a in t[2]:
            _app_names(a, acc)
    return acc


def toposort_definitions(defs: list[tuple[str, tuple]]) -> list[tuple[str, tuple]]:
    """order (name, body) pairs so that every definition comes after the ones it calls"""
    by_name = dict(defs)
    deps = {n: _app_names(b, set()) & set(by_name) for n, b in defs}
    out, done, active = [], set(), set()

    def visit(n):
        if n in done:
            return
        if n in active:
            raise Untranslatable(f"cyclic auxiliary definitions at {n}")
        active.add(n)
        for d in sorted(deps[n]):
            visit(d)
        active.discard(n)
        done.add(n)
        out.append((n, by_name[n]))

    for n, _ in defs:
        visit(n)
    return out


def free_syms(t, acc=None) -> set:
    acc = set() if acc is None else acc
    k = t[0]
    if k == "sym":
        acc.add(t[1])
    elif k in ("add", "mul"):
        for a in t[1]:
            free_syms(a, acc)
    elif k == "pow":
        free_syms(t[1], acc)
    elif k in ("call", "app"):
        for a in t[2]:
            free_syms(a, acc)
    return acc


# ----------------------------------------------------------------------------- families


class Family:
    """A matrix (4x4), vector (4) or scalar valued target: its entries as scalar definitions."""

    def __init__(self, name: str, params: list[str], shape: tuple, entries: list, doc: str = "",
                 share: bool = False, vecs: list[tuple[str, tuple]] | None = None):
        self.name = name
        self.params = params
        self.shape = shape  # (4, 4) | (4,) | ()
        self.doc = doc
        vecs = list(vecs or [])  # named intermediate vectors (`name_vector`) the entries refer to
        for t in [*entries, *[b for _, b in vecs]]:
            extra = free_syms(t) - set(params)
            if extra:
                raise Untranslatable(f"{name}: free symbols {sorted(extra)} are not parameters")
        nv = len(vecs)
        lifted, self.rads = lift_radicands([b for _, b in vecs] + list(entries), name, params)
        self.vecs = [(n, b) for (n, _), b in zip(vecs, lifted[:nv])]
        self.entries = lifted[nv:]
        self.aux: list[tuple[str, tuple]] = []  # shared subterms (`share_subterms`), in dependency order
        if share:
            roots, self.aux = share_subterms([b for _, b in self.rads] + [b for _, b in self.vecs] + self.entries,
                                             name, params)
            k = len(self.rads)
            self.rads = [(n, b) for (n, _), b in zip(self.rads, roots[:k])]
            self.vecs = [(n, b) for (n, _), b in zip(self.vecs, roots[k:k + nv])]
            self.entries = roots[k + nv:]

    def entry_names(self) -> list[str]:
        if self.shape == ():
            return [self.name + "_val"]
        if len(self.shape) == 1:
            return [f"{self.name}_{i}" for i in range(self.shape[0])]
        return [f"{self.name}_{i}{j}" for i in range(self.shape[0]) for j in range(self.shape[1])]

    def definitions(self) -> list[core.Definition]:
        defs = [core.Definition(n, self.params, t)
                for n, t in toposort_definitions([*self.aux, *self.rads, *self.vecs])]
        defs += [core.Definition(n, self.params, t) for n, t in zip(self.entry_names(), self.entries)]
        return defs


def render_gen(module: str, families: list[Family], header: str) -> str:
    rp = core.RealPrinter()
    body = []
    for fam in families:
        body.append(f"/-! ### {fam.name} — {fam.doc} -/")
        ps = " ".join(fam.params)
        sig = f"({ps} : ℝ) " if fam.params else ""
        rad_names = {n for n, _ in fam.rads}
        vec_names = {n for n, _ in fam.vecs}
        for d in fam.definitions():
            tag = "" if d.name in rad_names else ("@[c08_vectors] " if d.name in vec_names else "@[c08_entries] ")
            body.append(f"{tag}noncomputable def {d.name} {sig}: ℝ :=\n  {rp.p(d.body)}")
        call = lambda n: " ".join([n, *fam.params])  # noqa: E731
        names = fam.entry_names()
        if len(fam.shape) == 2:  # noqa: PLR2004
            r, c = fam.shape
            rows = "; ".join(", ".join(call(names[i * c + j]) for j in range(c)) for i in range(r))
            body.append(f"/-- {fam.doc} -/\n@[c08_entries] noncomputable def {fam.name} {sig}: Matrix (Fin {r}) (Fin {c}) ℝ :=\n  !![{rows}]")
        elif len(fam.shape) == 1:
            body.append(f"/-- {fam.doc} -/\n@[c08_entries] noncomputable def {fam.name} {sig}: Fin {fam.shape[0]} → ℝ :=\n  ![{', '.join(call(n) for n in names)}]")
        body.append("")
    text = "\n".join(body)
    imports = core._needed_imports(text) | {"Mathlib.LinearAlgebra.Matrix.Notation", "Ampverif.Lemmas.C08Attr"}  # noqa: SLF001
    out = [f"-- GENERATED by /verif/tools/translate (c08_ext) — do not edit. {header}"]
    out += [f"import {i}" for i in sorted(imports)]
    out += ["set_option linter.all false", "open Classical", f"namespace {module}", "", text, f"end {module}"]
    return "\n".join(out) + "\n"


def render_float(module: str, families: list[Family], header: str) -> str:
    fp = core.FloatPrinter()
    out = [f"-- GENERATED by /verif/tools/translate (c08_ext) — do not edit. {header}",
           "set_option linter.all false", "set_option linter.unusedVariables false",
           f"namespace {module}", core.FLOAT_PRELUDE]
    for fam in families:
        ps = " ".join(fam.params)
        sig = f"({ps} : Float) " if fam.params else ""
        for d in fam.definitions():
            out.append(f"def {d.name} {sig}: Float :=\n  {fp.p(d.body)}")
        out.append("")
    out.append("def dispatch (name : String) (a : Array Float) : Option (Array Float) :=")
    out.append("  match name with")
    for fam in families:
        args = " ".join(f"a[{i}]!" for i in range(len(fam.params)))
        vals = ", ".join((n + " " + args).strip() for n in fam.entry_names())
        out.append(f'  | "{fam.name}" => if a.size = {len(fam.params)} then some #[{vals}] else none')
    out.append("  | _ => none")
    out.append(f"end {module}")
    out.append(core._MAIN.replace("NS", module))  # noqa: SLF001
    return "\n".join(out) + "\n"
