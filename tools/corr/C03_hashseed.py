"""Run in a FRESH process under a given PYTHONHASHSEED: prints one JSON line with everything of C02/C03 that could
depend on set/dict iteration order, for the given corpus reactions.

usage: PYTHONHASHSEED=n python tools/corr/C03_hashseed.py <reaction.json> [...]
"""

from __future__ import annotations

import hashlib
import json
import os
import sys
from pathlib import Path

ROOT = Path(__file__).resolve().parents[2]
sys.path.insert(0, str(ROOT))

from tools.lib import common  # noqa: E402

common.use_repo_source()


def digest(obj) -> str:
    return hashlib.sha1(repr(obj).encode()).hexdigest()[:16]


def main():
    import qrules

    from tools.corr import C02_lib as M

    out = {"hashseed": os.environ.get("PYTHONHASHSEED"), "reactions": {}}
    probe = set()
    for path in sys.argv[1:]:
        r = qrules.io.load(path)
        can = r.formalism.startswith("canonical")
        flags = (False, False, True) if can else (False, True, None)
        obs = M.observe(r, False, flags)
        model, builder = obs["model"], obs["builder"]
        naming = builder.naming
        for t in r.transitions:
            for s in t.states.values():
                probe.add(s.particle.name)
            for n in t.topology.nodes:
                probe.add(naming.generate_two_body_decay_suffix(t, n))
        out["reactions"][Path(path).name] = {
            # C03
            "mapping": digest(list(naming.parity_partner_coefficient_mapping.items())),
            "coefficients_and_prefactors": digest([(str(c), str(model.components[c])) for c in model.components
                                                   if c.startswith("A_{")]),
            "parameter_order": digest([str(p) for p in model.parameter_defaults]),
            # C02
            "amplitude_order": digest([str(a) for a in model.amplitudes]),
            "amplitude_terms": digest(sorted((str(k), sorted(map(str, v.items()))) for k, v in obs["amplitudes"].items())),
            "component_order": digest(list(model.components)),
            "intensity": digest(str(model.intensity)),
            "pools": digest(obs["pools"]),
            "combinatorics": digest(obs["sym"]),
        }
    # evidence that the iteration order of string sets really differs between the processes
    out["string_set_iteration_order"] = digest(list(probe))
    print(json.dumps(out))


if __name__ == "__main__":
    main()
