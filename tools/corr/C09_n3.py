"""Three-channel part of C09 (thorough tier / setup): regenerate Gen/C09N3.lean + its Float twin from
`formulate(3, ·, parametrize=False)` of both K-matrix classes and validate the translation.

Run as a script in a time-capped subprocess (the symbolic 3×3 inverse takes about a minute):
    python -m tools.corr.C09_n3 <seed> <n_points>     -> one JSON line on stdout
"""

from __future__ import annotations

import json
import sys

from tools.lib import common

SOURCES = ["src/ampform/dynamics/kmatrix.py"]


def build():
    from ampform.dynamics import PhaseSpaceFactor

    from tools.corr.C09_defs import Builder

    b = Builder(PhaseSpaceFactor)
    b.matrix_level_kmatrix(ns=(3,))
    return b.out, {}, {}


def main(seed: int, n_points: int, validate: bool = True) -> dict:
    from tools.corr.C09_runner import KProperty

    common.use_repo_source()
    prop = KProperty(prop_id="C09", sources=SOURCES, namespace="C09N3", build=build, search=None,
                     prop_modules=[], signature_of=None)
    _, header = prop._header()  # noqa: SLF001
    kdefs, _, _ = build()
    prop._write(kdefs, header)  # noqa: SLF001
    out = {"definitions": len(kdefs), "points": 0, "mismatches": 0, "broken": []}
    if validate:
        chk = common.Check("C09N3", "thorough", seed)
        prop.validate(chk, kdefs, common.rng_for("C09N3", seed), n_points)
        out["points"] = chk.coverage.get("translator_validation_points", 0)
        out["mismatches"] = chk.coverage.get("translator_validation_mismatches", 0)
        out["broken"] = chk.broken
        out["evaluations"] = chk.coverage["evaluations"]
    return out


if __name__ == "__main__":
    res = main(int(sys.argv[1]), int(sys.argv[2]), validate=(len(sys.argv) < 4 or sys.argv[3] != "novalidate"))
    print(json.dumps(res, default=str))
