"""C16 worker: a REAL process calling the real `perform_cached_doit` on a shared directory.

usage: C16_worker.py <json-config>
config: {"dir":…, "families":[…], "iters":N | "seconds":T, "seed":S, "slow":bool, "prepopulate":bool,
         "kill_after_bytes":k|null, "repo_src":…}

The hash mode is whatever PYTHONHASHSEED the parent put into this process's environment (so the
seeded `hash()` really is the interpreter's).  Every result is compared with `expr.doit()`
computed directly (deep comparison incl. symbol assumptions and non-SymPy attributes).  One JSON
line per failure (`{"fail":…}`), a final `{"summary":…}` line.

`slow`: pickle.dump is replaced by an equivalent that writes the same bytes in two flushed halves
with a short sleep in between (a slow disk) — widens the window in which a concurrent reader can
see a partially written file; the function under test is otherwise untouched.
`kill_after_bytes`: the first write to the directory stops after k bytes and the process dies
with os._exit(9) — a real death in the middle of a write (no cleanup code runs).
"""

from __future__ import annotations

import json
import logging
import os
import pickle
import random
import sys
import time


def run_script(cfg, fams, perform_cached_doit, X) -> int:
    """`script`: [[family, index, sub-directory], …] — exactly these calls, in this order, in THIS
    process (expressions built here: a later process does not share objects with an earlier one).
    One JSON line per call that is wrong; a final {"done": n}."""
    import signal

    class Stuck(BaseException):
        pass

    def on_alarm(signum, frame):
        raise Stuck

    signal.signal(signal.SIGALRM, on_alarm)
    mode = os.environ.get("PYTHONHASHSEED", "unset")
    n = 0
    for step, (fam, i, sub) in enumerate(cfg["script"]):
        expr = fams[fam][i]
        expected = expr.doit()
        d = os.path.join(cfg["dir"], sub)
        os.makedirs(d, exist_ok=True)
        n += 1
        rec = {"family": fam, "expr": i, "dir": sub, "step": step, "mode": mode, "expr_str": str(expr)[:120]}
        try:
            signal.setitimer(signal.ITIMER_REAL, 30)
            try:
                r = perform_cached_doit(expr, d)
            finally:
                signal.setitimer(signal.ITIMER_REAL, 0)
        except Stuck:
            print(json.dumps({"fail": "stuck", **rec}), flush=True)
            break
        except Exception as ex:  # noqa: BLE001
            print(json.dumps({"fail": "raised", "error": f"{type(ex).__name__}: {ex}"[:300], **rec}), flush=True)
            continue
        why = X.behaves_same(r, expected)
        if why is not None:
            print(json.dumps({"fail": "wrong value", "difference": why, "got": str(r)[:200],
                              "expected": str(expected)[:200], **rec}), flush=True)
    print(json.dumps({"done": n}), flush=True)
    return 0


def main() -> int:
    cfg = json.loads(sys.argv[1])
    try:  # a corrupt pickle can ask for absurd allocations: never let a worker eat the machine
        import resource

        lim = int(cfg.get("mem_limit_gb", 4)) << 30
        resource.setrlimit(resource.RLIMIT_AS, (lim, resource.getrlimit(resource.RLIMIT_AS)[1]))
    except (ImportError, ValueError, OSError):
        pass
    sys.path.insert(0, cfg["repo_src"])
    sys.path.insert(0, cfg["verif_root"])
    logging.disable(logging.CRITICAL)
    import builtins

    from ampform.sympy import perform_cached_doit
    from ampform.sympy._cache import get_readable_hash
    from tools.corr import C16_exprs as X

    fams = X.families()
    if cfg.get("script"):
        return run_script(cfg, fams, perform_cached_doit, X)
    exprs = [e for f in cfg["families"] for e in fams[f]]
    doits = [e.doit() for e in exprs]
    rng = random.Random(cfg["seed"])
    d = cfg["dir"]
    os.makedirs(d, exist_ok=True)
    mode = os.environ.get("PYTHONHASHSEED", "unset")
    names = [get_readable_hash(e) for e in exprs]

    if cfg.get("prepopulate"):
        for i, e in enumerate(exprs):
            kind = rng.choice(["none", "trunc", "other", "old", "junk", "empty", "good"])
            path = os.path.join(d, names[i] + ".pkl")
            j = rng.randrange(len(exprs))
            if kind == "trunc":
                rec = pickle.dumps((e, doits[i]))
                data = rec[: rng.randrange(len(rec))]
            elif kind == "other":
                data = pickle.dumps((exprs[j], doits[j]))
            elif kind == "old":
                data = pickle.dumps(doits[j])
            elif kind == "junk":
                data = b"\x80\x04garbage"
            elif kind == "empty":
                data = b""
            elif kind == "good":
                data = pickle.dumps((e, doits[i]))
            else:
                continue
            with open(path, "wb") as f:
                f.write(data)

    if cfg.get("slow"):
        real_dumps = pickle.dumps

        def slow_dump(obj, f, *a, **k):
            data = real_dumps(obj, *a, **k)
            h = len(data) // 2
            f.write(data[:h])
            f.flush()
            time.sleep(0.002)
            f.write(data[h:])

        pickle.dump = slow_dump

    if cfg.get("kill_after_bytes") is not None:
        k = int(cfg["kill_after_bytes"])
        real_open = builtins.open

        class Dying:
            def __init__(self, raw):
                self.raw = raw

            def write(self, data):
                self.raw.write(bytes(data)[:k])
                self.raw.flush()
                os.fsync(self.raw.fileno())
                os._exit(9)

            def __enter__(self):
                return self

            def __exit__(self, *a):
                self.raw.close()

            def __getattr__(self, n):
                return getattr(self.raw, n)

        def dying_open(file, mode="r", *a, **kw):
            if ("w" in mode) and os.path.dirname(os.fspath(file)) == d:
                return Dying(real_open(file, mode, buffering=0))
            return real_open(file, mode, *a, **kw)

        builtins.open = dying_open
        import io

        io.open = dying_open

    import signal

    class Stuck(BaseException):
        pass

    def on_alarm(signum, frame):
        raise Stuck

    signal.signal(signal.SIGALRM, on_alarm)
    calls = wrong = raised = stuck = 0
    fails = []
    t_end = time.time() + cfg["seconds"] if cfg.get("seconds") else None
    n_iter = 0
    while True:
        n_iter += 1
        if t_end is not None:
            if time.time() > t_end:
                break
        elif n_iter > cfg["iters"]:
            break
        i = rng.randrange(len(exprs))
        calls += 1
        try:
            signal.setitimer(signal.ITIMER_REAL, 30)
            try:
                r = perform_cached_doit(exprs[i], d)
            finally:
                signal.setitimer(signal.ITIMER_REAL, 0)
        except Stuck:
            stuck += 1
            fails.append({"fail": "stuck", "expr": i, "mode": mode, "error": "a call did not return within 30 s"})
            break
        except Exception as ex:  # noqa: BLE001
            raised += 1
            if len(fails) < 3:
                fails.append({"fail": "raised", "expr": i, "family_index": i, "mode": mode,
                              "error": f"{type(ex).__name__}: {ex}"[:300]})
            continue
        why = None if X.deep_equal(r, doits[i]) else "not structurally identical"
        if why is None and calls % 16 == 1:
            why = X.behaves_same(r, doits[i])
        if why is not None:
            wrong += 1
            if len(fails) < 3:
                fails.append({"fail": "wrong value", "difference": why, "expr": i, "mode": mode, "got": str(r)[:200],
                              "expected": str(doits[i])[:200], "expr_str": str(exprs[i])})
    for f in fails:
        print(json.dumps(f), flush=True)
    print(json.dumps({"summary": {"calls": calls, "wrong": wrong + stuck, "raised": raised, "mode": mode,
                                  "pid": os.getpid(), "first_name": names[0][:40],
                                  "seeded_names": sum(n.startswith("pythonhashseed-") for n in names),
                                  "sha_names": sum(not n.startswith("pythonhashseed-") for n in names)}}), flush=True)
    return 0


if __name__ == "__main__":
    sys.exit(main())
