"""C09 call HISTORIES: `formulate` of the two K-matrix classes, many calls in ONE process.

C09 is stated per call of `formulate` ("for real parameters … the T-matrix is unitary and symmetric"); its
hypotheses are about the phase-space factor the caller passes to THAT call. The code that builds a
result goes through process-global caches (SymPy's cached constructors keyed on the hashable content of
the sub-expressions — for an `EnergyDependentWidth` a key derived from the caller's factor OBJECT by
`ampform.sympy._decorator._get_hashable_object` —, `functools.cache` on `_create_matrices`). A model
formulated SECOND in a process can therefore contain pieces of the model formulated first: with a
complex (Chew-Mandelstam-like) factor first and a real factor second, K is no longer real and S†S ≠ 1
although every hypothesis holds for the factor that was passed.

This module drives such histories on the real classes (worker processes: `python -m
tools.corr.C09_history`, payload on stdin, each call under a wall-clock cap):

* calls `NonRelativisticKMatrix.formulate` / `RelativisticKMatrix.formulate(n_channels, n_poles,
  parametrize, return_t_hat, phsp_factor, angular_momentum, meson_radius)`, n, n_R ∈ {1, 2};
* phase-space factors: the library classes; plain FUNCTIONS sharing one qualified name (closures of one
  factory, lambdas of one scope — also lambdas that only attach a `name=` to a library class, as a
  notebook would), differently named functions, `functools.partial` objects, callable instances, bound
  methods — each kind with REAL-positive-above-threshold conventions (PhaseSpaceFactor,
  PhaseSpaceFactorAbs, two harness formulas) and COMPLEX ones (PhaseSpaceFactorSWave = Chew-Mandelstam, two
  harness formulas), ordered complex→real and (reversed history) real→complex;
* for EVERY call:
    (a) occurrences BY IDENTITY (only the factor object / L / radius passed to this call occur) and the
        skeleton line, compared with the Lean state machine (`Drivers/C09History.lean` running
        `Model/C10History.lean`; theorems `Props/C09History.lean`);
    (b) the statement of C09 at seeded real points (s and every pole above all thresholds): the
        hypotheses (ρ_i(s), ρ_i(m_R²) real positive, form factors real) are evaluated by calling the
        PASSED object directly; where they hold, ‖S†S − 1‖ and ‖T − Tᵀ‖ of the library's own expression
        (for `return_t_hat` T = √ρ T̂ √ρ with ρ of the passed object); for every call, the deviation from
        an independent numpy solution built from the passed object;
    (c) a canonical digest, compared with the same call in the reversed history and in a fresh process.

Canonicaliser, digest, skeleton collector, independent numpy solution and the generic factor kinds are
IMPORTED from `tools/corr/C10_history.py` (same model, same line protocol); this module adds the factor
conventions, the unitarity statement and the histories of C09.
"""

from __future__ import annotations

import functools
import json
import math
import os
import signal
import subprocess
import sys
import time

from tools.corr import C10_history as H

MARK = "@@C09HIST@@"
CALL_CAP_S = 120
FORMULAS = ["psf", "abs", "cm", "k0", "k1", "z0", "z1"]
COMPLEX_FORMULAS = {"cm", "z0", "z1"}
LIB_OF = {"psf": "PhaseSpaceFactor", "abs": "PhaseSpaceFactorAbs", "cm": "PhaseSpaceFactorSWave",
          "cplx": "PhaseSpaceFactorComplex"}
LATEX = {"psf": R"\rho", "abs": R"\hat{\rho}", "cm": R"\rho^\mathrm{CM}"}
UNIT_TOL = 1e-9
RESID_TOL = 1e-8


# --------------------------------------------------------------------------- factor conventions


def _zformula(k: int, s, m1, m2):
    """Two complex conventions (dispersive-like: a real part plus an imaginary part that does not vanish
    above threshold)."""
    import sympy as sp

    from ampform.dynamics.phasespace import BreakupMomentumSquared

    q = sp.sqrt(BreakupMomentumSquared(s, m1, m2))
    if k == 0:
        return 2 * q / sp.sqrt(s) * (1 + sp.I / 3) + sp.I / 5
    return 2 * q / (m1 + m2) - sp.I * (sp.Rational(1, 4) + q / (3 * sp.sqrt(s)))


@functools.cache
def node_class(formula: str):
    import ampform.dynamics.phasespace as ps

    if formula in LIB_OF:
        return getattr(ps, LIB_OF[formula])
    if formula in ("k0", "k1"):
        return H.leaf_class(int(formula[1]))
    return H._make_node_class(f"KRhoZ{formula[1]}", functools.partial(_zformula, int(formula[1])))


def _node(formula: str, s, m1, m2, named: bool = False):
    if named and formula in LATEX:
        return node_class(formula)(s, m1, m2, name=LATEX[formula])
    return node_class(formula)(s, m1, m2)


def _closure_factory(formula: str):
    def rho(s, m1, m2):
        return _node(formula, s, m1, m2)

    return rho


# lambdas written in ONE scope (all have the qualified name `<lambda>` of this module); those around a
# library class only attach a LaTeX name
_LAMBDAS = {
    tag: {
        "psf": lambda s, m1, m2: _node("psf", s, m1, m2, named=True),
        "abs": lambda s, m1, m2: _node("abs", s, m1, m2, named=True),
        "cm": lambda s, m1, m2: _node("cm", s, m1, m2, named=True),
        "k0": lambda s, m1, m2: _node("k0", s, m1, m2),
        "k1": lambda s, m1, m2: _node("k1", s, m1, m2),
        "z0": lambda s, m1, m2: _node("z0", s, m1, m2),
        "z1": lambda s, m1, m2: _node("z1", s, m1, m2),
    }
    for tag in ("a", "b")
}


def rho_named_psf(s, m1, m2):
    return _node("psf", s, m1, m2)


def rho_named_abs(s, m1, m2):
    return _node("abs", s, m1, m2)


def rho_named_cm(s, m1, m2):
    return _node("cm", s, m1, m2)


def rho_named_k0(s, m1, m2):
    return _node("k0", s, m1, m2)


def rho_named_k1(s, m1, m2):
    return _node("k1", s, m1, m2)


def rho_named_z0(s, m1, m2):
    return _node("z0", s, m1, m2)


def rho_named_z1(s, m1, m2):
    return _node("z1", s, m1, m2)


class _Convention:
    """Callable instance / owner of a bound method."""

    def __init__(self, formula: str):
        self.formula = formula

    def __call__(self, s, m1, m2):
        return _node(self.formula, s, m1, m2)

    def rho(self, s, m1, m2):
        return _node(self.formula, s, m1, m2)


FUNCTION_FAMILIES = ["closure", "lambda", "named", "partial", "callable", "method"]


def make_factor(spec: str):
    """spec = `<kind>:<formula>[:<tag>]` -> (object, node class)."""
    kind, formula, *_tag = spec.split(":")
    tag = _tag[0] if _tag else "a"
    cls = node_class(formula)
    if kind == "class":
        return cls, cls
    if kind == "closure":
        return _closure_factory(formula), cls
    if kind == "lambda":
        return _LAMBDAS[tag][formula], cls
    if kind == "named":
        return globals()[f"rho_named_{formula}"], cls
    if kind == "partial":
        return functools.partial(_node, formula), cls
    if kind == "callable":
        return _Convention(formula), cls
    if kind == "method":
        return _Convention(formula).rho, cls
    if kind == "twinclass":  # two different CLASSES with one qualified name (observation only: notes/findings_C09.md F2)
        fn = functools.partial(_zformula, int(formula[1])) if formula[0] == "z" else functools.partial(H._formula, int(formula[1]))
        twin = H._make_node_class("KTwinRho", fn)
        return twin, twin
    msg = f"unknown factor spec {spec}"
    raise ValueError(msg)


def factor_pool():
    pool = [f"class:{f}" for f in ("psf", "abs", "cm", "cplx")]
    for fam in FUNCTION_FAMILIES:
        tags = ["a"] if fam == "named" else ["a", "b"]
        pool += [f"{fam}:{f}:{t}" for f in FORMULAS for t in tags]
    return pool


class Registry(H.Registry):
    """All objects of one process (ONE object per spec, so that identities and numbers mean the same in
    every worker). Label / line-protocol methods are those of the C10 registry."""

    def __init__(self, extra_specs=()):  # noqa: super().__init__ builds the C10 pool; this one builds C09's
        self.specs = sorted({*factor_pool(), *extra_specs})
        self.factor, self.node_of = {}, {}
        for sp_ in self.specs:
            self.factor[sp_], self.node_of[sp_] = make_factor(sp_)
        self.ident = {sp_: i + 1 for i, sp_ in enumerate(self.specs)}
        self.by_id = {id(o): sp_ for sp_, o in self.factor.items()}
        self.nodes = [node_class(f) for f in ("psf", "abs", "cplx", "cm", "k0", "k1", "z0", "z1")]
        quals = sorted({H.qualname_of(o) for o in self.factor.values()})
        self.qual = {sp_: quals.index(H.qualname_of(self.factor[sp_])) for sp_ in self.specs}
        self.L = {sp_: H.l_object(sp_) for sp_ in H.L_TABLE}
        self.d = {sp_: H.d_object(sp_) for sp_ in H.D_TABLE}


# --------------------------------------------------------------------------- the statement of C09 on one call


def _real_positive(z: complex) -> bool:
    return math.isfinite(z.real) and math.isfinite(z.imag) and z.real > 0 and abs(z.imag) <= 1e-9 * abs(z.real)


def _real_nonzero(z: complex) -> bool:
    return math.isfinite(z.real) and math.isfinite(z.imag) and abs(z.real) > 0 and abs(z.imag) <= 1e-9 * abs(z.real)


def hypotheses(c: dict, vals: dict, f_obj) -> dict:
    """The hypotheses of Props/C09 Part D for the arguments of THIS call: the passed object is called
    directly at s and at every m_R² (nothing of the formulated expression is looked at)."""
    import sympy as sp

    from ampform.dynamics.form_factor import FormFactor

    nc, np_ = c["nc"], c["np"]
    if c["cls"] == "nrK":
        return {"rho_at_s_real_positive": True, "rho_at_pole_real_positive": True, "ff_real": True, "rho_s": [1.0] * nc}
    Lv, dv = H.L_VALUE[c["L"]], H.D_VALUE[c["d"]]
    ch = [(sp.Float(vals[f"m_a_{i}"]), sp.Float(vals[f"m_b_{i}"])) for i in range(nc)]
    at_s = [H._num(f_obj(sp.Float(vals["s"]), a, b)) for a, b in ch]
    at_p = [H._num(f_obj(sp.Float(vals[f"m_{r}"]) ** 2, a, b)) for r in range(1, np_ + 1) for a, b in ch]
    ff = [H._num(FormFactor(x, a, b, sp.Integer(Lv), sp.Float(dv)))
          for x in [sp.Float(vals["s"]), *[sp.Float(vals[f"m_{r}"]) ** 2 for r in range(1, np_ + 1)]] for a, b in ch]
    return {"rho_at_s_real_positive": all(_real_positive(z) for z in at_s),
            "rho_at_pole_real_positive": all(_real_positive(z) for z in at_p),
            "ff_real": all(_real_nonzero(z) for z in ff),
            "rho_s": [[z.real, z.imag] for z in at_s]}


def statement_check(matrix, reg: Registry, c: dict, rng, n_points: int) -> list:
    """Per seeded point: hypotheses for the passed factor, unitarity / symmetry defect of the library's
    expression, deviation from the independent solution with the passed factor."""
    import numpy as np
    import sympy as sp

    from tools.corr.C09_runner import physical_point

    nc, np_ = c["nc"], c["np"]
    f_obj = reg.factor[c["phsp"]]
    out = []
    for _ in range(n_points):
        vals = physical_point(rng, nc, np_)  # s and every pole above every threshold
        subs = H._values_map(vals, nc, np_)
        l_obj, d_obj = reg.L[c["L"]], reg.d[c["d"]]
        if isinstance(l_obj, sp.Symbol):
            subs[l_obj] = sp.Integer(H.L_VALUE[c["L"]])
        if isinstance(d_obj, sp.Symbol):
            subs[d_obj] = sp.Float(H.D_VALUE[c["d"]])
        hyp = hypotheses(c, vals, f_obj)
        lib = np.array(H.library_values(matrix, subs), dtype=complex).reshape(nc, nc)
        exp, cond = H.expected_values(c, vals, f_obj, None)
        exp = np.array(exp, dtype=complex).reshape(nc, nc)
        if not (np.all(np.isfinite(lib)) and np.all(np.isfinite(exp))) or cond > 1e6:
            out.append({"skipped": "non-finite or ill-conditioned", "cond": cond})
            continue
        T = lib
        if c["cls"] == "relK" and c["hat"]:
            sq = np.sqrt(np.array([complex(*z) if isinstance(z, list) else z for z in hyp["rho_s"]], dtype=complex))
            T = np.diag(np.conj(sq)) @ lib @ np.diag(sq)
        S = np.eye(nc) + 2j * T
        norm = float(np.linalg.norm(T))
        rec = {"point": vals, "cond": cond, "T_norm": norm,
               "hypotheses_hold": bool(hyp["rho_at_s_real_positive"] and hyp["rho_at_pole_real_positive"] and hyp["ff_real"]),
               "rho_at_s_real_positive": hyp["rho_at_s_real_positive"],
               "rho_at_pole_real_positive": hyp["rho_at_pole_real_positive"], "ff_real": hyp["ff_real"],
               "unitarity_defect": float(np.linalg.norm(S.conj().T @ S - np.eye(nc))),
               "symmetry_defect": float(np.linalg.norm(T - T.T)),
               "tolerance": UNIT_TOL * max(1.0, cond) ** 0 * (1 + norm) ** 2,
               "deviation": float(np.abs(lib - exp).max() / (1 + np.abs(exp).max())),
               "library": [[x.real, x.imag] for x in lib.flatten()], "expected": [[x.real, x.imag] for x in exp.flatten()]}
        out.append(rec)
    return out


# --------------------------------------------------------------------------- worker


class _Timeout(Exception):
    pass


def _alarm(_sig, _frm):
    raise _Timeout


def run_history_here(payload: dict) -> list:
    import random

    reg = Registry(payload.get("extra_factors", ()))
    results = []
    signal.signal(signal.SIGALRM, _alarm)
    cap = int(payload.get("cap", CALL_CAP_S))
    for c in payload["calls"]:
        t0 = time.time()
        r: dict = {"key": c["key"]}
        signal.alarm(cap)
        stage = "formulate"
        try:
            m = H.real_formulate(reg, c)
            stage = "inspect"
            r["digest"] = H.canonical_digest(m, reg)
            r["line"], r["occ_bad"] = H.occurrences_by_identity(m, reg, c)
            if payload.get("numeric", True):
                stage = "evaluate"
                rng = random.Random(f"C09hist:{payload.get('seed', 0)}:{c['key']}")
                if c["par"]:
                    r["points"] = statement_check(m, reg, c, rng, int(payload.get("points", 1)))
                else:
                    r["points"] = H.residual_check(m, reg, c, rng, int(payload.get("points", 1)))
        except _Timeout:
            r["error" if stage != "evaluate" else "eval_error"] = f"timeout in stage '{stage}': not finished within {cap} s"
        except Exception as e:  # noqa: BLE001
            import traceback

            r["error" if stage != "evaluate" else "eval_error"] = f"stage '{stage}': " + "".join(
                traceback.format_exception(type(e), e, e.__traceback__))[-1200:]
        finally:
            signal.alarm(0)
        r["secs"] = round(time.time() - t0, 2)
        results.append(r)
    return results


def _worker_main():
    sys.path.insert(0, os.getcwd())
    from tools.lib import common

    common.use_repo_source()
    payload = json.loads(sys.stdin.read())
    import ampform

    res = {"ampform": os.path.dirname(ampform.__file__), "results": run_history_here(payload)}
    sys.stdout.write("\n" + MARK + json.dumps(res) + "\n")


def run_jobs(jobs: dict, max_parallel: int = 8, job_cap_s: int = 900) -> dict:
    """jobs: name -> payload. Returns name -> worker output, or {"infra": text}. (Process pool as in
    C10_history.run_jobs, for this module's worker.)"""
    import tempfile

    from tools.lib import common

    pending = list(jobs.items())
    running, done = {}, {}
    while pending or running:
        while pending and len(running) < max_parallel:
            name, payload = pending.pop(0)
            fo, fe = tempfile.TemporaryFile(mode="w+"), tempfile.TemporaryFile(mode="w+")
            env = dict(os.environ)
            env["PYTHONPATH"] = str(common.ROOT) + os.pathsep + env.get("PYTHONPATH", "")
            p = subprocess.Popen([common.PY, "-m", "tools.corr.C09_history"], cwd=str(common.ROOT), env=env,
                                 stdin=subprocess.PIPE, stdout=fo, stderr=fe, text=True)
            p.stdin.write(json.dumps(payload))
            p.stdin.close()
            running[name] = (p, fo, fe, time.time())
        time.sleep(0.05)
        for name in list(running):
            p, fo, fe, t0 = running[name]
            code = p.poll()
            if code is None:
                if time.time() - t0 > job_cap_s:
                    p.kill()
                    p.wait()
                    done[name] = {"infra": f"worker exceeded {job_cap_s} s"}
                    fo.close()
                    fe.close()
                    del running[name]
                continue
            fo.seek(0)
            fe.seek(0)
            out, err = fo.read(), fe.read()
            fo.close()
            fe.close()
            del running[name]
            mark = out.rfind(MARK)
            if code != 0 or mark < 0:
                done[name] = {"infra": f"worker exit {code}: {err[-1500:]}"}
            else:
                done[name] = json.loads(out[mark + len(MARK):])
    return done


# --------------------------------------------------------------------------- histories


def _call(cls, nc, np_, phsp, L="int:0", d="num:1", par=1, hat=0):
    c = {"cls": cls, "nc": nc, "np": np_, "par": int(par), "hat": int(hat), "phsp": phsp, "L": L, "d": d}
    if cls == "nrK":
        c["hat"] = 0
    c["key"] = H.call_key(c)
    return c


def fixed_histories():
    h1 = [  # functions sharing ONE qualified name: complex convention first, real one second (same L / radius)
        _call("relK", 2, 2, "lambda:cm:a"),
        _call("relK", 2, 2, "lambda:psf:a"),
        _call("relK", 2, 2, "closure:z0:a", hat=1),
        _call("relK", 2, 2, "closure:k0:a", hat=1),
        _call("relK", 1, 2, "closure:z1:a", L="int:1"),
        _call("relK", 1, 2, "closure:k1:a", L="int:1"),
        _call("relK", 2, 1, "lambda:cm:b", L="sym:L_a", d="sym:d_a", hat=1),
        _call("relK", 2, 1, "lambda:abs:a", L="sym:L_a", d="sym:d_a"),
        _call("nrK", 2, 2, "lambda:psf:a"),
        _call("relK", 1, 1, "closure:cm:b", L="int:2", d="num:3/2"),
        _call("relK", 1, 1, "closure:psf:b", L="int:2", d="num:3/2"),
        _call("relK", 2, 2, "lambda:psf:a"),  # the same call once more
        _call("relK", 2, 2, "lambda:k0:b"),
        _call("relK", 2, 2, "closure:z0:b", par=0, hat=1),
        _call("relK", 2, 2, "closure:psf:a"),
    ]
    h2 = [  # classes, differently named functions, partials, callable instances, bound methods
        _call("relK", 2, 2, "class:cm"),
        _call("relK", 2, 2, "class:psf"),
        _call("relK", 2, 2, "class:abs", hat=1),
        _call("relK", 2, 1, "named:cm:a", L="int:1"),
        _call("relK", 2, 1, "named:psf:a", L="int:1"),
        _call("relK", 1, 2, "partial:z0:a", d="sym:d_b"),
        _call("relK", 1, 2, "partial:k0:a", d="sym:d_b"),
        _call("relK", 1, 2, "partial:k0:b", d="sym:d_b", hat=1),
        _call("relK", 2, 2, "callable:z1:a", L="sym:L_b"),
        _call("relK", 2, 2, "callable:k1:a", L="sym:L_b"),
        _call("relK", 1, 1, "method:cm:a"),
        _call("relK", 1, 1, "method:psf:a"),
        _call("relK", 1, 1, "method:psf:b", hat=1),
        _call("nrK", 2, 1, "class:psf"),
        _call("nrK", 1, 2, "partial:z0:a"),
        _call("relK", 2, 1, "class:cplx", L="int:2", d="num:3/2"),
        _call("relK", 2, 1, "class:abs", L="int:2", d="num:3/2"),
        _call("relK", 1, 1, "class:psf", par=0),
        _call("nrK", 2, 2, "class:psf", par=0),
    ]
    return [("one-qualname-complex-then-real", h1), ("classes-named-partials-callables", h2)]


def random_history(rng, n_calls: int):
    pool = factor_pool()
    calls, prev = [], None
    for _ in range(n_calls):
        cls = rng.choice(["relK"] * 6 + ["nrK"])
        nc, np_ = rng.choice([(1, 1), (1, 2), (2, 1), (2, 2), (2, 2)])
        if prev is not None and rng.random() < 0.7:
            # provoke a meeting in the cache: same L / radius, a DIFFERENT object of the same family, the other
            # kind of convention (complex <-> real) two times out of three
            fam, pf = prev["phsp"].split(":")[0], prev["phsp"].split(":")[1]
            cands = [p for p in pool if p.split(":")[0] == fam and p != prev["phsp"]] or pool
            flip = [p for p in cands if (p.split(":")[1] in COMPLEX_FORMULAS) != (pf in COMPLEX_FORMULAS)]
            phsp = rng.choice(flip if flip and rng.random() < 0.67 else cands)
            L, d = prev["L"], prev["d"]
            if rng.random() < 0.5:
                nc, np_ = prev["nc"], prev["np"]
        else:
            phsp, L, d = rng.choice(pool), rng.choice(H.L_TABLE), rng.choice(H.D_TABLE)
        c = _call(cls, nc, np_, phsp, L=L, d=d, par=rng.random() < 0.9, hat=rng.random() < 0.4)
        calls.append(c)
        if cls == "relK" and c["par"]:
            prev = c
    return calls


def plan(rng, tier: str):
    hists = fixed_histories()
    n_rand, n_calls = (2, 8) if tier == "quick" else (10, 14)
    for i in range(n_rand):
        hists.append((f"random-{i}", random_history(rng, n_calls)))
    return hists


# --------------------------------------------------------------------------- parent side

HISTORY_CLASS = "K-matrix formulated after other models in the same process (call history)"


def _judge_points(r: dict, ctx: dict, bad: list, stats: dict) -> None:
    c = ctx["call"]
    for pt in r.get("points", []):
        if "deviation" not in pt:
            stats["skipped"] += 1
            continue
        stats["points"] += 1
        if pt["deviation"] > RESID_TOL:
            bad.append({"what": "the T-matrix is not K(1 − iρK)⁻¹ of the documented parametrisation with the phase-space "
                                "factor / L / radius passed to this call (call history in one process)", **ctx, **pt})
        stats["worst_deviation"] = max(stats["worst_deviation"], pt["deviation"])
        if "hypotheses_hold" not in pt:  # parametrize=False: residual only
            continue
        if not pt["hypotheses_hold"]:
            stats["hypotheses_fail(complex factor)"] += 1
            continue
        stats["hypotheses_hold"] += 1
        ratio = max(pt["unitarity_defect"], pt["symmetry_defect"]) / pt["tolerance"]
        if ratio > 1:
            what = "S†S ≠ 1" if pt["unitarity_defect"] > pt["tolerance"] else "T ≠ Tᵀ"
            bad.append({"what": what + " for a model formulated after other models in the same process, although the phase-space "
                                       "factor passed to THIS call is real and positive at s and at every pole mass", **ctx, **pt})
        else:
            stats["worst_defect_over_tol"] = max(stats["worst_defect_over_tol"], ratio)
        _ = c


def run(chk, rng, tier: str, seed: int):  # noqa: C901, PLR0912, PLR0915
    """History correspondence (Lean state machine) + history oracle. Returns failing inputs; broken
    correspondences are recorded on `chk`."""
    from tools.lib import common

    t0 = time.time()
    hists = plan(rng, tier)
    jobs = {}
    n_fresh = 30 if tier == "quick" else 200
    fresh_calls = []
    for name, calls in hists:
        base = {"seed": seed, "points": 1 if tier == "quick" else 2, "numeric": True}
        jobs[f"fwd:{name}"] = {**base, "calls": calls}
        jobs[f"rev:{name}"] = {**base, "calls": list(reversed(calls))}
        seen = set()
        for c in calls:
            if not (c["cls"] == "relK" and c["par"]):
                continue
            k = (c["phsp"].split(":")[0], c["L"], c["d"])
            if k in seen:
                fresh_calls.append((name, c, True))
            seen.add(k)
        fresh_calls += [(name, c, False) for c in calls]
    chosen, keys = [], set()
    for name, c, _prio in sorted(fresh_calls, key=lambda x: not x[2]):
        if c["key"] not in keys and len(chosen) < n_fresh:
            keys.add(c["key"])
            chosen.append((name, c))
    for name, c in chosen:
        jobs[f"fresh:{c['key']}"] = {"seed": seed, "calls": [c], "numeric": False}
    jobs["obs:twin-classes"] = {"extra_factors": ["twinclass:z0:a", "twinclass:k0:a"], "seed": seed, "numeric": True, "points": 1,
                                "calls": [_call("relK", 2, 2, "twinclass:z0:a"), _call("relK", 2, 2, "twinclass:k0:a")]}
    done = run_jobs(jobs)
    infra = {k: v["infra"] for k, v in done.items() if isinstance(v, dict) and "infra" in v}
    if infra:
        raise common.InfraError("C09 history workers failed: " + json.dumps(infra)[:1500])
    trees = {v["ampform"] for v in done.values()}
    chk.info("history_workers", {"processes": len(jobs), "ampform_imported_from": sorted(trees),
                                 "seconds": round(time.time() - t0, 1)})

    bad: list = []
    dist: dict = {}
    reg = Registry()
    fresh_res = {k[len("fresh:"):]: v["results"][0] for k, v in done.items() if k.startswith("fresh:")}
    lean_lines, expect_real = [], []
    stats = {"points": 0, "skipped": 0, "hypotheses_hold": 0, "hypotheses_fail(complex factor)": 0,
             "worst_deviation": 0.0, "worst_defect_over_tol": 0.0}
    n_calls = n_cmp_rev = n_cmp_fresh = 0
    for name, calls in hists:
        for direction in ("fwd", "rev"):
            order = calls if direction == "fwd" else list(reversed(calls))
            res = done[f"{direction}:{name}"]["results"]
            other = {r["key"]: r for r in done[f"{'rev' if direction == 'fwd' else 'fwd'}:{name}"]["results"]}
            lean_lines.append("process")
            first_digest: dict = {}
            for idx, (c, r) in enumerate(zip(order, res)):
                n_calls += 1
                fam, formula = c["phsp"].split(":")[:2]
                kind = "complex" if formula in COMPLEX_FORMULAS else "real"
                dist[f"{c['cls']}:{fam}:{kind}"] = dist.get(f"{c['cls']}:{fam}:{kind}", 0) + 1
                ctx = {"history": f"{name} ({'as planned' if direction == 'fwd' else 'reversed'})", "call_index": idx, "call": c,
                       "class": H.CLS_NAMES[c["cls"]], "history_payload": jobs[f"{direction}:{name}"]}
                lean_lines.append(reg.lean_call(c))
                if r.get("error"):
                    bad.append({"what": "formulate raised / did not return in a call history", **ctx, "error": r["error"]})
                    expect_real.append((ctx["history"], idx, c, "error"))
                    continue
                expect_real.append((ctx["history"], idx, c, r["line"]))
                chk.count(("history", name, direction, idx, c["key"]))
                if r["occ_bad"]:
                    bad.append({"what": "a phase-space factor / L / radius that was NOT passed to this formulate() call occurs in "
                                        "its result (call history in one process)", **ctx, "found": r["occ_bad"][:6]})
                if r.get("eval_error"):
                    bad.append({"what": "the result cannot be evaluated numerically with the arguments that were passed "
                                        "(call history in one process)", **ctx, "error": r["eval_error"]})
                _judge_points(r, ctx, bad, stats)
                if c["key"] in first_digest and first_digest[c["key"]] != r["digest"]:
                    bad.append({"what": "the same formulate() call returns a different expression later in the same process", **ctx})
                first_digest.setdefault(c["key"], r["digest"])
                if direction == "fwd" and c["key"] in other and not other[c["key"]].get("error"):
                    n_cmp_rev += 1
                    if other[c["key"]]["digest"] != r["digest"]:
                        bad.append({"what": "formulate() depends on the calls made before it in the process (same call, history "
                                            "reversed: different expression)", **ctx, "skeleton_here": r["line"],
                                    "skeleton_reversed_history": other[c["key"]]["line"]})
                fr = fresh_res.get(c["key"])
                if fr is not None and not fr.get("error"):
                    n_cmp_fresh += 1
                    if fr["digest"] != r["digest"]:
                        bad.append({"what": "formulate() depends on the calls made before it in the process (differs from the "
                                            "same call in a fresh process)", **ctx, "skeleton_here": r["line"],
                                    "skeleton_fresh_process": fr["line"]})
    for name, c in chosen:
        fr = fresh_res[c["key"]]
        lean_lines += ["process", reg.lean_call(c)]
        expect_real.append((f"fresh:{name}", 0, c, fr.get("line", "error")))
        if fr.get("error"):
            bad.append({"what": "formulate raised / did not return in a fresh process", "history": "fresh process", "call": c,
                        "class": H.CLS_NAMES[c["cls"]], "error": fr["error"],
                        "history_payload": jobs[f"fresh:{c['key']}"], "call_index": 0})
        elif fr.get("occ_bad"):
            bad.append({"what": "a phase-space factor / L / radius that was NOT passed to this formulate() call occurs in its result",
                        "history": "fresh process", "call": c, "class": H.CLS_NAMES[c["cls"]], "found": fr["occ_bad"][:6],
                        "history_payload": jobs[f"fresh:{c['key']}"], "call_index": 0})
    try:
        out = common.lean_run("Ampverif/Drivers/C09History.lean", "\n".join(lean_lines) + "\n")
        model = [ln for ln in out.split("\n") if ln.strip()]
        if len(model) != len(expect_real):
            chk.broken_correspondence("history", f"driver returned {len(model)} lines for {len(expect_real)} calls")
        else:
            mism = 0
            for (name, idx, c, real), want in zip(expect_real, model):
                if real.strip() != want.strip():
                    mism += 1
                    if mism <= 3:
                        chk.broken_correspondence("history", {"history": name, "call_index": idx, "call": c,
                                                              "real": real, "model": want})
            chk.info("history_mismatches", mism)
            if len(expect_real) > 1:
                chk.sample({"history_call": expect_real[1][2]["key"], "real": expect_real[1][3], "model": model[1]})
    except common.LeanRunError as e:
        chk.broken_correspondence("history", f"Lean driver failed: {e}"[:600])
    # observation (behaviour of the UNCHANGED library, notes/findings_C09.md F2): outside the verdict
    obs = chk.coverage.setdefault("observations", [])
    for r in done["obs:twin-classes"]["results"]:
        pts = [p for p in r.get("points", []) if "deviation" in p]
        obs.append({"input": "two different phase-space CLASSES with one qualified name (complex first, real second) formulated one "
                             "after the other in one process (notes/findings_C09.md F2)", "call": r["key"],
                    "foreign_occurrences": len(r.get("occ_bad", [])), "error": r.get("error") or r.get("eval_error"),
                    "points": [{k: p.get(k) for k in ("hypotheses_hold", "unitarity_defect", "symmetry_defect", "tolerance",
                                                      "deviation")} for p in pts]})
    chk.info("history_oracle", {
        "histories": [{"name": n, "calls": len(h)} for n, h in hists], "calls_incl_reversed": n_calls,
        "distribution_class_x_factor_kind_x_convention": dist, "statement": stats, "unitarity_tolerance": UNIT_TOL,
        "residual_tolerance": RESID_TOL, "compared_with_reversed_history": n_cmp_rev,
        "compared_with_fresh_process": n_cmp_fresh, "fresh_processes": len(chosen),
        "seconds": round(time.time() - t0, 1)})
    chk.count(("history-oracle", n_calls, stats["points"]), stats["points"] + n_cmp_rev + n_cmp_fresh)
    return bad


def replay_history(case: dict) -> int:
    """Re-run the stored history in a new process and the failing call alone in a fresh one."""
    payload = dict(case["history_payload"])
    payload["numeric"] = True
    c = case["call"]
    done = run_jobs({"fwd": payload, "fresh": {**payload, "calls": [c]}})
    for v in done.values():
        if "infra" in v:
            print(v["infra"])
            return 2
    r = done["fwd"]["results"][case["call_index"]]
    fr = done["fresh"]["results"][0]
    pts = [p for p in r.get("points", []) if "deviation" in p]
    bad_pts = [p for p in pts if p["deviation"] > RESID_TOL or (
        p.get("hypotheses_hold") and max(p["unitarity_defect"], p["symmetry_defect"]) > p["tolerance"])]
    print(json.dumps({"call": c["key"], "in_history": r.get("line"), "fresh_process": fr.get("line"),
                      "foreign_occurrences": r.get("occ_bad"),
                      "points": [{k: p.get(k) for k in ("hypotheses_hold", "unitarity_defect", "symmetry_defect", "tolerance",
                                                        "deviation")} for p in pts],
                      "same_as_fresh": r.get("digest") == fr.get("digest"), "error": r.get("error")}, indent=1))
    ok = (not r.get("error") and not r.get("eval_error") and not r.get("occ_bad") and not bad_pts
          and r.get("digest") == fr.get("digest"))
    if not ok:
        print("VIOLATION property=C09 replay=<given file>")
    return 0 if ok else 1


if __name__ == "__main__":
    # run inside the properly named module (one copy of the harness classes / functions per process)
    sys.path.insert(0, os.getcwd())
    from tools.corr import C09_history as _self

    _self._worker_main()
