"""C04 — T2 correspondence: frame-chain descriptors and Wigner-D calls of the REAL code vs the
executable Lean model `Model/C04Frames.lean`, through the line protocol.

The real `compute_helicity_angles` trees (`Phi/Theta(ArrayMultiplication(BoostZMatrix, RotationYMatrix,
RotationZMatrix, …, ArraySum(…)))`) are printed with a printer that knows exactly the node types
below; anything else is printed as `(expr …)` and therefore disagrees with the model (= broken
correspondence, never silently skipped). No floats cross the protocol.
"""

from __future__ import annotations

import itertools

from tools.lib import common

MODEL_FILE = "Ampverif/Drivers/C04Frames.lean"


# ----------------------------------------------------------------------------- printing real trees


def descr(e) -> str:  # noqa: C901, PLR0911
    import sympy as sp

    from ampform.kinematics import lorentz as lz
    from ampform.kinematics.angles import Phi, Theta
    from ampform.sympy._array_expressions import ArrayMultiplication, ArraySum, ArraySymbol

    if isinstance(e, ArraySymbol):
        return str(e.name if hasattr(e, "name") else e)
    if isinstance(e, ArraySum):
        return "(sum " + " ".join(descr(a) for a in e.args) + ")"
    if isinstance(e, ArrayMultiplication):
        return "(amul " + " ".join(descr(a) for a in e.args) + ")"
    if isinstance(e, Phi):
        return "(Phi " + descr(e.args[0]) + ")"
    if isinstance(e, Theta):
        return "(Theta " + descr(e.args[0]) + ")"
    if isinstance(e, lz.BoostZMatrix):
        beta, n = e.args
        return "(Bz " + _beta(beta) + ")" + _nev(n)
    if isinstance(e, lz.RotationYMatrix):
        return "(Ry " + descr(e.args[0]) + ")" + _nev(e.args[1])
    if isinstance(e, lz.RotationZMatrix):
        return "(Rz " + descr(e.args[0]) + ")" + _nev(e.args[1])
    if isinstance(e, sp.Mul) and len(e.args) == 2 and e.args[0] == -1:
        return "(neg " + descr(e.args[1]) + ")"
    return "(expr " + str(e).replace(" ", "") + ")"


def _beta(beta) -> str:
    from ampform.kinematics import lorentz as lz

    energies = [a for a in beta.atoms(lz.Energy)]
    for en in energies:
        s = en.args[0]
        if beta == lz.three_momentum_norm(s) / lz.Energy(s):
            return "(beta " + descr(s) + ")"
    return "(expr " + str(beta).replace(" ", "") + ")"


def _nev(n) -> str:
    from ampform.kinematics import lorentz as lz
    from ampform.sympy._array_expressions import ArraySymbol

    if isinstance(n, lz.ArraySize) and isinstance(n.args[0], ArraySymbol):
        return ""
    return "[n_events=" + str(n).replace(" ", "") + "]"


def topo_line(topology) -> str:
    toks = []
    for eid in sorted(topology.edges):
        e = topology.edges[eid]
        o = "-" if e.originating_node_id is None else str(e.originating_node_id)
        t = "-" if e.ending_node_id is None else str(e.ending_node_id)
        toks.append(f"{eid}:{o}:{t}")
    return "topo " + " ".join(toks)


def real_angles(topology) -> list[str]:
    from ampform.kinematics.angles import compute_helicity_angles
    from ampform.kinematics.lorentz import create_four_momentum_symbols

    ang = compute_helicity_angles(create_four_momentum_symbols(topology), topology)
    return sorted(f"A {s.name}={descr(x)}" for s, x in ang.items())


def real_wigner(transition, node_id) -> tuple[str, str]:
    """(request line, canonical reply of the real code) for one node of one transition."""
    import sympy as sp

    from ampform.helicity import formulate_isobar_wigner_d

    top = transition.topology
    parent = next(iter(top.get_edge_ids_ingoing_to_node(node_id)))
    kids = sorted(top.get_edge_ids_outgoing_from_node(node_id))
    st = transition.states
    two = lambda x: int(round(2 * float(x)))  # noqa: E731
    req = (f"wigner {two(st[parent].particle.spin)} {two(st[parent].spin_projection)} "
           + " ".join(f"{k}:{two(st[k].spin_projection)}" for k in kids))
    d = formulate_isobar_wigner_d(transition, node_id)
    j, m, mp, al, be, ga = d.args

    def ang(x):
        if isinstance(x, sp.Symbol):
            return x.name
        if isinstance(x, sp.Mul) and len(x.args) == 2 and x.args[0] == -1 and isinstance(x.args[1], sp.Symbol):
            return "-" + x.args[1].name
        return str(x).replace(" ", "")

    rep = f"D {two(j)} {two(m)} {two(mp)} alpha={ang(al)} beta={ang(be)} gamma={ang(ga)}"
    return req, rep


def dummy_transition(topology):
    """A transition on `topology` with hand-made states: every final state a massive spin-1 particle
    (so that every alignment chain is non-trivial), spin-1 resonances and initial state."""
    from qrules.particle import Particle
    from qrules.quantum_numbers import InteractionProperties
    from qrules.topology import FrozenTransition
    from qrules.transition import State

    states = {}
    for eid in topology.edges:
        p = Particle(name=f"x{eid}".replace("-", "m"), pid=9500 + eid, spin=1, mass=1.0 + 0.1 * (eid + 1), width=0.1)
        states[eid] = State(p, 0.0)
    return FrozenTransition(topology, states, {n: InteractionProperties() for n in topology.nodes})


def real_oppsign(topology, state_id) -> tuple[str, list[str]]:
    from ampform.helicity.align.axisangle import get_opposite_helicity_sign

    return f"oppsign {state_id}", [f"sign {get_opposite_helicity_sign(topology, state_id)}"]


def real_chain(transition, state_id) -> tuple[str, list[str]]:
    """(request, canonical reply) for the axis-angle alignment sum of one final state."""
    from sympy.physics.quantum.spin import WignerD

    from ampform.helicity.align.axisangle import formulate_rotation_chain
    from ampform.helicity.naming import get_helicity_suffix

    top = transition.topology
    two = lambda x: int(round(2 * float(x)))  # noqa: E731
    sfx = get_helicity_suffix(top, state_id)
    req = f"chain {state_id} {two(transition.states[state_id].particle.spin)} {sfx}"
    ps = formulate_rotation_chain(transition, state_id)
    out = []
    for d in ps.expression.atoms(WignerD):
        j, m, mp, al, be, ga = d.args
        nm = lambda x: str(x).replace(" ", "")  # noqa: E731
        out.append(f"D {two(j)} m={nm(m)} mp={nm(mp)} alpha={nm(al)} beta={nm(be)} gamma={nm(ga)}")
    return req, [*sorted(out), "end"]


def descr_w(e) -> str:
    """Descriptor of the Wigner rotation matrix tree (`compute_wigner_rotation_matrix`): strict — anything
    that is not a MatrixMultiplication of BoostMatrix nodes over (boosted) sums of momentum symbols prints
    as `(expr …)` and therefore disagrees with the model."""
    from ampform.kinematics import lorentz as lz
    from ampform.sympy._array_expressions import (
        ArrayMultiplication,
        ArraySum,
        ArraySymbol,
        MatrixMultiplication,
    )

    if isinstance(e, MatrixMultiplication):
        return "(mmul " + " ".join(descr_w(a) for a in e.args) + ")"
    if isinstance(e, lz.BoostMatrix):
        extra = _nev(e.args[1]) if len(e.args) > 1 else ""
        return "(B " + descr_w(e.args[0]) + ")" + extra
    if isinstance(e, lz.NegativeMomentum):
        return "(negp " + descr_w(e.args[0]) + ")"
    if isinstance(e, ArrayMultiplication):
        return "(amul " + " ".join(descr_w(a) for a in e.args) + ")"
    if isinstance(e, ArraySum):
        return "(sum " + " ".join(descr_w(a) for a in e.args) + ")"
    if isinstance(e, ArraySymbol):
        return str(e.name if hasattr(e, "name") else e)
    return "(expr " + str(e).replace(" ", "") + ")"


def real_wchain(topology, state_id) -> tuple[str, list[str]]:
    """(request, canonical reply): the Wigner rotation matrix of final state `state_id`, and — checked here,
    on the real objects — that `compute_wigner_angles` slices exactly that matrix at the documented entries."""
    import sympy as sp

    from ampform.kinematics.angles import compute_wigner_angles, compute_wigner_rotation_matrix
    from ampform.kinematics.lorentz import compute_boost_chain, create_four_momentum_symbols
    from ampform.sympy._array_expressions import ArraySlice
    from tools.translate import c04_ext

    momenta = create_four_momentum_symbols(topology)
    w = compute_wigner_rotation_matrix(topology, momenta, state_id)
    n = len(compute_boost_chain(topology, momenta, state_id))
    rep = f"W {n} {descr_w(w)}"
    angles = compute_wigner_angles(topology, momenta, state_id)
    slices = []
    for sym, expr in angles.items():
        for s in sorted(expr.atoms(ArraySlice), key=str):
            idx = tuple(s.args[1])
            ok = (s.args[0] == w and len(idx) == 3 and c04_ext._full_slice(idx[0])
                  and all(isinstance(k, (int, sp.Integer)) for k in idx[1:]))
            slices.append((sym.name.split("_")[0], tuple(int(k) for k in idx[1:]) if ok else "foreign"))
    rep_s = "slices " + " ".join(f"{a}:{b}" for a, b in sorted(slices, key=str))
    return f"wchain {state_id}", [rep, rep_s]


EXPECTED_WIGNER_SLICES = ("slices alpha:(3, 1) alpha:(3, 2) beta:(3, 3) gamma:(1, 3) gamma:(2, 3)")


# ----------------------------------------------------------------------------- inputs


def isobar_topologies(n_final: int):
    from qrules.topology import create_isobar_topologies

    return list(create_isobar_topologies(n_final))


def relabelled(topology, perm: dict):
    return topology.relabel_edges(perm)


def run(chk: common.Check, rng, tier: str, reactions: dict) -> dict:
    """reactions: name -> qrules ReactionInfo (corpus). Returns statistics."""
    from tools.search.C04_oracle import topology_facts  # independent classifier (python)

    lines, expect, labels = [], [], []
    stats = {"topologies": 0, "wigner_calls": 0, "alignment_chains": 0, "opposite_signs": 0,
             "spectators_recoiling_against_a_resonance": 0, "by_final_states": {}, "relabelled": 0,
             "with_decaying_opposite_child": 0, "both_children_decay": 0}

    def add_topology(top, label, with_chains=True):
        facts = topology_facts(top)
        lines.append(topo_line(top))
        expect.append(["ok " + str(len(top.edges))])
        labels.append(label + " topo")
        lines.append("angles")
        expect.append([*real_angles(top), "end"])
        labels.append(label + " angles")
        lines.append("oppdecay")
        # two independent opinions must agree with the model: the oracle's classifier and ampform's own
        from ampform.helicity.decay import is_opposite_helicity_state

        amp = any(
            top.edges[i].ending_node_id is not None and top.edges[i].originating_node_id is not None
            and is_opposite_helicity_state(top, i) for i in top.edges)
        if amp != facts["decaying_opposite_helicity_child"]:
            chk.broken_correspondence("opposite-helicity classifier", {"topology": label, "ampform": amp,
                                                                      "oracle": facts["decaying_opposite_helicity_child"]})
        expect.append([f"oppdecay {'true' if amp else 'false'}"])
        labels.append(label + " oppdecay")
        # alignment: sign of every outer helicity and the rotation chain of every final state (all topologies,
        # all relabellings: every choice of which child is the helicity state, spectators recoiling against a resonance)
        for sid in [*sorted(top.incoming_edge_ids), *sorted(top.outgoing_edge_ids)]:
            req, rep = real_oppsign(top, sid)
            lines.append(req)
            expect.append(rep)
            labels.append(f"{label} {req}")
            stats["opposite_signs"] += 1
            e = top.edges[sid]
            if e.originating_node_id is not None:
                sib = [c for c in top.get_edge_ids_outgoing_from_node(e.originating_node_id) if c != sid]
                if sib and top.edges[sib[0]].ending_node_id is not None:
                    stats["spectators_recoiling_against_a_resonance"] += 1
            chk.count(("oppsign", label, sid))
        # Wigner rotation matrix of every final state (axis-angle alignment): boost chain wiring
        for sid in sorted(top.outgoing_edge_ids):
            req, (rep, rep_s) = real_wchain(top, sid)
            lines.append(req)
            expect.append([rep])
            labels.append(f"{label} {req}")
            stats["wigner_matrices"] = stats.get("wigner_matrices", 0) + 1
            depth = rep.split(" ")[1]
            stats.setdefault("wigner_chain_lengths", {})
            stats["wigner_chain_lengths"][depth] = stats["wigner_chain_lengths"].get(depth, 0) + 1
            if rep_s != EXPECTED_WIGNER_SLICES:
                chk.broken_correspondence("compute_wigner_angles slices", {"case": f"{label} state {sid}",
                                                                           "real": rep_s, "expected": EXPECTED_WIGNER_SLICES})
            chk.count(("wchain", label, sid))
        if with_chains:
            dt = dummy_transition(top)
            for sid in sorted(top.outgoing_edge_ids):
                req, rep = real_chain(dt, sid)
                lines.append(req)
                expect.append(rep)
                labels.append(f"{label} {req}")
                stats["alignment_chains"] += 1
        stats["topologies"] += 1
        stats["by_final_states"][facts["n_final"]] = stats["by_final_states"].get(facts["n_final"], 0) + 1
        stats["with_decaying_opposite_child"] += int(facts["decaying_opposite_helicity_child"])
        stats["both_children_decay"] += int(facts["both_children_decay"])
        chk.count(("topology", label, facts["shape"]))

    # 1. the real reactions of the corpus: every topology, every transition's D-functions
    for name, reaction in reactions.items():
        tops = []
        for t in reaction.transitions:
            if t.topology not in tops:
                tops.append(t.topology)
        for k, top in enumerate(tops):
            add_topology(top, f"{name}#{k}")
            seen = set()
            trs = [t for t in reaction.transitions if t.topology == top]
            if tier == "quick":
                trs = trs[:: max(1, len(trs) // 6)]
            # axis-angle alignment wiring: which angle symbols each Wigner-D of the rotation chain uses
            first = next(t for t in reaction.transitions if t.topology == top)
            for sid in sorted(top.outgoing_edge_ids):
                req, rep = real_chain(first, sid)
                lines.append(req)
                expect.append(rep)
                labels.append(f"{name}#{k} {req}")
                stats["alignment_chains"] += 1
                chk.count(("chain", name, k, req))
            for tr in trs:
                for node in sorted(top.nodes):
                    req, rep = real_wigner(tr, node)
                    if req in seen:
                        continue
                    seen.add(req)
                    lines.append(req)
                    expect.append([rep])
                    labels.append(f"{name}#{k} {req}")
                    stats["wigner_calls"] += 1
                    chk.count(("wigner", name, k, req))
    # 2. all isobar topologies, plus seeded relabellings of the final-state ids
    sizes = [3, 4] if tier == "quick" else [3, 4, 5]
    for n in sizes:
        tops = isobar_topologies(n)
        for k, top in enumerate(tops):
            add_topology(top, f"isobar{n}#{k}")
            ids = sorted(top.outgoing_edge_ids)
            perms = list(itertools.permutations(ids))
            n_perm = {3: 5, 4: 6, 5: 4}[n] if tier == "quick" else {3: 5, 4: 23, 5: 30}[n]
            picks = perms[1:] if len(perms) - 1 <= n_perm else rng.sample(perms[1:], n_perm)
            for pm in picks:
                mapping = dict(zip(ids, pm))
                add_topology(relabelled(top, mapping), f"isobar{n}#{k}/perm{''.join(map(str, pm))}")
                stats["relabelled"] += 1
    out = common.lean_run(MODEL_FILE, "\n".join(lines) + "\n").split("\n")
    if out and out[-1] == "":
        out.pop()
    pos = 0
    mismatches = 0
    for line, exp, lab in zip(lines, expect, labels):
        got = out[pos: pos + len(exp)] if line != "angles" else None
        if line == "angles" or line.startswith("chain "):
            try:
                end = out.index("end", pos)
            except ValueError:
                end = len(out) - 1
            got = out[pos: end + 1]
            pos = end + 1
        else:
            pos += len(exp)
        if got != exp:
            mismatches += 1
            if mismatches <= 3:
                diff = [(a, b) for a, b in itertools.zip_longest(exp, got) if a != b][:4]
                chk.broken_correspondence("frame-chain / Wigner-D correspondence",
                                          {"case": lab, "request": line, "real_vs_model": diff})
    stats["mismatches"] = mismatches
    stats["requests"] = len(lines)
    return stats
