"""C07 correspondence: real ampform kinematic-variable expressions  <->  Lean topology model M2.

* `DescriptorParser` turns the REAL expression trees
      Phi/Theta(ArrayMultiplication(BoostZMatrix, RotationYMatrix, RotationZMatrix, …, ArraySum(p_i…)))
      InvariantMass(ArraySum(p_i…))
  into descriptors (chain of subsystems boosted into, target ids). It knows exactly these node
  shapes and raises `ParseAbort` on anything else (a parse abort is a correspondence failure).
* `topo_line` / `run_lean` speak the line protocol of `lean/Ampverif/Drivers/C07.lean`.
* `PySpec` is a small independent reading of a topology as nested frozensets (used by the
  numeric oracle and by the known-finding signature check; it does not look at the Lean model).
"""

from __future__ import annotations

import itertools

from tools.lib import common

DRIVER = "Ampverif/Drivers/C07.lean"


class ParseAbort(Exception):
    pass


# --------------------------------------------------------------------------- canonical forms


def show_ids(ids) -> str:
    return ".".join(str(i) for i in sorted(ids))


def show_desc(chain, target) -> str:
    return ">".join(show_ids(s) for s in chain) + "@" + show_ids(target)


def show_def(kind: str, chain, target) -> str:
    if kind == "M":
        return "M:" + show_ids(target)
    return f"{kind}:" + show_desc(chain, target)


def show_dict(items) -> str:
    return ";".join(f"{k}={v}" for k, v in items)


def topo_line(n: int, topology) -> str:
    def f(x):
        return "-" if x is None else str(x)

    return f"topo {n} " + " ".join(
        f"{i}:{f(e.originating_node_id)}:{f(e.ending_node_id)}" for i, e in topology.edges.items()
    )


def canonical_topo(topology) -> str:
    def f(x):
        return "-" if x is None else str(x)

    return " ".join(
        f"{i}:{f(e.originating_node_id)}:{f(e.ending_node_id)}" for i, e in sorted(topology.edges.items())
    )


# --------------------------------------------------------------------------- the parser


class DescriptorParser:
    """Strict parser of the real expression trees (classes taken from the tree under test)."""

    def __init__(self):
        import sympy as sp

        from ampform.kinematics import angles, lorentz
        from ampform.sympy import _array_expressions as ae

        self.sp = sp
        self.Phi, self.Theta = angles.Phi, angles.Theta
        self.L = lorentz
        self.ae = ae
        self.cache: dict = {}

    # a four-momentum valued term -> (chain, ids)
    def momentum(self, e):
        key = e
        if key in self.cache:
            return self.cache[key]
        r = self._momentum(e)
        self.cache[key] = r
        return r

    def _symbol_id(self, e) -> int:
        name = e.name if hasattr(e, "name") else str(e)
        name = str(name)
        if not (name.startswith("p") and name[1:].isdigit()):
            raise ParseAbort(f"momentum symbol with unexpected name {name!r}")
        return int(name[1:])

    def _momentum(self, e):
        ae, L = self.ae, self.L
        if type(e) is ae.ArraySymbol:
            return ((), frozenset([self._symbol_id(e)]))
        if type(e) is ae.ArraySum:
            if not e.args:
                raise ParseAbort("empty ArraySum")
            parts = [self.momentum(a) for a in e.args]
            chain = parts[0][0]
            ids: set = set()
            for c, s in parts:
                if c != chain:
                    raise ParseAbort("ArraySum of momenta in different frames")
                if ids & s:
                    raise ParseAbort("a momentum occurs twice in an ArraySum")
                ids |= s
            return (chain, frozenset(ids))
        if type(e) is ae.ArrayMultiplication:
            if len(e.args) != 4:
                raise ParseAbort(f"ArrayMultiplication with {len(e.args)} factors")
            bz, ry, rz, inner = e.args
            if type(bz) is not L.BoostZMatrix or type(ry) is not L.RotationYMatrix or type(rz) is not L.RotationZMatrix:
                raise ParseAbort(
                    "expected BoostZMatrix·RotationYMatrix·RotationZMatrix·p, got "
                    + "·".join(type(a).__name__ for a in e.args))
            frame = self._frame_of_beta(bz.args[0])
            self._check_n_events(bz.args[1])
            self._check_n_events(ry.args[1])
            self._check_n_events(rz.args[1])
            self._check_minus_angle(ry.args[0], self.Theta, frame)
            self._check_minus_angle(rz.args[0], self.Phi, frame)
            fchain, fids = self.momentum(frame)
            ichain, iids = self.momentum(inner)
            if fchain != ichain:
                raise ParseAbort("boost frame and boosted momentum are given in different frames")
            if not iids <= fids:
                raise ParseAbort("boosted momentum is not part of the subsystem it is boosted into")
            return ((*ichain, fids), iids)
        raise ParseAbort(f"unexpected four-momentum node {type(e).__name__}")

    def _check_n_events(self, n):
        L, ae = self.L, self.ae
        if type(n) is not L.ArraySize or len(n.args) != 1 or type(n.args[0]) is not ae.ArraySymbol:
            raise ParseAbort(f"unexpected n_events argument {n!r}"[:200])
        self._symbol_id(n.args[0])

    def _check_minus_angle(self, a, cls, frame):
        sp = self.sp
        if not (isinstance(a, sp.Mul) and len(a.args) == 2 and a.args[0] == -1 and type(a.args[1]) is cls
                and len(a.args[1].args) == 1 and a.args[1].args[0] == frame):
            raise ParseAbort(f"rotation angle is not -{cls.__name__}(frame momentum): {str(a)[:120]}")

    def _frame_of_beta(self, beta):
        """beta must be EuclideanNorm(ThreeMomentum(F)) / Energy(F); returns F."""
        sp, L = self.sp, self.L
        if not (isinstance(beta, sp.Mul) and len(beta.args) == 2):
            raise ParseAbort(f"beta is not |p|/E: {str(beta)[:120]}")
        inv = [a for a in beta.args if isinstance(a, sp.Pow)]
        norm = [a for a in beta.args if type(a) is L.EuclideanNorm]
        if len(inv) != 1 or len(norm) != 1:
            raise ParseAbort(f"beta is not |p|/E: {str(beta)[:120]}")
        base, ex = inv[0].args
        if ex != -1 or type(base) is not L.Energy:
            raise ParseAbort(f"beta is not |p|/E: {str(beta)[:120]}")
        three = norm[0].args[0]
        if type(three) is not L.ThreeMomentum:
            raise ParseAbort("beta numerator is not the norm of a ThreeMomentum")
        f1, f2 = base.args[0], three.args[0]
        if f1 != f2:
            raise ParseAbort("beta uses two different momenta")
        return f1

    # a kinematic-variable definition -> (kind, chain, ids)
    def definition(self, expr):
        if type(expr) is self.Phi or type(expr) is self.Theta:
            if len(expr.args) != 1:
                raise ParseAbort("Phi/Theta with several arguments")
            chain, ids = self.momentum(expr.args[0])
            return ("P" if type(expr) is self.Phi else "T", chain, ids)
        if type(expr) is self.L.InvariantMass:
            if len(expr.args) != 1:
                raise ParseAbort("InvariantMass with several arguments")
            arg = expr.args[0]
            if type(arg) is not self.ae.ArraySum:
                raise ParseAbort("InvariantMass of something that is not an ArraySum")
            chain, ids = self.momentum(arg)
            if chain:
                raise ParseAbort("InvariantMass of boosted momenta")
            return ("M", (), ids)
        raise ParseAbort(f"unexpected kinematic-variable definition {type(expr).__name__}")

    def symbol_def(self, symbol, expr) -> tuple[str, str]:
        sp = self.sp
        if not isinstance(symbol, sp.Symbol):
            raise ParseAbort(f"key is not a Symbol: {symbol!r}")
        kind, chain, ids = self.definition(expr)
        name = symbol.name
        if kind == "M":
            if not (name.startswith("m_") and symbol.is_nonnegative):
                raise ParseAbort(f"mass symbol {name!r} with unexpected name/assumptions")
        elif not (name.startswith({"P": "phi_", "T": "theta_"}[kind]) and symbol.is_real):
            raise ParseAbort(f"angle symbol {name!r} does not match its definition kind {kind}")
        return name, show_def(kind, chain, ids)


# --------------------------------------------------------------------------- real code, per topology


def real_angles(parser: DescriptorParser, topology) -> list[tuple[str, str]]:
    from ampform.kinematics.angles import compute_helicity_angles
    from ampform.kinematics.lorentz import create_four_momentum_symbols

    momenta = create_four_momentum_symbols(topology)
    return [parser.symbol_def(k, v) for k, v in compute_helicity_angles(momenta, topology).items()]


def real_masses(parser: DescriptorParser, topology) -> list[tuple[str, str]]:
    from ampform.kinematics.lorentz import compute_invariant_masses, create_four_momentum_symbols

    momenta = create_four_momentum_symbols(topology)
    return [parser.symbol_def(k, v) for k, v in compute_invariant_masses(momenta, topology).items()]


def err_name(e: Exception) -> str:
    for cls, n in ((KeyError, "KeyError"), (ValueError, "ValueError"), (NotImplementedError, "NotImplementedError"),
                   (TypeError, "TypeError")):
        if isinstance(e, cls):
            return "err " + n
    return "err Other"


def real_query(q: str, topology, e: int) -> str:  # noqa: C901, PLR0911
    from ampform.helicity import decay, naming
    from ampform.kinematics import lorentz

    try:
        if q == "attached":
            return show_ids_list(decay.determine_attached_final_state(topology, e))
        if q == "sibling":
            return str(decay.get_sibling_state_id(topology, e))
        if q == "opp":
            return "1" if decay.is_opposite_helicity_state(topology, e) else "0"
        if q == "parent":
            return str(decay.get_parent_id(topology, e))
        if q == "chain":
            return show_ids_list(decay.list_decay_chain_ids(topology, e))
        if q == "bchain":
            f = getattr(lorentz, "__get_boost_chain_ids", None) or getattr(lorentz, "_lorentz__get_boost_chain_ids", None)
            if f is None:
                f = lorentz.__dict__["__get_boost_chain_ids"]
            return show_ids_list(f(topology, e))
        if q == "suffix":
            return naming.get_boost_chain_suffix(topology, e)
        if q == "mass":
            return lorentz.get_invariant_mass_symbol(topology, e).name
    except Exception as ex:  # noqa: BLE001
        return err_name(ex)
    raise AssertionError(q)


def show_ids_list(ids) -> str:
    """ordered list (no sorting: the order is part of the result)"""
    return ".".join(str(i) for i in ids)


# --------------------------------------------------------------------------- Lean side


def run_lean(lines: list[str], timeout: int = 900) -> list[str]:
    out = common.lean_run(DRIVER, "\n".join(lines) + "\n", timeout=timeout)
    res = out.split("\n")
    if res and res[-1] == "":
        res.pop()
    if len(res) != len(lines):
        raise common.LeanRunError(f"driver returned {len(res)} lines for {len(lines)} requests")
    return res


# --------------------------------------------------------------------------- topologies


def make_topology(edges: dict[int, tuple]):
    """qrules Topology from {edge_id: (orig, dest)}"""
    from qrules.topology import Edge, Topology

    nodes = {n for o, d in edges.values() for n in (o, d) if n is not None}
    return Topology(nodes=nodes, edges={i: Edge(o, d) for i, (o, d) in edges.items()})


def random_isobar_topology(rng, n_final: int, shuffle_ids: bool = True):
    """A random binary decay tree with random node ids, random intermediate edge ids (distinct,
    >= n_final) and the final-state ids a random permutation of 0..n-1; the edge dict is built in
    a random order."""
    leaves = list(range(n_final))
    if shuffle_ids:
        rng.shuffle(leaves)
    n_inter = n_final - 2
    inter_pool = list(range(n_final, n_final + n_inter + (2 if shuffle_ids else 0)))
    if shuffle_ids:
        rng.shuffle(inter_pool)
    inter_ids = inter_pool[:n_inter]
    node_ids = list(range(n_final - 1))
    if shuffle_ids:
        rng.shuffle(node_ids)
    # random binary tree shape by random pairing
    items: list = [("leaf", i) for i in leaves]
    edges: dict[int, tuple] = {}
    nodes_used = 0
    pending: list = items
    inter_iter = iter(inter_ids)
    # build bottom-up: repeatedly join two random items under a new node
    while len(pending) > 2:
        i, j = rng.sample(range(len(pending)), 2)
        a, b = pending[i], pending[j]
        pending = [x for k, x in enumerate(pending) if k not in (i, j)]
        node = node_ids[nodes_used]
        nodes_used += 1
        eid = next(inter_iter)
        pending.append(("node", eid, node, a, b))
    root_node = node_ids[nodes_used]

    def emit(item, orig):
        if item[0] == "leaf":
            edges[item[1]] = (orig, None)
        else:
            _, eid, node, a, b = item
            edges[eid] = (orig, node)
            emit(a, node)
            emit(b, node)

    edges[-1] = (None, root_node)
    for it in pending:
        emit(it, root_node)
    order = list(edges)
    rng.shuffle(order)
    return make_topology({i: edges[i] for i in order})


# --------------------------------------------------------------------------- independent python reading


class PySpec:
    """Independent reading of an isobar topology: nested (edge_id, frozenset, children)."""

    def __init__(self, topology):
        self.topology = topology
        (root,) = topology.incoming_edge_ids
        self.final = frozenset(topology.outgoing_edge_ids)
        self.root = self._build(root)

    def _build(self, eid):
        edge = self.topology.edges[eid]
        if edge.ending_node_id is None:
            return (eid, frozenset([eid]), ())
        kids = [i for i, e in self.topology.edges.items() if e.originating_node_id == edge.ending_node_id]
        if len(kids) != 2:
            raise ValueError("not an isobar topology")
        ch = tuple(self._build(k) for k in kids)
        return (eid, ch[0][1] | ch[1][1], ch)

    @staticmethod
    def name_suffix(target, chain) -> str:
        groups = ["".join(str(i) for i in sorted(target))] + ["".join(str(i) for i in sorted(s)) for s in reversed(chain)]
        s = "_" + groups[0]
        if len(groups) > 1:
            s += "^" + ",".join(groups[1:])
        return s

    def nodes(self):
        """yield (chain, H, O) for every decay node: chain = subsystems boosted into (outermost
        first), H = helicity child (the one whose sorted final-state tuple is smaller), O = other"""

        def rec(item, chain):
            eid, ids, ch = item
            if not ch:
                return
            a, b = ch
            h, o = (a, b) if tuple(sorted(a[1])) < tuple(sorted(b[1])) else (b, a)
            yield (chain, h, o)
            for c in ch:
                if c[2]:
                    yield from rec(c, (*chain, c[1]))

        yield from rec(self.root, ())

    def expected_angles(self, variant: str) -> dict[str, list[tuple]]:
        """suffix -> acceptable (chain, target) descriptors.

        documented rule: the symbols are named after the helicity child H and are the angles of
        H's momentum in the helicity frame of the decaying state. Pinned convention
        (`angleSource=decaying`, shown in the docstring of compute_helicity_angles:
        theta_0 = Theta(p1+p2)): when the opposite-helicity child O decays its momentum is used
        instead; when BOTH children decay the pinned source writes both and the survivor depends
        on edge numbering — both are listed (that ambiguity is the known finding)."""
        out = {}
        for chain, h, o in self.nodes():
            sfx = self.name_suffix(h[1], chain)
            if variant == "helicityState" or not o[2]:
                acc = [(chain, h[1])]
            elif not h[2]:
                acc = [(chain, o[1])]
            else:
                acc = [(chain, h[1]), (chain, o[1])]
            out[sfx] = acc
        return out

    def masses(self) -> dict[str, frozenset]:
        out = {}

        def rec(item):
            _, ids, ch = item
            out["m_" + "".join(str(i) for i in sorted(ids))] = ids
            for c in ch:
                rec(c)

        rec(self.root)
        return out


def all_permuted_topologies(n_final: int):
    """(adapter, registered topologies, whether the list is in the adapter's own iteration order)"""
    from qrules.topology import create_isobar_topologies

    from ampform.kinematics import HelicityAdapter

    adapter = HelicityAdapter(create_isobar_topologies(n_final))
    adapter.permutate_registered_topologies()
    private = getattr(adapter, "_HelicityAdapter__topologies", None)
    if isinstance(private, (set, frozenset)):
        return adapter, list(private), True   # the iteration order create_expressions uses
    # the private attribute was renamed: the set is still observable, its iteration order is not
    return adapter, list(adapter.registered_topologies), False


def relabelled(topology, perm: dict[int, int]):
    import attrs

    return attrs.evolve(topology, edges={perm.get(i, i): e for i, e in topology.edges.items()})


def final_state_permutations(topology):
    fs = sorted(topology.outgoing_edge_ids)
    for p in itertools.permutations(fs):
        yield dict(zip(fs, p))


# --------------------------------------------------------------------------- fresh-process worker (HARDENING rules 3 and 6)


def worker_main() -> None:
    """`python -m tools.corr.C07` with a JSON request on stdin: evaluates, in THIS fresh process,
    for every requested number of final states

    * ONE HelicityAdapter with all permuted topologies: its set iteration order, the parsed
      `create_expressions()` (cold caches: nothing else has been evaluated in the process), and the
      same call a second time (history: second call == first);
    * a second adapter that registers the same topologies one by one in REVERSED order;
    * every topology on its own (`compute_helicity_angles` / `compute_invariant_masses`) in the
      requested order (`forward`, `reversed`, `shuffle:<seed>` of the canonical order).

    Prints one JSON object. The parent compares everything with its own in-process results (other
    evaluation order, warm caches) and with the Lean model."""
    import json
    import os
    import random
    import sys

    req = json.loads(sys.stdin.read())
    common.use_repo_source()
    from ampform.kinematics import HelicityAdapter

    parser = DescriptorParser()
    out: dict = {"hash_seed": os.environ.get("PYTHONHASHSEED", "unset"), "n": {}}
    for n in req["n_finals"]:
        res: dict = {}
        try:
            adapter, tops, exact = all_permuted_topologies(n)
            res["exact_order"] = exact
            res["iteration"] = [canonical_topo(t) for t in tops]
            first = adapter.create_expressions()
            res["merged"] = [list(parser.symbol_def(k, v)) for k, v in first.items()]
            second = adapter.create_expressions()
            res["second_call_equal"] = bool(list(first.items()) == list(second.items()))
            rev = HelicityAdapter([tops[-1]])
            for t in reversed(tops[:-1]):
                rev.register_topology(t)
            private = getattr(rev, "_HelicityAdapter__topologies", None)
            if isinstance(private, (set, frozenset)):
                res["reversed_iteration"] = [canonical_topo(t) for t in private]
                res["reversed_merged"] = [list(parser.symbol_def(k, v)) for k, v in rev.create_expressions().items()]
            order = sorted(tops, key=canonical_topo)
            mode = req.get("order", "forward")
            if mode == "reversed":
                order.reverse()
            elif mode.startswith("shuffle:"):
                random.Random(mode).shuffle(order)
            res["per_topology"] = {canonical_topo(t): [list(x) for x in real_angles(parser, t) + real_masses(parser, t)]
                                   for t in order}
        except ParseAbort as e:
            res["parse_abort"] = str(e)[:300]
        except Exception as e:  # noqa: BLE001
            res["error"] = f"{type(e).__name__}: {e}"[:300]
        out["n"][str(n)] = res
    print("C07WORKER " + json.dumps(out))


def run_worker(n_finals, order: str, hash_seed: str | None, timeout: int = 600) -> dict:
    import json
    import os
    import subprocess

    env = dict(os.environ)
    env["PYTHONPATH"] = str(common.ROOT) + os.pathsep + env.get("PYTHONPATH", "")
    if hash_seed is None:
        env.pop("PYTHONHASHSEED", None)
    else:
        env["PYTHONHASHSEED"] = hash_seed
    try:
        p = subprocess.run([common.PY, "-m", "tools.corr.C07"], cwd=common.ROOT, env=env, text=True,
                           input=json.dumps({"n_finals": list(n_finals), "order": order}),
                           capture_output=True, timeout=timeout)
    except subprocess.TimeoutExpired as e:
        raise common.InfraError(f"C07 worker timed out after {timeout}s") from e
    for line in p.stdout.split("\n"):
        if line.startswith("C07WORKER "):
            return json.loads(line[len("C07WORKER "):])
    return {"error": (p.stdout + p.stderr)[-600:], "n": {}}


if __name__ == "__main__":
    worker_main()
