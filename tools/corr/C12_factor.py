"""C12 factor-object histories: the Breit-Wigner constructors with the phase-space FACTOR OBJECT as
part of the call, over a history of calls in ONE process.

Real side: `RelativisticBreitWignerBuilder` (all four flag combinations, new and re-used builder
objects), the three module-level builder objects, `relativistic_breit_wigner_with_ff` and
`EnergyDependentWidth` are called in one process with factor objects of every kind the protocol allows
— library classes, named functions, lambdas of one scope, closures of one factory, `functools.partial`,
callable instances, bound methods of different instances of one class — in real, imaginary-below-
threshold and complex conventions (factor objects re-used by import from `tools/corr/C09_history.py` /
`C10_history.py`). Several objects share ONE qualified name and differ in behaviour.

Lean side: `Ampverif/Model/C12Factor.lean` (process-global constructor cache keyed on
(resonance, pool, L, key(factor object)); driver `Drivers/C12Factor.lean`) receives the same calls.
Skeleton of one call: shape, resonance, pool, L, and WHICH OBJECT the result's `EnergyDependentWidth`
carries (by identity).

Independent statement (`oracle`), for EVERY call of the history: (a) the `phsp_factor` attribute of
every width in the result IS the object passed to that call; (b) the value at several energies (below
threshold too) equals a hand calculation in plain complex arithmetic that calls the passed object
itself; (c) for a selection of calls: the values equal those of the same call made as the only call
of a fresh interpreter.

Two CLASSES of one qualified name are confused by the unchanged library (class key = qualified name:
known finding of C10) — run as an `observation`, never part of C12's verdict.
"""

from __future__ import annotations

import cmath
import json
import os
import subprocess
import sys
import time

from tools.corr import C12_history as hist

LIB = {"psf": "PhaseSpaceFactor", "abs": "PhaseSpaceFactorAbs", "cm": "PhaseSpaceFactorSWave",
       "cplx": "PhaseSpaceFactorComplex", "eqm": "EqualMassPhaseSpaceFactor"}
FORMULAS = ["psf", "abs", "cm", "k0", "k1", "z0", "z1"]
FAMILIES = ["closure", "lambda", "named", "partial", "callable", "method"]
APIS = ["b00", "b10", "b01", "b11", "width", "function"]
MODULE_API = {"create_relativistic_breit_wigner": ("b00", "class:psf"),
              "create_relativistic_breit_wigner_with_ff": ("b11", "class:psf"),
              "create_analytic_breit_wigner": ("b11", "class:eqm")}
M_A, M_B = 0.45, 0.2
TOL = 1e-9
FRESH_CAP_S = 240
_STATE: dict = {}


def factor_pool():
    pool = [f"class:{f}" for f in LIB]
    for fam in FAMILIES:
        tags = ["a"] if fam == "named" else ["a", "b"]
        pool += [f"{fam}:{f}:{t}" for f in FORMULAS for t in tags]
    return pool


def make_factor(spec: str):
    import ampform.dynamics.phasespace as ps

    from tools.corr import C09_history as H9

    kind, formula, *_ = spec.split(":")
    if kind == "class":
        return getattr(ps, LIB[formula])
    return H9.make_factor(spec)[0]


class Registry:
    """ONE object per spec in this process (identities mean something)."""

    def __init__(self, extra=()):
        from tools.corr import C10_history as H10

        self.specs = [*factor_pool(), *extra]
        self.obj = {s: make_factor(s) for s in self.specs}
        self.ident = {s: i + 1 for i, s in enumerate(self.specs)}
        self.by_id = {id(o): s for s, o in self.obj.items()}
        quals = sorted({H10.qualname_of(o) for o in self.obj.values()})
        self.qualname = {s: H10.qualname_of(self.obj[s]) for s in self.specs}
        self.qual = {s: quals.index(self.qualname[s]) for s in self.specs}
        self.builders: dict = {}

    def label(self, o) -> str:
        s = self.by_id.get(id(o))
        return f"f{self.ident[s]}" if s else f"f?{getattr(o, '__qualname__', type(o).__qualname__)}"

    def spec_of(self, o) -> str:
        return self.by_id.get(id(o)) or f"unknown-object:{o!r}"[:120]


# --------------------------------------------------------------------------- one call on the real code


def _symbols(res):
    import sympy as sp

    ident = res.latex or res.name
    return (sp.Symbol(f"m_{{{ident}}}", nonnegative=True), sp.Symbol(Rf"\Gamma_{{{ident}}}", nonnegative=True),
            sp.Symbol(f"d_{{{ident}}}", positive=True))


def real_call(reg: Registry, c: dict):
    """-> (expression, {symbol: value} parameter defaults)."""
    import ampform.dynamics as dyn
    from ampform.dynamics import builder as bld

    res = hist.resonances()[c["res"]]
    vp = hist.pool(c["pool"], c["L"])
    f = reg.obj[c["phsp"]]
    api = c["api"]
    if api in MODULE_API:
        return getattr(bld, api)(res, vp)
    if api.startswith("b"):
        key = (api, c["phsp"])
        if key not in reg.builders or not c.get("reuse", True):
            reg.builders[key] = bld.RelativisticBreitWignerBuilder(
                form_factor=api[1] == "1", energy_dependent_width=api[2] == "1", phsp_factor=f)
        return reg.builders[key](res, vp)
    sm, sg, sd = _symbols(res)
    s = vp.incoming_state_mass**2
    args = (s, sm, sg, vp.outgoing_state_mass1, vp.outgoing_state_mass2, c["L"], sd)
    dflt = {sm: res.mass, sg: res.width, sd: 1}
    if api == "width":
        return dyn.EnergyDependentWidth(*args, phsp_factor=f), dflt
    return dyn.relativistic_breit_wigner_with_ff(*args, phsp_factor=f), dflt


def skeleton(reg: Registry, c: dict, expr):
    """(rendered line, [objects carried by the widths of expr])."""
    import sympy as sp

    import ampform.dynamics as dyn

    widths = [n for n in sp.preorder_traversal(expr) if isinstance(n, dyn.EnergyDependentWidth)]
    rest = expr.xreplace({w: sp.Dummy() for w in widths})
    ffs = [n for n in sp.preorder_traversal(rest) if isinstance(n, dyn.FormFactor)]
    if isinstance(expr, dyn.EnergyDependentWidth):
        shape = "width"
    else:
        shape = {(False, False): "plain", (True, False): "ff", (False, True): "edw", (True, True): "full"}[(bool(ffs), bool(widths))]
    res_list = hist.resonances()
    names = {str(x) for x in expr.free_symbols}
    rs = [i for i, r in enumerate(res_list) if f"m_{{{r.latex or r.name}}}" in names]
    ps_ = [p for p in (0, 1) if str(hist.pool(p, 0).incoming_state_mass) in names]
    ls = {str(w.args[5]) for w in widths} | {str(x.args[3]) for x in ffs}
    ell = ls.pop() if len(ls) == 1 else (str(c["L"]) if not ls else "mixed")
    carried = [w.phsp_factor for w in widths]
    labels = {reg.label(o) for o in carried}
    lab = "-" if not labels else (labels.pop() if len(labels) == 1 else "mixed")
    line = (f"{shape} res={rs[0] if len(rs) == 1 else rs} pool={ps_[0] if len(ps_) == 1 else ps_} L={ell} carried={lab}")
    return line, carried


def _num(e) -> complex:
    import sympy as sp

    from ampform.sympy.math import ComplexSqrt

    e = sp.sympify(e).doit()
    e = e.replace(lambda x: isinstance(x, ComplexSqrt), lambda x: x.get_definition())
    return complex(sp.N(e, 20))


def mass_points(c: dict):
    m0 = hist.resonances()[c["res"]].mass
    return [0.5, 0.66, 0.9 * m0, m0, 1.15 * m0]  # below threshold (0.65), just above, around the pole


def library_values(c: dict, expr, dflt) -> list:
    import sympy as sp

    vp = hist.pool(c["pool"], c["L"])
    out = []
    for m in mass_points(c):
        subs = {k: sp.Float(v, 20) for k, v in dict(dflt).items()}
        subs.update({vp.incoming_state_mass: sp.Float(m, 20), vp.outgoing_state_mass1: sp.Float(M_A, 20),
                     vp.outgoing_state_mass2: sp.Float(M_B, 20)})
        out.append(_num(expr.xreplace(subs)))
    return out


def _bw2(z: complex, ell: int) -> complex:
    if ell == 0:
        return 1.0 + 0j
    if ell == 1:
        return 2 * z / (z + 1)
    return 13 * z**2 / (z**2 + 3 * z + 9)


def hand_values(c: dict, f_obj, shape: str) -> list:
    """The documented formulas in plain complex arithmetic; rho = the PASSED object called on numbers."""
    import sympy as sp

    res = hist.resonances()[c["res"]]
    m0, g0, ell = res.mass, res.width, c["L"]

    def rho(s):
        return _num(f_obj(sp.Float(s, 20), sp.Float(M_A, 20), sp.Float(M_B, 20)))

    def bw2(s):
        q2 = (s - (M_A + M_B) ** 2) * (s - (M_A - M_B) ** 2) / (4 * s)
        return _bw2(complex(q2), ell)

    out = []
    for m in mass_points(c):
        s, s0 = m * m, m0 * m0
        need_w = shape in ("edw", "full", "width")
        width = g0 * (bw2(s) / bw2(s0)) * rho(s) / rho(s0) if need_w else g0
        ff = cmath.sqrt(bw2(s)) if shape in ("ff", "full") else 1.0
        out.append(width if shape == "width" else ff * m0 * g0 / (s0 - s - 1j * m0 * width))
    return out


def run_calls(reg: Registry, calls: list, numeric: bool = True) -> list:
    out = []
    for c in calls:
        r: dict = {"call": c}
        try:
            expr, dflt = real_call(reg, c)
            r["line"], carried = skeleton(reg, c, expr)
            f_obj = reg.obj[c["phsp"]]
            r["foreign"] = [reg.spec_of(o) for o in carried if o is not f_obj]
            r["shape"] = r["line"].split(" ")[0]
            if numeric:
                r["values"] = library_values(c, expr, dflt)
        except Exception as e:  # noqa: BLE001
            r["error"] = f"{type(e).__name__}: {e}"[:300]
        out.append(r)
    return out


# --------------------------------------------------------------------------- histories


def _c(api, phsp, res=1, pool=0, ell=1, reuse=True):
    if api in MODULE_API:
        phsp = MODULE_API[api][1]
    return {"api": api, "phsp": phsp, "res": res, "pool": pool, "L": ell, "reuse": reuse}


def fixed_calls():
    """Same resonance / pool / L with objects of ONE qualified name and different behaviour, in every
    family, through every API; plus same behaviour / different object, and the module-level builders."""
    calls = []
    pairs = [("psf", "a", "abs", "a"), ("abs", "a", "cm", "b"), ("k0", "a", "k1", "a"), ("psf", "b", "z0", "b")]
    for i, fam in enumerate(FAMILIES):
        f1, t1, f2, t2 = pairs[i % len(pairs)]
        if fam == "named":
            t1 = t2 = "a"
        a, b = f"{fam}:{f1}:{t1}", f"{fam}:{f2}:{t2}"
        res, ell = i % 5, i % 3
        calls += [_c("b11", a, res, 0, ell), _c("b11", b, res, 0, ell), _c("function", a, res, 0, ell),
                  _c("b01", b, res, 0, ell), _c("width", a, res, 0, ell), _c("width", b, res, 0, ell)]
    # the seed's shape: two lambdas, two closures; real vs imaginary-below-threshold vs complex
    for fam in ("lambda", "closure"):
        for api in ("b11", "b01", "function"):
            calls += [_c(api, f"{fam}:psf:a", 2, 1, 1, reuse=False), _c(api, f"{fam}:abs:b", 2, 1, 1, reuse=False),
                      _c(api, f"{fam}:cm:a", 2, 1, 1, reuse=False)]
    # one behaviour, two objects (identity is the only difference)
    calls += [_c("b11", "closure:k0:a", 3, 0, 2), _c("b11", "closure:k0:b", 3, 0, 2),
              _c("b11", "method:abs:a", 3, 0, 2), _c("b11", "method:abs:b", 3, 0, 2)]
    # flags without a width never look at the factor; module-level objects between custom factors
    calls += [_c("b00", "lambda:z1:a", 4, 0, 1), _c("b10", "lambda:z1:b", 4, 0, 1), _c("b11", "lambda:z1:a", 4, 0, 1),
              _c("create_relativistic_breit_wigner_with_ff", "", 4, 0, 1), _c("b11", "lambda:psf:b", 4, 0, 1),
              _c("create_analytic_breit_wigner", "", 4, 0, 1), _c("b11", "class:eqm", 4, 0, 1),
              _c("create_relativistic_breit_wigner", "", 4, 0, 1), _c("b11", "class:psf", 4, 0, 1)]
    return calls


def random_calls(rng, n: int):
    pool = factor_pool()
    calls = []
    while len(calls) < n:
        # clusters around one (resonance, pool, L): that is where a non-injective key would bite
        res, p, ell = rng.randrange(5), rng.randrange(2), rng.randrange(3)
        fam = rng.choice([*FAMILIES, "class", "any"])
        cand = pool if fam == "any" else [s for s in pool if s.startswith(fam + ":")]
        for _ in range(rng.randint(2, 4)):
            api = rng.choice([*APIS, "b11", "b01", "function", *MODULE_API] if rng.random() < 0.9 else list(MODULE_API))
            calls.append(_c(api, rng.choice(cand), res, p, ell, reuse=rng.random() < 0.6))
    return calls[:n]


def lean_line(reg: Registry, c: dict) -> str:
    api = MODULE_API[c["api"]][0] if c["api"] in MODULE_API else c["api"]
    return f"call {api} {reg.ident[c['phsp']]} {reg.qual[c['phsp']]} {c['res']} {c['pool']} {c['L']}"


def _compact(c: dict) -> str:
    return f"{c['api']}({c['phsp']}; res={c['res']} pool={c['pool']} L={c['L']})"


def run_correspondence(chk, rng, tier: str):
    """T2: the real constructors and the Lean cache model through the same history, call by call."""
    from tools.lib import common

    reg = Registry()
    calls = fixed_calls() + random_calls(rng, 60 if tier == "quick" else 500)
    t0 = time.time()
    results = run_calls(reg, calls)
    _STATE.update(reg=reg, calls=calls, results=results)
    out = common.lean_run("Ampverif/Drivers/C12Factor.lean", "process\n" + "\n".join(lean_line(reg, c) for c in calls) + "\n")
    model = [ln for ln in out.split("\n") if ln.strip()]
    dist: dict = {}
    same_q = 0
    seen: dict = {}
    for c in calls:
        fam = c["phsp"].split(":")[0]
        dist[f"{c['api'][:8]}|{fam}"] = dist.get(f"{c['api'][:8]}|{fam}", 0) + 1
        key = (c["res"], c["pool"], c["L"], reg.qual[c["phsp"]])
        if key in seen and seen[key] != c["phsp"]:
            same_q += 1
        seen.setdefault(key, c["phsp"])
    chk.info("factor_history_correspondence", {
        "calls": len(calls), "factor_objects": len(reg.specs), "qualified_names": len(set(reg.qual.values())),
        "calls_after_another_object_of_the_same_qualified_name_for_the_same_resonance_pool_L": same_q,
        "seconds": round(time.time() - t0, 1), "input_distribution": dist})
    if len(model) != len(results):
        chk.broken_correspondence("factor-history", f"driver returned {len(model)} lines for {len(results)} calls")
        return
    mism = 0
    for k, (r, want) in enumerate(zip(results, model)):
        got = r.get("line", "error:" + r.get("error", "?"))
        ok = got == want
        chk.count(("factor-history", k, _compact(r["call"])) if ok else None)
        if not ok:
            mism += 1
            if mism <= 3:
                chk.broken_correspondence("factor-history", {
                    "call_index": k, "call": _compact(r["call"]), "real": got, "model": want,
                    "earlier_calls_same_resonance_pool_L": [_compact(x) for x in calls[:k]
                                                            if (x["res"], x["pool"], x["L"]) == (r["call"]["res"], r["call"]["pool"], r["call"]["L"])][-6:]})
    chk.info("factor_history_mismatches", mism)
    if results:
        chk.sample({"factor_history_call": _compact(calls[1]), "real": results[1].get("line"), "model": model[1]})


# --------------------------------------------------------------------------- fresh processes


def _worker_main():
    payload = json.loads(sys.stdin.read())
    sys.path.insert(0, os.getcwd())
    from tools.lib import common

    common.use_repo_source()
    reg = Registry()
    res = run_calls(reg, payload["calls"])
    print("@@C12F@@" + json.dumps([{"line": r.get("line"), "error": r.get("error"), "foreign": r.get("foreign"),
                                    "values": [[v.real, v.imag] for v in r.get("values", [])]} for r in res]))


def run_fresh(calls: list, max_parallel: int = 8) -> list:
    """Each call as the ONLY call of a new interpreter; -> list of result dicts (or {'infra': ...})."""
    env = dict(os.environ)
    procs, out = [], [None] * len(calls)
    pending = list(enumerate(calls))
    t_end = time.time() + FRESH_CAP_S
    while pending or procs:
        while pending and len(procs) < max_parallel:
            i, c = pending.pop(0)
            p = subprocess.Popen([sys.executable, "-m", "tools.corr.C12_factor", "--worker"], stdin=subprocess.PIPE,  # noqa: S603
                                 stdout=subprocess.PIPE, stderr=subprocess.PIPE, text=True, env=env, cwd=os.getcwd())
            p.stdin.write(json.dumps({"calls": [c]}))
            p.stdin.close()
            procs.append((i, p))
        still = []
        for i, p in procs:
            if p.poll() is None:
                if time.time() > t_end:
                    p.kill()
                    out[i] = {"infra": "fresh-process worker exceeded its time cap"}
                else:
                    still.append((i, p))
                continue
            text = p.stdout.read()
            mark = [ln for ln in text.split("\n") if ln.startswith("@@C12F@@")]
            out[i] = json.loads(mark[-1][8:])[0] if mark else {"infra": (p.stderr.read() or text)[-400:]}
        procs = still
        time.sleep(0.05)
    return out


# --------------------------------------------------------------------------- the independent statement


def _dev(a: complex, b: complex) -> float:
    return abs(a - b) / max(1.0, abs(a), abs(b))


def oracle(chk, rng, tier: str) -> list:  # noqa: C901, PLR0912
    if "results" not in _STATE:
        reg = Registry()
        calls = fixed_calls() + random_calls(rng, 60 if tier == "quick" else 500)
        _STATE.update(reg=reg, calls=calls, results=run_calls(reg, calls))
    reg, calls, results = _STATE["reg"], _STATE["calls"], _STATE["results"]
    bad, kinds = [], set()

    def report(kind, k, extra):
        if kind in kinds:
            return
        kinds.add(kind)
        c = calls[k]
        same = [_compact(x) for x in calls[:k] if (x["res"], x["pool"], x["L"]) == (c["res"], c["pool"], c["L"])]
        prior = [x for x in calls[:k] if (x["res"], x["pool"], x["L"]) == (c["res"], c["pool"], c["L"])]
        bad.append({"what": kind, "call_index": k, "call": _compact(c), "factor_qualified_name": reg.qualname[c["phsp"]],
                    "factor_history_replay": {"calls": [*prior[-12:], c]},
                    "earlier_calls_in_this_process_same_resonance_pool_L": same[-6:], "masses_m_a_m_b": [M_A, M_B],
                    "m_points": mass_points(c), **extra})

    n_fixed = len(fixed_calls())
    for k, (c, r) in enumerate(zip(calls, results)):
        if "error" in r:
            report("a Breit-Wigner constructor raised for a phase-space factor object allowed by PhaseSpaceFactorProtocol", k, {"error": r["error"]})
            continue
        chk.count(("factor-identity", k))
        if r["foreign"]:
            report("the EnergyDependentWidth of the result carries a phase-space factor object that was not passed to this call "
                   "(the object of an earlier call in the same process)", k, {"passed": c["phsp"], "carried": r["foreign"][:3]})
        try:
            hand = hand_values(c, reg.obj[c["phsp"]], r["shape"])
        except Exception as e:  # noqa: BLE001
            report("hand calculation failed", k, {"error": f"{type(e).__name__}: {e}"[:200]})
            continue
        devs = [_dev(a, b) for a, b in zip(r["values"], hand)]
        if all(d == d and d != float("inf") for d in devs):
            chk.count(("factor-hand", k, _compact(c)), len(devs))
            if max(devs) > TOL:
                j = devs.index(max(devs))
                report("builder / function API value differs from the hand calculation with the phase-space factor passed to this call",
                       k, {"m": mass_points(c)[j], "library": str(r["values"][j]), "hand_calculation": str(hand[j]), "max_relative_deviation": max(devs)})
    # (c) selected calls alone in a fresh interpreter: the second / third object of one qualified name of the fixed
    # part, and random ones
    sel = [k for k in range(n_fixed) if k % 6 in (1, 3)][:10 if tier == "quick" else 30]
    sel += sorted(rng.sample(range(n_fixed, len(calls)), min(len(calls) - n_fixed, 6 if tier == "quick" else 40)))
    t0 = time.time()
    fresh = run_fresh([calls[k] for k in sel])
    n_infra = 0
    for k, fr in zip(sel, fresh):
        r = results[k]
        if "infra" in fr:
            n_infra += 1
            continue
        if "error" in r or fr.get("error"):
            if bool(r.get("error")) != bool(fr.get("error")):
                report("a call raises in a process with history but not in a fresh process (or vice versa)", k,
                       {"in_history": r.get("error"), "fresh_process": fr.get("error")})
            continue
        fv = [complex(a, b) for a, b in fr["values"]]
        devs = [_dev(a, b) for a, b in zip(r["values"], fv)]
        chk.count(("factor-fresh", k, _compact(calls[k])), len(devs))
        if fr["line"] != r["line"] or fr["foreign"] or max(devs) > TOL:
            report("the result of a call differs from the same call made as the only call of a fresh interpreter", k,
                   {"in_history": r["line"], "fresh_process": fr["line"], "max_relative_deviation": max(devs),
                    "value_in_history": str(r["values"][devs.index(max(devs))]), "value_fresh": str(fv[devs.index(max(devs))])})
    if n_infra:  # never a verdict: (a) and (b) above already judged every call
        chk.note(f"{n_infra} fresh-process workers of the C12 factor histories did not answer: {[f for f in fresh if 'infra' in f][:1]}")
    chk.info("factor_history_oracle", {"calls": len(calls), "fresh_process_calls": len(sel), "fresh_seconds": round(time.time() - t0, 1),
                                       "failing_kinds": sorted(kinds)})
    chk.info("observations", observations())
    return bad


def observations() -> list:
    """Unchanged-library behaviour OUTSIDE C12's verdict: two CLASSES of one qualified name."""
    try:
        reg = Registry(extra=["twinclass:k0:a", "twinclass:k1:b"])
        calls = [_c("b11", "twinclass:k0:a", 0, 1, 2), _c("b11", "twinclass:k1:b", 0, 1, 2)]
        res = run_calls(reg, calls, numeric=False)
        return [{"class": "two phase-space classes with one qualified name in one process (known finding of C10; class key = qualified name)",
                 "calls": [_compact(c) for c in calls], "second_result_carries": res[1].get("foreign") or "the passed class",
                 "confused": bool(res[1].get("foreign")), "part_of_verdict": False}]
    except Exception as e:  # noqa: BLE001
        return [{"class": "twin classes", "error": f"{type(e).__name__}: {e}"[:200], "part_of_verdict": False}]


def replay_history(case: dict) -> int:
    """Re-run the stored calls (same resonance / pool / L, in order) in ONE new interpreter and the last
    call alone in another; judge the last call by identity, hand calculation and fresh process."""
    calls = case["calls"]
    payload = json.dumps({"calls": calls})
    p = subprocess.run([sys.executable, "-m", "tools.corr.C12_factor", "--worker"], input=payload, capture_output=True,  # noqa: S603
                       text=True, cwd=os.getcwd(), timeout=FRESH_CAP_S, check=False)
    mark = [ln for ln in p.stdout.split("\n") if ln.startswith("@@C12F@@")]
    fresh = run_fresh([calls[-1]])[0]
    if not mark or "infra" in fresh:
        print((p.stderr or str(fresh))[-600:])
        return 2
    r = json.loads(mark[-1][8:])[-1]
    reg = Registry()
    ok = not r.get("error") and not fresh.get("error") and not r.get("foreign")
    devs_h = devs_f = None
    if ok:
        vals = [complex(a, b) for a, b in r["values"]]
        hand = hand_values(calls[-1], reg.obj[calls[-1]["phsp"]], r["line"].split(" ")[0])
        devs_h = max(_dev(a, b) for a, b in zip(vals, hand))
        devs_f = max(_dev(a, complex(*b)) for a, b in zip(vals, fresh["values"]))
        ok = devs_h <= TOL and devs_f <= TOL and r["line"] == fresh["line"]
    print(json.dumps({"history": [_compact(c) for c in calls], "last_call_in_history": r.get("line"), "fresh_process": fresh.get("line"),
                      "foreign_factor_objects": r.get("foreign"), "max_deviation_from_hand_calculation": devs_h,
                      "max_deviation_from_fresh_process": devs_f, "error": r.get("error")}, indent=1))
    if not ok:
        print("VIOLATION property=C12 replay=<given file>")
    return 0 if ok else 1


if __name__ == "__main__":
    sys.path.insert(0, os.getcwd())
    from tools.corr import C12_factor as _self

    _self._worker_main()
