"""Independent numeric evaluation of the helicity formula (the statement of C02) on a reaction.

Nothing here uses ampform's expression builders: Wigner-d from the explicit factorial sum,
Clebsch-Gordan from sympy.physics.wigner (Racah), child ordering / angle names / symmetrisation
re-implemented from the documentation. Only the NAMES of the coefficient parameters and the parity
prefactors are taken from the real name generator (they are what C03 checks).
"""

from __future__ import annotations

import cmath
import itertools
import math
from fractions import Fraction
from functools import lru_cache


def _fact(n: int) -> float:
    return float(math.factorial(n))


@lru_cache(maxsize=None)
def _wigner_d_terms(j2: int, a2: int, b2: int):
    """terms (coefficient, power of cos(beta/2), power of sin(beta/2)) of d^j_{a b}(beta), doubled
    arguments; Wigner's formula
    d^j_{ab} = sum_s (-1)^(a-b+s) sqrt((j+a)!(j-a)!(j+b)!(j-b)!) / ((j+b-s)! s! (a-b+s)! (j-a-s)!)
               cos^(2j+b-a-2s) sin^(a-b+2s)."""
    if abs(a2) > j2 or abs(b2) > j2 or (j2 - a2) % 2 or (j2 - b2) % 2:
        return ()
    ja, jma = (j2 + a2) // 2, (j2 - a2) // 2
    jb, jmb = (j2 + b2) // 2, (j2 - b2) // 2
    amb = (a2 - b2) // 2
    pref = math.sqrt(_fact(ja) * _fact(jma) * _fact(jb) * _fact(jmb))
    terms = []
    for s in range(0, j2 + 1):
        q = (jb - s, s, amb + s, jma - s)
        if min(q) < 0:
            continue
        coeff = (-1) ** (amb + s) * pref / (_fact(q[0]) * _fact(q[1]) * _fact(q[2]) * _fact(q[3]))
        terms.append((coeff, j2 - amb - 2 * s, amb + 2 * s))
    return tuple(terms)


def wigner_d(j2: int, a2: int, b2: int, beta: float) -> float:
    """d^j_{a b}(beta) in the convention D^j_{ab}(alpha,beta,gamma) = exp(-i a alpha) d^j_{ab}(beta) exp(-i b gamma);
    d^{1/2}_{1/2,-1/2}(beta) = -sin(beta/2)."""
    c, s = math.cos(beta / 2), math.sin(beta / 2)
    return sum(co * c**pc * s**ps for co, pc, ps in _wigner_d_terms(j2, a2, b2))


def conj_wigner_D(j2, m2, mp2, phi, theta):
    """conj D^j_{m mp}(phi, theta, 0) = exp(+i m phi) d^j_{m mp}(theta)."""
    return cmath.exp(1j * (m2 / 2) * phi) * wigner_d(j2, m2, mp2, theta)


@lru_cache(maxsize=None)
def clebsch(j1, m1, j2, m2, J, M) -> float:
    import sympy as sp
    from sympy.physics.wigner import clebsch_gordan

    a = [sp.Rational(x, 2) for x in (j1, j2, J, m1, m2, M)]
    if abs(a[3]) > a[0] or abs(a[4]) > a[1] or abs(a[5]) > a[2] or a[3] + a[4] != a[5]:
        return 0.0
    if a[2] > a[0] + a[1] or a[2] < abs(a[0] - a[1]):
        return 0.0
    return float(clebsch_gordan(*a))


# ----------------------------------------------------------------------------- topology helpers


def attached(topology, edge_id):
    e = topology.edges[edge_id]
    if e.ending_node_id is None:
        return (edge_id,)
    out = []
    for c in topology.get_edge_ids_outgoing_from_node(e.ending_node_id):
        out += attached(topology, c)
    return tuple(sorted(out))


def angle_suffix(topology, edge_id) -> str:
    """`_<ids below the edge>^<ids below the parent>,<grand parent>…` (initial state not listed)."""
    groups = ["".join(map(str, attached(topology, edge_id)))]
    cur = edge_id
    while True:
        node = topology.edges[cur].originating_node_id
        if node is None:
            break
        (parent,) = topology.get_edge_ids_ingoing_to_node(node)
        if topology.edges[parent].originating_node_id is None:
            break
        groups.append("".join(map(str, attached(topology, parent))))
        cur = parent
    return "_" + groups[0] + ("^" + ",".join(groups[1:]) if len(groups) > 1 else "")


def ordered_children(topology, node_id):
    c = sorted(topology.get_edge_ids_outgoing_from_node(node_id), key=lambda e: attached(topology, e))
    return c[0], c[1]


def d2(x) -> int:
    f = Fraction(x).limit_denominator(4) * 2
    assert f.denominator == 1
    return int(f)


def symmetrise(transition):
    """All relabelings of identical (same particle name) final-state edges that change which node an
    id is attached to, each once: [(topology, states)]. The identity comes first."""
    topo = transition.topology
    finals = sorted(topo.outgoing_edge_ids)
    groups: dict[str, list[int]] = {}
    for e in finals:
        groups.setdefault(transition.states[e].particle.name, []).append(e)
    perms_per_group = []
    for ids in groups.values():
        perms_per_group.append([dict(zip(ids, p)) for p in itertools.permutations(ids)])
    seen = set()
    out = []
    for combo in itertools.product(*perms_per_group):
        mapping = {}
        for m in combo:
            mapping.update(m)
        new_topo = topo.relabel_edges(mapping)
        new_states = {mapping.get(e, e): s for e, s in transition.states.items()}
        key = (new_topo, tuple(sorted((e, s.particle.name, float(s.spin_projection)) for e, s in new_states.items())))
        # a relabeling within one node (or any relabeling that reproduces the same graph) is not a new term
        sig = tuple(sorted((e, new_topo.edges[e].originating_node_id) for e in finals))
        if sig in seen:
            continue
        seen.add(sig)
        out.append((new_topo, new_states, key))
    return out


def term_value(topo, states, interactions, canonical, angles, node_factor=None):
    """product over nodes of conj-D x (CG CG) [x node_factor]."""
    val = 1.0 + 0j
    for n in topo.nodes:
        (pin,) = topo.get_edge_ids_ingoing_to_node(n)
        c1, c2 = ordered_children(topo, n)
        J = d2(states[pin].particle.spin)
        m = d2(states[pin].spin_projection)
        l1, l2 = d2(states[c1].spin_projection), d2(states[c2].spin_projection)
        suf = angle_suffix(topo, c1)
        phi, theta = angles["phi" + suf], angles["theta" + suf]
        val *= conj_wigner_D(J, m, l1 - l2, phi, theta)
        if canonical:
            inter = interactions[n]
            L, S = 2 * int(inter.l_magnitude), d2(inter.s_magnitude)
            s1, s2 = d2(states[c1].particle.spin), d2(states[c2].particle.spin)
            val *= clebsch(L, 0, S, l1 - l2, J, l1 - l2) * clebsch(s1, l1, s2, -l2, S, l1 - l2)
        if node_factor is not None:
            val *= node_factor(topo, states, interactions, n, pin, c1, c2)
    return val


def spec_intensity(reaction, coefficient_of, angles, node_factor=None):
    """The helicity formula: incoherent over outer projections (per state id), coherent over all
    (symmetrised) transitions with those projections.

    `coefficient_of(frozen_transition) -> complex` gives coefficient x parity prefactor of a chain."""
    from qrules.topology import FrozenTransition

    canonical = reaction.formalism.startswith("canonical")
    sums: dict[tuple, complex] = {}
    n_terms = 0
    for t in reaction.transitions:
        outer_ids = [*sorted(t.topology.incoming_edge_ids), *sorted(t.topology.outgoing_edge_ids)]
        for topo, states, _ in symmetrise(t):
            g = FrozenTransition(topo, states, t.interactions)
            h = tuple(d2(states[i].spin_projection) for i in outer_ids)
            sums[h] = sums.get(h, 0j) + coefficient_of(g) * term_value(topo, states, t.interactions, canonical, angles,
                                                                      node_factor)
            n_terms += 1
    return sum(abs(v) ** 2 for v in sums.values()), n_terms, len(sums)


def all_angle_names(reaction):
    names = set()
    for t in reaction.transitions:
        for topo, _, _ in symmetrise(t):
            for n in topo.nodes:
                c1, _ = ordered_children(topo, n)
                suf = angle_suffix(topo, c1)
                names.add("phi" + suf)
                names.add("theta" + suf)
    return sorted(names)
