"""Regenerate corpus/C17/*.json (qrules reactions used by the C17 check; inputs only).

Not run by the check: `/venv/bin/python tools/corr/C17_make_corpus.py` (2-10 s per reaction, offline).
"""
import sys
from pathlib import Path

ROOT = Path(__file__).resolve().parents[2]

SPECS = {
    "jpsi_gpp_hel": dict(initial_state=("J/psi(1S)", [-1, +1]), final_state=["gamma", "pi0", "pi0"],
                         allowed_intermediate_particles=["f(0)(980)", "f(0)(1500)"],
                         allowed_interaction_types=["strong", "EM"], formalism="helicity"),
    "jpsi_gpp_can": dict(initial_state=("J/psi(1S)", [-1, +1]), final_state=["gamma", "pi0", "pi0"],
                         allowed_intermediate_particles=["f(0)(980)"],
                         allowed_interaction_types=["strong", "EM"], formalism="canonical-helicity"),
    "jpsi_3pi_hel": dict(initial_state=("J/psi(1S)", [+1]), final_state=["pi0", "pi+", "pi-"],
                         allowed_intermediate_particles=["rho(770)"], allowed_interaction_types=["strong"],
                         formalism="helicity"),
    "lc_pkpi_hel": dict(initial_state=("Lambda(c)+", [+0.5]), final_state=["p", "K-", "pi+"],
                        allowed_intermediate_particles=["Lambda(1520)"], formalism="helicity"),
    "d0_kkk_can": dict(initial_state="D0", final_state=["K0", "K+", "K-"],
                       allowed_intermediate_particles=["a(0)(980)0", "phi(1020)"], formalism="canonical-helicity"),
}


def main():
    import qrules

    out = ROOT / "corpus" / "C17"
    out.mkdir(parents=True, exist_ok=True)
    for name, kw in SPECS.items():
        reaction = qrules.generate_transitions(**kw)
        qrules.io.write(reaction, str(out / f"{name}.json"))
        assert qrules.io.load(str(out / f"{name}.json")) == reaction
        print(name, len(reaction.transitions), "transitions")


if __name__ == "__main__":
    sys.exit(main())
