"""Definition families of C10 (production vectors), on top of tools/corr/C09_defs.py.

The `formulate` calls use MARKER arguments: a phase-space factor class that no ampform module
defines, and marker symbols for the angular momentum and the meson radius. The leaf translator
refuses any other phase-space class / L / radius inside the result, and `occurrences()` lists what
occurs where, for the argument-honouring part of the property.
"""

from __future__ import annotations

from typing import Any

import sympy as sp

from tools.corr.C09_defs import (
    COMBOS,
    Builder,
    k_names,
    nr_param_names,
    p_names,
    rel_param_names,
    rho_names,
)

MARKER_L = sp.Symbol("L_marker", integer=True, nonnegative=True)
MARKER_D = sp.Symbol("d_marker", positive=True)
_MARKER = {}


def marker_phsp():
    """A phase-space factor implementation that exists only in this harness (built with ampform's
    public `@unevaluated` decorator): 7/5 of PhaseSpaceFactorAbs plus 1/3 — real above threshold,
    numerically different from every implementation in dynamics/phasespace.py."""
    if "cls" not in _MARKER:
        from ampform.dynamics.phasespace import PhaseSpaceFactorAbs
        from ampform.sympy import unevaluated

        @unevaluated
        class MarkerPhsp(sp.Expr):
            s: Any
            m1: Any
            m2: Any
            _latex_repr_ = R"\rho^\mathrm{{marker}}\left({s}\right)"

            def evaluate(self):
                s, m1, m2 = self.args
                return sp.Rational(7, 5) * PhaseSpaceFactorAbs(s, m1, m2) + sp.Rational(1, 3)

        _MARKER["cls"] = MarkerPhsp
    return _MARKER["cls"]


class PBuilder(Builder):
    def __init__(self, phsp=None, L=None, d=None):
        super().__init__(phsp or marker_phsp(), L=MARKER_L if L is None else L,
                         d=MARKER_D if d is None else d, check_markers=True)

    def matrix_level_pvector(self, ns=(1, 2)):
        from ampform.dynamics import kmatrix as km

        for n in ns:
            ks, ps, rs = k_names(n), p_names(n), rho_names(n)
            f = km.NonRelativisticPVector.formulate(n, 1, parametrize=False)
            fh = km.RelativisticPVector.formulate(n, 1, parametrize=False, return_f_hat=True)
            fr = km.RelativisticPVector.formulate(n, 1, parametrize=False, return_f_hat=False)
            for i in range(n):
                self.add(f"nrF{n}_{i}", ks + ps, f[i, 0], "matrix", free=ks + ps, dens=f"nrF{n}")
            for i in range(n):
                self.add(f"relFh{n}_{i}", rs + ks + ps, fh[i, 0], "matrix", free=rs + ks + ps, dens=f"relF{n}")
            for i in range(n):
                self.add(f"relF{n}_{i}", rs + ks + ps, fr[i, 0], "matrix", free=rs + ks + ps, dens=f"relF{n}")

    def parametrisations_pvector(self, combos=COMBOS):
        from ampform.dynamics import kmatrix as km

        B = self.B
        for nc, np_ in combos:
            # K parametrisations with the P-vector parameter lists (beta included)
            for i in range(nc):
                for j in range(nc):
                    e = km.NonRelativisticKMatrix.parametrization(
                        i=i, j=j, s=B["s"], pole_position=B["m"], pole_width=B["Gamma"],
                        residue_constant=B["gamma"], n_poles=np_, pole_id=B["R"])
                    self.add(f"nrK{nc}{np_}_{i}{j}", nr_param_names(nc, np_, True), e, "param", share=True)
            for i in range(nc):
                e = km.NonRelativisticPVector.parametrization(
                    i=i, s=B["s"], pole_position=B["m"], pole_width=B["Gamma"],
                    residue_constant=B["gamma"], beta_constant=B["beta"], n_poles=np_, pole_id=B["R"])
                self.add(f"nrP{nc}{np_}_{i}", nr_param_names(nc, np_, True), e, "param", share=True)
            for i in range(nc):
                for j in range(nc):
                    e = km.RelativisticKMatrix.parametrization(
                        i=i, j=j, s=B["s"], pole_position=B["m"], pole_width=B["Gamma"],
                        m_a=B["m_a"], m_b=B["m_b"], residue_constant=B["gamma"], n_poles=np_,
                        pole_id=B["R"], angular_momentum=self.L, meson_radius=self.d,
                        phsp_factor=self.phsp)
                    self.add(f"relK{nc}{np_}_{i}{j}", rel_param_names(nc, np_, True), e, "param", share=True)
            for i in range(nc):
                e = km.RelativisticPVector.parametrization(
                    i=i, s=B["s"], pole_position=B["m"], pole_width=B["Gamma"], m_a=B["m_a"],
                    m_b=B["m_b"], beta_constant=B["beta"], residue_constant=B["gamma"],
                    n_poles=np_, pole_id=B["R"], angular_momentum=self.L, meson_radius=self.d)
                self.add(f"relP{nc}{np_}_{i}", rel_param_names(nc, np_, True), e, "param", share=True)

    def formulated_pvector(self, combos=COMBOS):
        from ampform.dynamics import kmatrix as km

        for nc, np_ in combos:
            f = km.NonRelativisticPVector.formulate(nc, np_)
            for i in range(nc):
                self.add(f"nrFForm{nc}{np_}_{i}", nr_param_names(nc, np_, True), f[i, 0], "formulated")
            for hat in (True, False):
                f = km.RelativisticPVector.formulate(
                    nc, np_, return_f_hat=hat, phsp_factor=self.phsp,
                    angular_momentum=self.L, meson_radius=self.d)
                nm = "relFhForm" if hat else "relFForm"
                for i in range(nc):
                    self.add(f"{nm}{nc}{np_}_{i}", rel_param_names(nc, np_, True), f[i, 0], "formulated")

    def breit_wigner(self):
        """The library's Breit-Wigner functions and the one-channel one-pole K-matrices."""
        import ampform.dynamics as dyn
        from ampform.dynamics import kmatrix as km

        B = self.B
        s, m, G = B["s"], B["m"][1], B["Gamma"][1, 0]
        self.add("bw", ["s", "m_1", "Gamma_1_0"], dyn.relativistic_breit_wigner(s, m, G), "bw", dens="bw")
        self.add("bwff", [p for p in rel_param_names(1, 1) if not p.startswith("gamma_")],
                 dyn.relativistic_breit_wigner_with_ff(s, m, G, B["m_a"][0], B["m_b"][0], self.L, self.d, self.phsp), "bw", dens="bwff")
        t = km.NonRelativisticKMatrix.formulate(1, 1)
        self.add("kmNR11", nr_param_names(1, 1), t[0, 0], "formulated-inline", dens="kmNR11")
        for hat, nm in ((True, "kmRelHat11"), (False, "kmRel11")):
            t = km.RelativisticKMatrix.formulate(1, 1, return_t_hat=hat, phsp_factor=self.phsp,
                                                 angular_momentum=self.L, meson_radius=self.d)
            self.add(nm, rel_param_names(1, 1), t[0, 0], "formulated-inline", dens="kmRel11")


# --------------------------------------------------------------------------- occurrences


def phsp_registry():
    """Every PhaseSpaceFactorProtocol implementation of dynamics/phasespace.py (classes with the
    (s, m1, m2) signature) plus the protocol-compliant function."""
    import inspect

    from ampform.dynamics import phasespace as ps

    out = {}
    for name, obj in vars(ps).items():
        if inspect.isclass(obj) and issubclass(obj, sp.Expr) and hasattr(obj, "evaluate"):
            try:
                params = list(inspect.signature(obj).parameters)
            except (TypeError, ValueError):
                continue
            if params[:3] == ["s", "m1", "m2"]:
                out[name] = obj
    if hasattr(ps, "chew_mandelstam_s_wave"):
        out["chew_mandelstam_s_wave"] = ps.chew_mandelstam_s_wave
    return out


def _channel_of(m1, m2) -> int:
    if isinstance(m1, sp.Indexed) and isinstance(m2, sp.Indexed) and m1.indices == m2.indices \
            and str(m1.base.label) == "m_a" and str(m2.base.label) == "m_b":
        return int(m1.indices[0])
    return 99


def _pole_of(x) -> int:
    """0 for the Mandelstam variable `s`, R for `m[R]` or `m[R]**2`, 99 for anything else."""
    if isinstance(x, sp.Symbol) and x.name == "s":
        return 0
    if isinstance(x, sp.Pow) and x.exp == 2:
        x = x.base
    if isinstance(x, sp.Indexed) and str(x.base.label) == "m" and isinstance(x.indices[0], sp.Integer):
        return int(x.indices[0])
    return 99


def occurrences(matrix, registry: dict, extra_classes=()) -> dict:
    """Which phase-space implementations, angular momenta and meson radii occur in a formulated
    matrix (before doit, sums over the poles written out): class of every phase-space node,
    `phsp_factor` attribute and L / radius arguments of every EnergyDependentWidth, L / radius of every
    FormFactor — as sets and itemised per (pole, channel):
        ("W", R, i, phsp, L, d)   energy-dependent width of pole R in channel i
        ("F", R, i, "",   L, d)   form factor of channel i at s (R = 0) or at m_R² (R ≥ 1)
        ("R", R, i, phsp, "", "") phase-space node of channel i at s (R = 0) or at m_R²"""
    from ampform.dynamics import EnergyDependentWidth
    from ampform.dynamics.form_factor import FormFactor

    from tools.corr.C09_runner import unroll_sums

    classes = {c for c in registry.values() if isinstance(c, type)} | set(extra_classes)
    phsp, Ls, ds, items = set(), set(), set(), set()

    def name_of(f):
        return getattr(f, "__name__", repr(f))

    for entry in matrix:
        for node in sp.preorder_traversal(unroll_sums(entry)):
            if isinstance(node, EnergyDependentWidth):
                phsp.add(name_of(node.phsp_factor))
                Ls.add(str(node.angular_momentum))
                ds.add(str(node.meson_radius))
                items.add(("W", _pole_of(node.mass0), _channel_of(node.m_a, node.m_b), name_of(node.phsp_factor),
                           str(node.angular_momentum), str(node.meson_radius)))
            elif isinstance(node, FormFactor):
                Ls.add(str(node.angular_momentum))
                ds.add(str(node.meson_radius))
                items.add(("F", _pole_of(node.s), _channel_of(node.m1, node.m2), "",
                           str(node.angular_momentum), str(node.meson_radius)))
            elif type(node) in classes:
                phsp.add(type(node).__name__)
                a = node.args
                items.add(("R", _pole_of(a[0]), _channel_of(a[1], a[2]) if len(a) >= 3 else 99,
                           type(node).__name__, "", ""))
    return {"phsp": sorted(phsp), "L": sorted(Ls), "d": sorted(ds), "items": sorted(items)}
