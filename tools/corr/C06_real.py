"""C06 — the real-code side: executing histories on real HelicityAmplitudeBuilders.

Used in two ways:
* imported by tools/props/C06.py (in-process histories, world extraction);
* run as a script in a FRESH process (`python tools/corr/C06_real.py`, job as JSON on stdin, result
  as JSON on the last stdout line) for the probes, reference digests and the hash-seed sweep.

A history is a list of JSON-able operations:
  {"op": "new", "r": <reaction name>}
  {"op": "set", "b": i, "field": "align",  "value": "none" | "axis" | "dpd:<k>"}
  {"op": "set", "b": i, "field": "scalar" | "hel", "value": bool}
  {"op": "set", "b": i, "field": "stable", "value": null | [ids]}
  {"op": "set", "b": i, "field": "dyn",    "value": [particle name, dynamics builder name]}
  {"op": "set", "b": i, "field": "naming", "value": 0..3}
  {"op": "bad", "b": i, "what": <name of a malformed assignment>}
  {"op": "reg", "b": i, "topo": <index in the reaction's topology pool>}
  {"op": "permutate", "b": i}
  {"op": "evict"}                      # cache_clear() of every memoised function of the package
  {"op": "formulate", "b": i}
"""

from __future__ import annotations

import hashlib
import itertools
import json
import logging
import re
import sys
import warnings
from pathlib import Path

ROOT = Path(__file__).resolve().parents[2]
CORPUS = ROOT / "corpus" / "C06"

DYNAMICS = ["create_non_dynamic", "create_non_dynamic_with_ff", "create_relativistic_breit_wigner",
            "create_relativistic_breit_wigner_with_ff", "create_analytic_breit_wigner"]
ATTRS = ["intensity", "amplitudes", "parameter_defaults", "kinematic_variables", "components", "reaction_info"]

_reactions: dict = {}


def load_reaction(name: str):
    """One reaction OBJECT per name and process (builders of one history share it)."""
    import qrules.io

    if name not in _reactions:
        _reactions[name] = qrules.io.load(str(CORPUS / f"{name}.json"))
    return _reactions[name]


def fresh_reaction(name: str):
    import qrules.io

    return qrules.io.load(str(CORPUS / f"{name}.json"))


# ------------------------------------------------------------------------------------ digests


def _h(s: str) -> str:
    return hashlib.sha1(s.encode()).hexdigest()[:16]


def _sorted_pools(intensity):
    """srepr of the intensity with the pools of the OUTER PoolSum sorted (diagnosis only)."""
    import sympy as sp

    try:
        pools = [(sp.srepr(s), sorted(sp.srepr(v) for v in vals)) for s, vals in intensity.indices]
        return sp.srepr(intensity.expression) + repr(pools)
    except Exception:  # noqa: BLE001
        return sp.srepr(intensity)


_SIMPLE = (str, int, float, complex, bool, type(None))


def _structure(expr) -> str:
    """What srepr does not show: module-qualified class of every node and its non-SymPy (instance
    `__dict__`) attributes of simple type."""
    import sympy as sp

    if not isinstance(expr, sp.Basic):
        return f"<{type(expr).__module__}.{type(expr).__qualname__}:{expr!r}>"
    parts = []
    for node in sp.preorder_traversal(expr):
        t = type(node)
        s = f"{t.__module__}.{t.__qualname__}"
        extra = getattr(node, "__dict__", None)
        if extra:
            items = []
            for k, v in sorted(extra.items()):
                if isinstance(v, _SIMPLE):
                    items.append(f"{k}={v!r}")
                elif isinstance(v, tuple) and all(isinstance(x, _SIMPLE) for x in v):
                    items.append(f"{k}={v!r}")
            if items:
                s += "{" + ",".join(items) + "}"
        parts.append(s)
    return "|".join(parts)


def _full(expr) -> str:
    import sympy as sp

    return (sp.srepr(expr) if isinstance(expr, sp.Basic) else repr(expr)) + "#" + _structure(expr)


def digest_model(model, reaction) -> dict:
    """srepr + node classes + non-SymPy node attributes per attribute, INCLUDING key order and the
    container / key / value types; `reaction_info` by value and identity."""
    import qrules.io
    import sympy as sp

    def tname(x):
        return f"{type(x).__module__}.{type(x).__qualname__}"

    out = {
        "intensity": _full(model.intensity),
        "amplitudes": tname(model.amplitudes) + ";".join(_full(k) + "=>" + _full(v) for k, v in model.amplitudes.items()),
        "parameter_defaults": tname(model.parameter_defaults)
        + ";".join(_full(k) + "=>" + tname(v) + ":" + repr(v) for k, v in model.parameter_defaults.items()),
        "kinematic_variables": tname(model.kinematic_variables)
        + ";".join(_full(k) + "=>" + _full(v) for k, v in model.kinematic_variables.items()),
        "components": tname(model.components) + ";".join(tname(k) + ":" + k + "=>" + _full(v) for k, v in model.components.items()),
        "reaction_info": ("same-object" if model.reaction_info is reaction else "other-object") + tname(model.reaction_info)
        + json.dumps(qrules.io.asdict(model.reaction_info), cls=qrules.io.JSONSetEncoder, sort_keys=True)
        + "|order:" + _h(repr([repr(t) for t in model.reaction_info.transitions])),
    }
    out["intensity"] = tname(model) + out["intensity"]
    d = {k: _h(v) for k, v in out.items()}
    d["intensity_sorted_pools"] = _h(_sorted_pools(model.intensity))
    d["amp_unordered"] = _h(";".join(sorted(sp.srepr(k) + "=>" + sp.srepr(v) for k, v in model.amplitudes.items())))
    d["kin_unordered"] = _h(";".join(sorted(sp.srepr(k) + "=>" + sp.srepr(v) for k, v in model.kinematic_variables.items())))
    d["n_kin"] = len(model.kinematic_variables)
    d["kin_keys"] = [s.name for s in model.kinematic_variables]
    d["all"] = _h("|".join(d[k] for k in ATTRS))
    return d


def error_digest(e: Exception) -> dict:
    name = type(e).__name__
    if name not in {"ValueError", "KeyError", "NotImplementedError", "TypeError"}:
        name = "Other:" + name
    return {"error": name, "all": "ERR:" + name, "message": str(e)[:200]}


# ------------------------------------------------------------------------------------ caches


def memoised_functions() -> list[tuple[str, object]]:
    """Every object with `cache_clear` reachable from the ampform modules (by introspection)."""
    import importlib
    import pkgutil

    import ampform

    found = {}
    mods = [ampform]
    for m in pkgutil.walk_packages(ampform.__path__, "ampform."):
        try:
            mods.append(importlib.import_module(m.name))
        except Exception:  # noqa: BLE001, S112
            continue
    for mod in mods:
        for name, obj in list(vars(mod).items()):
            cands = [(name, obj)]
            if isinstance(obj, type) and getattr(obj, "__module__", "").startswith("ampform"):
                for n2, o2 in list(vars(obj).items()):
                    o2 = getattr(o2, "__func__", o2)
                    cands.append((f"{name}.{n2}", o2))
            for n, o in cands:
                if callable(getattr(o, "cache_clear", None)) and getattr(o, "__module__", "").startswith("ampform"):
                    found[f"{o.__module__}.{getattr(o, '__qualname__', n)}"] = o
    return sorted(found.items())


def module_level_mutables() -> list[str]:
    """Names of module-level / class-level dict, list, set objects in ampform (state candidates)."""
    import importlib
    import pkgutil

    import ampform

    out = []
    for m in [None, *pkgutil.walk_packages(ampform.__path__, "ampform.")]:
        try:
            mod = ampform if m is None else importlib.import_module(m.name)
        except Exception:  # noqa: BLE001, S112
            continue
        for name, obj in vars(mod).items():
            if name.startswith("__") and name.endswith("__"):
                continue
            if isinstance(obj, (dict, list, set)) and name not in {"__all__"}:
                out.append(f"{mod.__name__}.{name}:{type(obj).__name__}[{len(obj)}]")
            if isinstance(obj, type) and obj.__module__ == mod.__name__:
                for n2, o2 in vars(obj).items():
                    if isinstance(o2, (dict, list, set)) and not n2.startswith("__"):
                        out.append(f"{mod.__name__}.{name}.{n2}:{type(o2).__name__}[{len(o2)}]")
    return sorted(out)


# ------------------------------------------------------------------------------------ topologies


def topology_pool(reaction) -> list:
    """All outgoing-edge permutations of the reaction's topologies, canonically ordered."""
    import attrs

    own = []
    for t in reaction.transitions:
        if t.topology not in own:
            own.append(t.topology)
    pool = set(own)
    for topology in own:
        ids = sorted(topology.outgoing_edge_ids)
        for perm in itertools.permutations(ids):
            mapping = dict(zip(ids, perm))
            pool.add(attrs.evolve(topology, edges={mapping.get(i, i): e for i, e in topology.edges.items()}))
    return sorted(pool, key=repr)


def combinatorics_topologies(reaction, pool) -> list[int]:
    """Topologies of the identical-particle combinatorics (formulate registers them itself)."""
    try:
        from ampform.helicity import _freeze, _perform_combinatorics

        return sorted({pool.index(_freeze(g).topology) for t in reaction.transitions for g in _perform_combinatorics(t)})
    except Exception:  # noqa: BLE001
        return []


def adapter_order(builder, pool) -> list[int]:
    """Current iteration order of the adapter's topology set (indices into the pool)."""
    tops = getattr(builder.adapter, "_HelicityAdapter__topologies", None)
    if tops is None:
        tops = builder.adapter.registered_topologies
    return [pool.index(t) for t in tops]


# ------------------------------------------------------------------------------------ executing


def _alignment(value: str):
    from ampform.helicity.align import NoAlignment
    from ampform.helicity.align.axisangle import AxisAngleAlignment
    from ampform.helicity.align.dpd import DalitzPlotDecomposition

    if value == "none":
        return NoAlignment()
    if value == "axis":
        return AxisAngleAlignment()
    return DalitzPlotDecomposition(reference_subsystem=int(value.split(":")[1]))


def _dynamics(name: str):
    import ampform.dynamics.builder as db

    return getattr(db, name)


BAD_ASSIGNMENTS = {
    "align_str": lambda b: setattr(b.config, "spin_alignment", "dpd"),
    "scalar_int": lambda b: setattr(b.config, "scalar_initial_state_mass", 1),
    "stable_str": lambda b: setattr(b.config, "stable_final_state_ids", {"1"}),
    "hel_none": lambda b: setattr(b.config, "use_helicity_couplings", None),
    "dpd_subsystem_4": lambda b: setattr(b.config, "spin_alignment", _alignment("dpd:4")),
    "dyn_bad_selection": lambda b: b.dynamics.assign(3.5, _dynamics("create_non_dynamic")),
}


OP_CAP_S = 180


class OperationTimeout(Exception):
    pass


class _time_cap:  # noqa: N801
    """Wall-clock cap for one operation (main thread only): a stuck formulate() becomes an error
    outcome `Other:OperationTimeout`, i.e. a digest that differs from every real model."""

    def __init__(self, seconds: int):
        self.seconds = seconds
        self.armed = False

    def __enter__(self):
        import signal
        import threading

        if threading.current_thread() is threading.main_thread():
            def handler(signum, frame):
                raise OperationTimeout(f"operation exceeded {self.seconds}s")

            self.old = signal.signal(signal.SIGALRM, handler)
            signal.setitimer(signal.ITIMER_REAL, self.seconds)
            self.armed = True
        return self

    def __exit__(self, *a):
        import signal

        if self.armed:
            signal.setitimer(signal.ITIMER_REAL, 0)
            signal.signal(signal.SIGALRM, self.old)
        return False


class Executor:
    """Runs a history on the real code; records what the Lean model needs to follow it."""

    def __init__(self, share_reactions: bool = True):
        self.builders: list = []
        self.names: list[str] = []
        self.pools: dict[str, list] = {}
        self.share = share_reactions
        self.last_model = None
        logging.getLogger("ampform").setLevel(logging.ERROR)

    def pool(self, rname: str):
        if rname not in self.pools:
            self.pools[rname] = topology_pool(load_reaction(rname))
        return self.pools[rname]

    def run_op(self, op: dict) -> dict:  # noqa: C901, PLR0912
        import ampform

        kind = op["op"]
        if kind == "new":
            # "fresh": an EQUAL but not identical reaction object (qrules.io round trip)
            reaction = load_reaction(op["r"]) if (self.share and not op.get("fresh")) else fresh_reaction(op["r"])
            b = ampform.get_builder(reaction)
            self.builders.append(b)
            self.names.append(op["r"])
            return {"order": adapter_order(b, self.pool(op["r"]))}
        if kind == "evict":
            for _, f in memoised_functions():
                f.cache_clear()
            return {}
        b = self.builders[op["b"]]
        rname = self.names[op["b"]]
        if kind == "set":
            field, value = op["field"], op["value"]
            if field == "align":
                b.config.spin_alignment = _alignment(value)
            elif field == "scalar":
                b.config.scalar_initial_state_mass = bool(value)
            elif field == "hel":
                b.config.use_helicity_couplings = bool(value)
            elif field == "stable":
                b.config.stable_final_state_ids = None if value is None else list(value)
            elif field == "dyn":
                b.dynamics.assign(value[0], _dynamics(value[1]))
            elif field == "dyn_decay":
                b.dynamics.assign(list(b.dynamics)[value[0]], _dynamics(value[1]))
            elif field == "naming":
                b.naming.insert_parent_helicities = bool(value & 1)
                b.naming.insert_child_helicities = bool(value & 2)
            else:
                raise ValueError(field)
            return {}
        if kind == "bad":
            try:
                with warnings.catch_warnings():
                    warnings.simplefilter("ignore")
                    BAD_ASSIGNMENTS[op["what"]](b)
            except Exception as e:  # noqa: BLE001
                return {"error": error_digest(e)["error"]}
            return {"error": None}
        if kind == "reg":
            pool = self.pool(rname)
            before = set(adapter_order(b, pool))
            b.adapter.register_topology(pool[op["topo"]])
            order = adapter_order(b, pool)
            return {"order": order, "added": sorted(set(order) - before)}
        if kind == "permutate":
            pool = self.pool(rname)
            before = set(adapter_order(b, pool))
            b.adapter.permutate_registered_topologies()
            order = adapter_order(b, pool)
            return {"order": order, "added": sorted(set(order) - before)}
        if kind == "formulate":
            try:
                with warnings.catch_warnings(), _time_cap(OP_CAP_S):
                    warnings.simplefilter("ignore")
                    model = b.formulate()
            except Exception as e:  # noqa: BLE001
                self.last_model = None
                return {"digest": error_digest(e), "order": adapter_order(b, self.pool(rname))}
            self.last_model = model
            return {"digest": digest_model(model, b.reaction), "order": adapter_order(b, self.pool(rname))}
        raise ValueError(kind)

    def run(self, ops: list[dict]) -> list[dict]:
        return [self.run_op(op) for op in ops]


# ------------------------------------------------------------------------------------ world


def mass_ids(name: str, shift: int) -> list[int] | None:
    """`m_12` → [1+shift, 2+shift] (one digit per state id, as `_get_final_state_ids` reads it)."""
    m = re.fullmatch(r"m_\{?(\d+)\}?", name)
    if not m:
        return None
    return [int(c) + shift for c in m.group(1)]


def hexname(s: str) -> str:
    return "".join(f"{ord(c):04x}" for c in s)


def extract_world(rname: str, rid: int, shared: dict) -> tuple[list[str], dict]:
    """Lines describing one reaction to the Lean driver, regenerated from the real code.

    `shared` interns angle-symbol names / expression values across reactions and collects the
    table `"<kind>:<ids csv>" -> real symbol name` of every symbol the model can meet."""
    import sympy as sp

    from ampform.helicity.align.axisangle import AxisAngleAlignment
    from ampform.helicity.align.dpd import _formulate_aligned_amplitude
    from ampform.kinematics.angles import compute_helicity_angles
    from ampform.kinematics.lorentz import compute_invariant_masses, create_four_momentum_symbols

    names: dict[str, int] = shared.setdefault("angle_names", {})
    values: dict[str, int] = shared.setdefault("values", {})
    table: dict[str, str] = shared.setdefault("table", {})
    reaction = fresh_reaction(rname)
    pool = topology_pool(reaction)
    shift = 1
    init = sorted(i + shift for i in reaction.initial_state)
    final = sorted(i + shift for i in reaction.final_state)
    own = sorted({pool.index(t.topology) for t in reaction.transitions})
    csv = lambda l: ",".join(map(str, l)) if l else "-"  # noqa: E731
    comb = combinatorics_topologies(reaction, pool)
    lines = [f"reaction {rid} {csv(init)} {csv(final)} {csv(own)} {csv(comb)}"]
    try:
        import ampform

        decays = [d.parent.particle.name for d in ampform.get_builder(reaction).dynamics]
    except Exception:  # noqa: BLE001
        decays = []
    info = {"init": init, "final": final, "own": own, "comb": comb, "pool": len(pool), "dpd": {}, "axis": None, "decays": decays,
            "particles": sorted({s.particle.name for t in reaction.transitions for i, s in t.states.items()
                                 if i in t.intermediate_states})}

    def declare(kind: int, ids: list[int], name: str):
        key = f"{kind}:{csv(ids)}"
        if table.get(key) != name:
            table[key] = name
            lines.append(f"name {kind} {csv(ids)} {hexname(name)}")

    def mass_groups(expr):
        groups = []
        for s in sorted(expr.free_symbols, key=str):
            if isinstance(s, sp.Symbol) and s.name.startswith("m_") and s.is_nonnegative:
                ids = mass_ids(s.name, shift)
                if ids is not None:
                    groups.append(csv(ids))
                    declare(0, ids, s.name)
        return ";".join(groups) if groups else "-"

    raw = getattr(_formulate_aligned_amplitude, "__wrapped__", _formulate_aligned_amplitude)
    for k in (1, 2, 3):
        try:
            syms = dict(raw(reaction, k)[1])
        except Exception as e:  # noqa: BLE001
            info["dpd"][k] = error_digest(e)["error"]
            continue
        info["dpd"][k] = len(syms)
        for n, (sym, expr) in enumerate(syms.items()):
            lines.append(f"zeta {rid} {k} {n} {mass_groups(expr)}")
            declare(1, [rid, k, n], sym.name)
    try:
        syms = AxisAngleAlignment.define_symbols(reaction)
        info["axis"] = len(syms)
        for n, (sym, expr) in enumerate(syms.items()):
            lines.append(f"axis {rid} {n} {mass_groups(expr)}")
            declare(1, [rid, 0, n], sym.name)
    except Exception as e:  # noqa: BLE001
        info["axis"] = error_digest(e)["error"]
    for ti, topology in enumerate(pool):
        momenta = create_four_momentum_symbols(topology)
        d = {}
        d.update(compute_helicity_angles(momenta, topology))
        d.update(compute_invariant_masses(momenta, topology))
        entries = []
        for sym, expr in d.items():
            vid = values.setdefault(sp.srepr(expr), len(values))
            ids = mass_ids(sym.name, shift) if sym.is_nonnegative else None
            if ids is not None:
                entries.append(f"m:{csv(ids)}={vid}")
                declare(0, ids, sym.name)
            else:
                n = names.setdefault(sym.name, len(names))
                entries.append(f"a:{n}={vid}")
                declare(2, [n], sym.name)
        lines.append(f"topomap {rid} {ti} " + " ".join(entries))
    return lines, info


def topology_maps(rname: str) -> list[dict[str, str]]:
    """Per-topology kinematic-variable maps (name → srepr) of the whole pool (for C06_order)."""
    import sympy as sp

    from ampform.kinematics.angles import compute_helicity_angles
    from ampform.kinematics.lorentz import compute_invariant_masses, create_four_momentum_symbols

    out = []
    for topology in topology_pool(fresh_reaction(rname)):
        momenta = create_four_momentum_symbols(topology)
        d = {}
        d.update(compute_helicity_angles(momenta, topology))
        d.update(compute_invariant_masses(momenta, topology))
        out.append({s.name: sp.srepr(e) for s, e in d.items()})
    return out


# ------------------------------------------------------------------------------------ worker


GAP_REACTIONS = ["chic0_omega_phi", "etac_LLbar"]  # reactions with outer helicity combinations without transition


def intensity_atoms(model) -> list:
    """The set `atoms(sp.Indexed)` of the unfolded intensity, in ITS iteration order
    (what `__define_missing_amplitudes` walks over)."""
    import sympy as sp

    from ampform.sympy import PoolSum

    try:
        from ampform.helicity import _unfold_poolsums

        expr = _unfold_poolsums(model.intensity)
    except ImportError:
        expr = model.intensity.evaluate()
        for node in sp.postorder_traversal(expr):
            if isinstance(node, PoolSum):
                expr = expr.xreplace({node: node.evaluate()})
    return list(expr.atoms(sp.Indexed))


def hash_order_fingerprint(reactions: list[str]) -> dict:
    """Iteration orders of the hash-ordered containers formulate() is known to walk over: the
    adapter's topology set and sets of sympy numbers (used to pick hash seeds that differ)."""
    import sympy as sp

    from ampform.kinematics import HelicityAdapter

    fp = {}
    for r in reactions:
        reaction = fresh_reaction(r)
        pool = topology_pool(reaction)
        ad = HelicityAdapter(reaction)
        tops = getattr(ad, "_HelicityAdapter__topologies", ad.registered_topologies)
        fp["topologies:" + r] = [pool.index(t) for t in tops]
        ad.permutate_registered_topologies()
        tops = getattr(ad, "_HelicityAdapter__topologies", ad.registered_topologies)
        fp["permuted:" + r] = [pool.index(t) for t in tops]
    for r in GAP_REACTIONS:
        if r in reactions:
            try:
                import ampform

                model = ampform.get_builder(fresh_reaction(r)).formulate()
                fp["indexed-atoms:" + r] = [str(a) for a in intensity_atoms(model)]
            except Exception as e:  # noqa: BLE001
                fp["indexed-atoms:" + r] = ["error:" + type(e).__name__]
    fp["stable-ids-set"] = [str(x) for x in {3, 1, 2}] + [str(x) for x in {2, 0, 1}]
    fp["state-id-frozenset"] = [str(x) for x in frozenset({3, 0, 2, 1})]
    fp["half-integers"] = [str(x) for x in {sp.Rational(-1, 2), sp.Rational(1, 2)}]
    fp["half-integers-3/2"] = [str(x) for x in {sp.Rational(-3, 2), sp.Rational(-1, 2), sp.Rational(1, 2), sp.Rational(3, 2)}]
    fp["integers"] = [str(x) for x in {sp.Integer(-1), sp.Integer(0), sp.Integer(1)}]
    fp["symbols"] = [str(x) for x in {sp.Symbol("m_0"), sp.Symbol("m_1"), sp.Symbol("m_01"), sp.Symbol("phi_0")}]
    return fp


def main() -> int:
    job = json.loads(sys.stdin.read())
    sys.path.insert(0, job["src"])
    import os

    if job.get("scan"):
        fp = hash_order_fingerprint(job["scan"])
        print("\nRESULT " + json.dumps({"hashseed": os.environ.get("PYTHONHASHSEED", "unset"), "fingerprint": fp}), flush=True)
        return 0

    res = {"hashseed": os.environ.get("PYTHONHASHSEED", "unset"), "histories": []}
    for hist in job["histories"]:
        ex = Executor(share_reactions=hist.get("share", True))
        res["histories"].append(ex.run(hist["ops"]))
        if hist.get("reset_after"):
            for _, f in memoised_functions():
                f.cache_clear()
            _reactions.clear()
    import ampform

    res["ampform_file"] = ampform.__file__
    print("\nRESULT " + json.dumps(res), flush=True)
    return 0


if __name__ == "__main__":
    sys.exit(main())
