"""Worker for the hash-seed sweep of C01 (rule 6): run as a fresh process with PYTHONHASHSEED set.

stdin: JSON list of {"corpus": name, "cfg": {...}}; stdout: JSON list of {"answer": extracted symbol sets,
"oracle": failures, "order": iteration order of a set of symbol names (to show that the seeds really
produced different iteration orders)}.
"""

from __future__ import annotations

import json
import sys
from pathlib import Path

ROOT = Path(__file__).resolve().parents[2]
sys.path.insert(0, str(ROOT))


def main() -> None:
    from tools.lib import common

    common.use_repo_source()
    from tools.corr import C01_real as R

    corpus = R.load_corpus()
    out = []
    for item in json.load(sys.stdin):
        r = corpus[item["corpus"]]
        cfg = item["cfg"]
        cfg["dyn"] = [tuple(x) for x in cfg["dyn"]]
        if cfg["align"].startswith("d"):
            r = R.relabel_for_dpd(r)
        ans, model = R.real_answer(r, cfg)
        orc = R.oracle(model) if model is not None else []
        order = list({*ans.get("params", []), *ans.get("kin", {})})  # set of str: order depends on the hash seed
        out.append({"answer": ans, "oracle": orc, "order": order})
    json.dump(out, sys.stdout, default=str)


if __name__ == "__main__":
    main()
