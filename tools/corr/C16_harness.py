"""C16 — running scripted directory histories on the REAL `perform_cached_doit`.

A *history* is a list of text lines (the line protocol of lean/Ampverif/Drivers/C16.lean):
`file <name> <content>` (what the directory held before), then `call p mode e`, `step p`,
`crash p`, `ls`.  The same lines are executed

* by the Lean model (one `lean --run` for a whole batch), and
* by `RealRunner` on the real function: every call runs in its own thread; module-level names the
  function uses (`open`, `pathlib.Path.exists`, `pickle.load`, `os.replace`, `os.getpid`) are
  replaced by wrappers that PAUSE the calling thread before the operation, so that a scheduler
  can interleave several calls at exactly the model's step granularity, cut a write into chunks
  (each prefix is a crash point) and kill a call at any pause (`Killed`, a BaseException: the
  function's own `except Exception` cannot swallow it).

Nothing in /repo is edited; all patches are undone when the runner is closed.
"""

from __future__ import annotations

import builtins
import io
import logging
import os
import pathlib
import pickle
import shutil
import tempfile
import threading
from pathlib import Path

from tools.corr import C16_exprs as X
from tools.lib import common

JUNK = [b"garbage", b"\x80\x04\x95", b"\x00" * 16, b"not a pickle at all \xff\xfe", b"\x80\x05N", b"(lp0\n"]
PAUSE_TO_PC = {"exists": "started", "open-r": "willOpen", "load": "willLoad", "open-w": "willCompute",
               "close": None, "replace": "willRename"}
WAIT = 40.0


class Killed(BaseException):
    """Simulated kill of a caller at a pause point."""


class SchedulerStuck(Exception):
    """A call did not reach its next pause point (or its end) within WAIT seconds."""


class Table:
    """The expressions of one history: ids, doit results (canonical value ids), file names."""

    def __init__(self, exprs: list):
        self.exprs = exprs
        self.doits = [e.doit() for e in exprs]
        self.val = []
        for i, d in enumerate(self.doits):
            self.val.append(next(j for j in range(i + 1) if X.deep_equal(self.doits[j], d)))
        self.records = [pickle.dumps((e, d)) for e, d in zip(exprs, self.doits)]
        self.bare = [pickle.dumps(d) for d in self.doits]
        # the key comparison AS THE CODE EVALUATES IT: `cached_key == expr` with cached_key loaded from
        # the record (stored, first index) and expr the request (second index).  Decided by the
        # decorator's _hashable_content; neither reflexive nor injective in general.  The model gets
        # this table (`World.keyEq`); the premise of C16_safe about it is checked by the driver.
        self.stored = [pickle.loads(r)[0] for r in self.records]
        self.key_eq = [[bool(k == e) for e in exprs] for k in self.stored]
        self._names: dict[tuple[str, int], str] = {}
        self._name_ids: dict[str, int] = {}

    def expr_id(self, obj):
        for i, e in enumerate(self.exprs):
            if X.deep_equal(e, obj):
                return i
        return None

    def val_id(self, obj):
        for i, d in enumerate(self.doits):
            if X.deep_equal(d, obj):
                return self.val[i]
        return None

    def real_name(self, mode: str, e: int) -> str:
        """The real cache-file stem for expression e under the hash mode (tabulated from the source)."""
        if (mode, e) not in self._names:
            from ampform.sympy._cache import get_readable_hash

            with hash_mode(mode):
                h = get_readable_hash(self.exprs[e])
            self._names[mode, e] = h
            self._name_ids.setdefault(f"{mode}|{h}", len(self._name_ids))
        return self._names[mode, e]

    def name_id(self, mode: str, e: int) -> int:
        h = self.real_name(mode, e)
        return self._name_ids[f"{mode}|{h}"]

    def header(self, modes) -> list[str]:
        out = [f"expr {i} {v}" for i, v in enumerate(self.val)]
        out.append("keyeq")
        out += [f"eq {i} {j}" for i, row in enumerate(self.key_eq) for j, x in enumerate(row) if x]
        for m in modes:
            for i in range(len(self.exprs)):
                out.append(f"key {m} {i} {self.name_id(m, i)}")
        return out

    def stem_lookup(self) -> dict[str, tuple[str, int]]:
        return {h: (m, self._name_ids[f"{m}|{h}"]) for (m, _), h in self._names.items()}


class hash_mode:
    """PYTHONHASHSEED as seen by get_readable_hash (read from os.environ at call time)."""

    def __init__(self, mode: str):
        self.mode = mode

    def __enter__(self):
        self.old = os.environ.get("PYTHONHASHSEED")
        if self.mode == "sha":
            os.environ.pop("PYTHONHASHSEED", None)
        else:
            os.environ["PYTHONHASHSEED"] = self.mode[4:]

    def __exit__(self, *a):
        if self.old is None:
            os.environ.pop("PYTHONHASHSEED", None)
        else:
            os.environ["PYTHONHASHSEED"] = self.old


class _Proc:
    def __init__(self, p: int):
        self.p = p
        self.go = threading.Semaphore(0)
        self.at = "idle"
        self.killed = False
        self.kill = False
        self.thread = None
        self.event = None
        self.expr = None
        self.trace: list[tuple[str, str]] = []
        self.cuts = None
        self.nchunks = 4
        self.exc = None
        self.in_exists = False
        self.result = None
        self.written = None


class _Writer:
    """File object handed to the code under test for a write: unbuffered, chunked, pausing."""

    def __init__(self, runner, proc, raw):
        self.r, self.proc, self.raw = runner, proc, raw
        self.first = True
        self.closed = False

    def write(self, data):
        data = bytes(data)
        if not self.first or self.proc.killed:
            return self.raw.write(data)
        self.first = False
        n = len(data)
        k = self.proc.nchunks
        default = [min(n, max(1, n * i // k)) for i in range(1, k)]
        cuts = list(self.proc.cuts(n)) if self.proc.cuts else default
        if len(cuts) != k - 1 or any(not (0 <= a <= b <= n) for a, b in zip([0, *cuts], [*cuts, n])):
            cuts = default
        bounds = [0, *cuts, n]
        for i in range(k):
            self.r._pause(self.proc, f"write{i}")
            self.raw.write(data[bounds[i]:bounds[i + 1]])
        self.proc.written = n
        return n

    def flush(self):
        return None

    def close(self):
        if self.closed:
            return
        self.closed = True
        try:
            self.r._pause(self.proc, "close")
        finally:
            self.raw.close()

    def __enter__(self):
        return self

    def __exit__(self, *a):
        self.close()
        return False

    def __getattr__(self, k):
        return getattr(self.raw, k)


class RealRunner:
    def __init__(self, table: Table, nchunks: int = 4):
        common.use_repo_source()
        import ampform.sympy as asym

        self.asym = asym
        self.table = table
        self.nchunks = nchunks
        self.dir = Path(tempfile.mkdtemp(prefix="c16hist_", dir=_scratch_root()))
        self.back = threading.Semaphore(0)
        self.procs: dict[int, _Proc] = {}
        self.by_thread: dict[int, _Proc] = {}
        self.cut_chooser = None
        self.stuck = False
        self.force_pid = None  # set to an int: every caller reports this os.getpid() (threads of ONE process)
        self._limit_memory()
        self._install()

    def _limit_memory(self):
        """A corrupt pickle (possible only when the code under test writes non-atomically) can ask for
        absurd allocations; cap the address space while real calls run (restored in close())."""
        self._old_rlimit = None
        try:
            import resource

            soft, hard = resource.getrlimit(resource.RLIMIT_AS)
            cap = 12 << 30
            if soft == resource.RLIM_INFINITY or soft > cap:
                resource.setrlimit(resource.RLIMIT_AS, (cap, hard))
                self._old_rlimit = (soft, hard)
        except (ImportError, ValueError, OSError):
            pass

    # ------------------------------------------------------------------ hooks
    def _cur(self):
        return self.by_thread.get(threading.get_ident())

    def _mine(self, path) -> bool:
        try:
            return Path(os.fspath(path)).parent == self.dir
        except TypeError:
            return False

    def _pause(self, proc: _Proc, what: str, path: str = ""):
        if proc.killed:
            return
        proc.at = what
        proc.trace.append((what, os.path.basename(str(path))))
        self.back.release()
        if not proc.go.acquire(timeout=WAIT):
            raise Killed
        if proc.kill:
            proc.killed = True
            raise Killed

    def _install(self):
        r = self
        self._saved = {
            "bopen": builtins.open, "ioopen": io.open, "exists": pathlib.Path.exists,
            "osexists": os.path.exists, "isfile": os.path.isfile, "pisfile": pathlib.Path.is_file,
            "load": pickle.load, "loads": pickle.loads,
            "replace": os.replace, "rename": os.rename, "preplace": pathlib.Path.replace, "prename": pathlib.Path.rename,
            "getpid": os.getpid, "popen": pathlib.Path.open,
        }
        s = self._saved

        def my_open(file, mode="r", *a, **k):
            proc = r._cur()
            if proc is None or isinstance(file, int) or not r._mine(file):
                return s["bopen"](file, mode, *a, **k)
            if "r" in mode and "+" not in mode:
                r._pause(proc, "open-r", file)
                return s["bopen"](file, mode, *a, **k)
            r._pause(proc, "open-w", file)
            raw = s["bopen"](file, mode if "b" in mode else mode + "b", buffering=0)
            return _Writer(r, proc, raw)

        def my_path_open(self_, mode="r", *a, **k):
            return my_open(self_, mode, *a, **k)

        def wrap_exists(orig):
            def f(path, *a, **k):
                proc = r._cur()
                if proc is None or proc.in_exists or not r._mine(path):
                    return orig(path, *a, **k)
                r._pause(proc, "exists", path)
                proc.in_exists = True
                try:
                    return orig(path, *a, **k)
                finally:
                    proc.in_exists = False
            return f

        def my_load(f, *a, **k):
            proc = r._cur()
            if proc is not None:
                r._pause(proc, "load")
            return s["load"](f, *a, **k)

        def my_loads(b, *a, **k):
            proc = r._cur()
            if proc is not None:
                r._pause(proc, "load")
            return s["loads"](b, *a, **k)

        def wrap_replace(orig):
            def f(src, dst, *a, **k):
                proc = r._cur()
                if proc is not None and r._mine(dst):
                    r._pause(proc, "replace", dst)
                    proc.trace.append(("replace-src", os.path.basename(str(src))))
                return orig(src, dst, *a, **k)
            return f

        def my_getpid():
            proc = r._cur()
            if proc is None:
                return s["getpid"]()
            return proc.p if r.force_pid is None else r.force_pid

        builtins.open = my_open
        io.open = my_open
        pathlib.Path.open = my_path_open
        pathlib.Path.exists = wrap_exists(s["exists"])
        pathlib.Path.is_file = wrap_exists(s["pisfile"])
        os.path.exists = wrap_exists(s["osexists"])
        os.path.isfile = wrap_exists(s["isfile"])
        pickle.load = my_load
        pickle.loads = my_loads
        os.replace = wrap_replace(s["replace"])
        os.rename = wrap_replace(s["rename"])
        pathlib.Path.replace = wrap_replace(s["preplace"])
        pathlib.Path.rename = wrap_replace(s["prename"])
        os.getpid = my_getpid

    def close(self):
        for proc in list(self.procs.values()):
            if proc.at != "idle" and not self.stuck:
                try:
                    self._crash(proc)
                except SchedulerStuck:
                    break
        s = self._saved
        builtins.open = s["bopen"]
        io.open = s["ioopen"]
        pathlib.Path.open = s["popen"]
        pathlib.Path.exists = s["exists"]
        pathlib.Path.is_file = s["pisfile"]
        os.path.exists = s["osexists"]
        os.path.isfile = s["isfile"]
        pickle.load = s["load"]
        pickle.loads = s["loads"]
        os.replace = s["replace"]
        os.rename = s["rename"]
        pathlib.Path.replace = s["preplace"]
        pathlib.Path.rename = s["prename"]
        os.getpid = s["getpid"]
        if self._old_rlimit is not None:
            import resource

            try:
                resource.setrlimit(resource.RLIMIT_AS, self._old_rlimit)
            except (ValueError, OSError):
                pass
        shutil.rmtree(self.dir, ignore_errors=True)

    def __enter__(self):
        return self

    def __exit__(self, *a):
        self.close()

    # ------------------------------------------------------------------ directory
    def path_of(self, name: str) -> Path:
        parts = name.split("/")
        stems = {(m, i): h for h, (m, i) in self.table.stem_lookup().items()}
        if parts[0] == "F":
            return self.dir / f"{stems[parts[1], int(parts[2])]}.pkl"
        if parts[0] == "T":
            return self.dir / f"{stems[parts[1], int(parts[2])]}.pkl.{parts[3]}.tmp"
        return self.dir / f"other{parts[1]}.bin"

    def content_bytes(self, content: str, rng) -> bytes:
        c = content.split("/")
        if c[0] == "new":
            rec = self.table.records[int(c[1])]
            k = int(c[3])
            return rec if k >= 4 else b"" if k == 0 else rec[: rng.randrange(1, len(rec))]
        if c[0] == "old":
            e = next(i for i, v in enumerate(self.table.val) if v == int(c[1]))
            rec = self.table.bare[e]
            k = int(c[2])
            return rec if k >= 3 else b"" if k == 0 else rec[: rng.randrange(1, len(rec))]
        if c[0] == "junk":
            return JUNK[int(c[1]) % len(JUNK)]
        if c[0] == "empty":
            return b""
        if c[0] == "tail":
            return self.table.records[int(c[1])] + b"\x00trailing" * max(1, int(c[3]))
        raise ValueError(content)

    def add_file(self, name: str, content: str, rng):
        self._saved["bopen"](self.path_of(name), "wb").write(self.content_bytes(content, rng))

    def add_raw(self, name: str, data: bytes):
        with self._saved["bopen"](self.path_of(name), "wb") as f:
            f.write(data)

    def ls(self) -> str:
        look = self.table.stem_lookup()
        items = []
        for fn in sorted(os.listdir(self.dir)):
            p = self.dir / fn
            if fn.endswith(".pkl") and fn[:-4] in look:
                m, i = look[fn[:-4]]
                name = f"F/{m}/{i}"
            elif fn.endswith(".tmp") and ".pkl." in fn and fn.split(".pkl.")[0] in look:
                m, i = look[fn.split(".pkl.")[0]]
                name = f"T/{m}/{i}/{fn.split('.pkl.')[1][:-4]}"
            elif fn.startswith("other") and fn.endswith(".bin"):
                name = f"O/{fn[5:-4]}"
            else:
                name = f"X/{fn}"
            items.append(f"{name}={self.classify_file(p)}")
        return " ".join(["ls", *sorted(items)])

    def classify_file(self, p: Path) -> str:
        try:
            with self._saved["bopen"](p, "rb") as f:
                obj = self._saved["load"](f)
        except Exception:  # noqa: BLE001
            return "fail"
        if isinstance(obj, tuple) and len(obj) == 2:
            return f"pair:{self._id(self.table.expr_id(obj[0]))}:{self._id(self.table.val_id(obj[1]))}"
        v = self.table.val_id(obj)
        return f"bare:{self._id(v)}"

    @staticmethod
    def _id(x):
        return "unknown" if x is None else x

    # ------------------------------------------------------------------ operations
    def pc(self, proc: _Proc) -> str:
        at = proc.at
        if at.startswith("write"):
            return "writing" + at[5:]
        if at == "close":
            return f"writing{proc.nchunks}"
        if at == "idle":
            return "idle"
        return PAUSE_TO_PC.get(at, at)

    def _wait(self):
        if not self.back.acquire(timeout=WAIT):
            self.stuck = True
            raise SchedulerStuck(f"a call did not reach its next pause point within {WAIT:.0f} s")

    def call(self, p: int, mode: str, e: int) -> str:
        proc = self.procs.get(p)
        if proc is not None and proc.at != "idle":
            return f"{self.pc(proc)} -"
        proc = _Proc(p)
        proc.nchunks = self.nchunks
        proc.cuts = self.cut_chooser
        proc.expr = e
        self.procs[p] = proc
        expr = self.table.exprs[e]
        self.table.real_name(mode, e)
        fn = self.asym.perform_cached_doit
        cache_dir = self.dir

        def body():
            self.by_thread[threading.get_ident()] = proc
            try:
                res = fn(expr, cache_dir)
                proc.event = self.classify_result(res)
                proc.result = res
            except Killed:
                proc.event = None
            except Exception as ex:  # noqa: BLE001
                proc.event = "raised"
                proc.exc = f"{type(ex).__name__}: {ex}"[:300]
            finally:
                self.by_thread.pop(threading.get_ident(), None)
                proc.at = "idle"
                self.back.release()

        with hash_mode(mode):
            proc.thread = threading.Thread(target=body, daemon=True)
            proc.at = "starting"
            proc.thread.start()
            self._wait()
        return self._reply(proc)

    def classify_result(self, res) -> str:
        if isinstance(res, tuple):
            return "tuple"
        v = self.table.val_id(res)
        return f"value:{self._id(v)}"

    def _reply(self, proc: _Proc) -> str:
        if proc.at == "idle":
            ev = proc.event
            proc.event = None
            if proc.thread is not None:
                proc.thread.join(timeout=WAIT)
                proc.thread = None
            if ev is None:
                return "idle -"
            return f"idle ret:{proc.p}:{proc.expr}:{ev}"
        return f"{self.pc(proc)} -"

    def step(self, p: int) -> str:
        proc = self.procs.get(p)
        if proc is None or proc.at == "idle":
            return "idle -"
        proc.go.release()
        self._wait()
        return self._reply(proc)

    def _crash(self, proc: _Proc):
        proc.kill = True
        proc.go.release()
        self._wait()
        if proc.thread is not None:
            proc.thread.join(timeout=WAIT)
            proc.thread = None
        proc.event = None

    def crash(self, p: int) -> str:
        proc = self.procs.get(p)
        if proc is None or proc.at == "idle":
            return "idle -"
        self._crash(proc)
        return "idle -"

    def run_line(self, line: str, rng) -> str | None:
        t = line.split()
        if t[0] == "file":
            self.add_file(t[1], t[2], rng)
            return None
        if t[0] == "call":
            return self.call(int(t[1]), t[2], int(t[3]))
        if t[0] == "step":
            return self.step(int(t[1]))
        if t[0] == "crash":
            return self.crash(int(t[1]))
        if t[0] == "ls":
            return self.ls()
        raise ValueError(line)


def _scratch_root() -> str:
    """Scratch space (removed when the runner closes); outside /repo and /verif."""
    cand = os.environ.get("VERIF_SCRATCH")
    if cand and os.path.isdir(cand) and os.access(cand, os.W_OK):
        return cand
    return tempfile.gettempdir()


def quiet_logging():
    logging.getLogger("ampform").setLevel(logging.CRITICAL)
    logging.getLogger("ampform.sympy").setLevel(logging.CRITICAL)
    logging.getLogger("ampform.sympy._cache").setLevel(logging.CRITICAL)


def variant_line(v: dict) -> str:
    return "variant " + " ".join(f"{k}={int(bool(v[k]))}" for k in
                                 ("storesKey", "checksKey", "atomic", "tolerant", "tempPerCaller"))


def run_model(variant: dict, histories: list[list[str]]) -> list[list[str]]:
    """Run a batch of histories on the Lean model; returns the reply lines per history."""
    text = [variant_line(variant)]
    expect = []
    for h in histories:
        text.append("reset")
        text += h
        expect.append(sum(1 for line in h if line.split()[0] in ("call", "step", "crash", "ls")))
    out = common.lean_run("Ampverif/Drivers/C16.lean", "\n".join(text) + "\n")
    lines = out.strip().split("\n") if out.strip() else []
    if len(lines) != sum(expect) or any(x == "bad-op" for x in lines):
        raise common.LeanRunError(f"driver returned {len(lines)} lines for {sum(expect)} requests; "
                                  f"bad-op at {[i for i, x in enumerate(lines) if x == 'bad-op'][:3]}")
    res, i = [], 0
    for n in expect:
        res.append(lines[i:i + n])
        i += n
    return res
