"""C18/C14 — the CONSTRUCTOR stream: `PoolSum.__new__` vs the Lean model `psumNew` (Model/ExprNew.lean).

The dimension is the KIND of Python object handed over as an index value pool (the signature documents
`Iterable`): list, tuple, range, set, frozenset, sympy Tuple, dict / keys view / values view, generator
expression, map / filter objects, map over a zip object, iter(...), reversed(...), itertools objects — with
rational pool values given as Python ints, Fractions, SymPy numbers, symbolic and compound values, literal
duplicates, pools whose entries become equal under a substitution, empty pools / exhausted iterators.

The real object is ALWAYS constructed from the original iterable object (a fresh one per construction); the model
is told what iterating the object yields and whether it is a one-shot iterator.  Results that are pool sums are
compared with the model's result rebuilt WITHOUT `PoolSum.__new__` (`C18m1.to_sympy_raw`), so a normalisation
inside the constructor cannot cancel out of the comparison.

`oracle` evaluates the property statement itself on the constructed objects (explicit sum over the values that
were put in, no Lean, no model).
"""

from __future__ import annotations

import itertools
import operator
from fractions import Fraction

from tools.corr import C18 as base
from tools.corr import C18m1 as m1

DRIVER = base.DRIVER
DRIVER_MODULES = base.DRIVER_MODULES

CLASS_NEW = "a PoolSum constructed from an iterable of values is not the sum over those values"
CLASS_SUBS = "substitution that identifies pool entries does not commute with evaluation (multiplicity lost)"


def _gen(vals):
    return (v for v in vals)


def _dictkeys(vals):
    return dict.fromkeys(vals).keys()


def _dict(vals):
    return dict.fromkeys(vals)


def _dictvalues(vals):
    return dict(enumerate(vals)).values()


def _sympy_tuple(vals):
    import sympy as sp

    return sp.Tuple(*vals)


# kind -> (factory(list of values) -> iterable object, one-shot?, what ONE iteration yields given the object)
KINDS = {
    "list": (list, False),
    "tuple": (tuple, False),
    "sympy.Tuple": (_sympy_tuple, False),
    "set": (set, False),
    "frozenset": (frozenset, False),
    "dict": (_dict, False),
    "dict.keys()": (_dictkeys, False),
    "dict.values()": (_dictvalues, False),
    "generator": (_gen, True),
    "map": (lambda vals: map(lambda v: v, vals), True),  # noqa: C417
    "filter": (lambda vals: filter(lambda v: True, vals), True),  # noqa: ARG005
    "map-over-zip": (lambda vals: map(operator.itemgetter(0), zip(vals, vals)), True),
    "iter(list)": (lambda vals: iter(list(vals)), True),
    "iter(tuple)": (lambda vals: iter(tuple(vals)), True),
    "reversed(list)": (lambda vals: reversed(list(vals)[::-1]), True),
    "itertools.chain": (lambda vals: itertools.chain(vals[:1], vals[1:]), True),
    "itertools.islice": (lambda vals: itertools.islice(list(vals), len(vals)), True),
}
UNORDERED = {"set", "frozenset"}
DEDUPING = {"set", "frozenset", "dict", "dict.keys()"}  # the OBJECT holds each value once (not the constructor)


def py_value(ast, rng, ctx):
    """A pool value as the caller might write it: rationals as Python int / Fraction / SymPy number."""
    import sympy as sp

    if ast[0] == "rat":
        p, q = ast[1], ast[2]
        r = rng.random()
        if q == 1 and r < 0.45:
            return int(p), "int"
        if r < 0.65:
            return Fraction(p, q), "Fraction"
        return sp.Rational(p, q), "sympy"
    return m1.to_sympy(ast, ctx), "term"


def make_pool(kind, asts, rng, ctx, stats):
    """(factory producing a FRESH iterable each call, what the model is told it yields (ASTs), one-shot?)."""
    import sympy as sp

    fac, one_shot = KINDS[kind]
    if kind == "range":
        raise AssertionError
    vals = []
    for a in asts:
        v, rep = py_value(a, rng, ctx)
        stats["value_representation"][rep] = stats["value_representation"].get(rep, 0) + 1
        vals.append(v)
    if kind in DEDUPING or kind in UNORDERED:
        # equal numbers in different representations (1, Fraction(1), Integer(1)) are ONE element of a set/dict:
        # what the object yields is decided by Python, observed on an object of the same construction
        obj = fac(vals)
        yielded = [m1.from_sympy(sp.sympify(v), ctx) for v in obj]
        if kind in UNORDERED:
            # iteration order of a set is fixed for one object only: hand the SAME object to the constructor
            return (lambda obj=obj: obj), yielded, one_shot
        return (lambda: fac(vals)), yielded, one_shot
    return (lambda: fac(vals)), [m1.from_sympy(sp.sympify(v), ctx) for v in vals], one_shot


def range_pool(rng):
    start, n, step = rng.choice([-2, -1, 0, 1]), rng.randint(1, 3), rng.choice([1, 1, 2])
    r = range(start, start + n * step, step)
    return (lambda: r), [("rat", k, 1) for k in r], False


def gen_values(rng, size, allowed, stats, dup_p=0.3):
    vals = [base.gen_pool_value(rng, allowed, [], stats) for _ in range(size)]
    if size >= 2 and rng.random() < dup_p:
        vals[rng.randrange(1, size)] = vals[0]
        stats["pools_with_literal_duplicates"] += 1
    return vals


def identifying_substitutions(rng, pools, frees_in_body):
    """Substitutions that make two entries of one pool equal: [(label, [(sym, term), ...])]."""
    out = []
    for _, vals in pools:
        syms = [v for v in vals if v[0] == "sym"]
        rats = [v for v in vals if v[0] == "rat"]
        if len(set(syms)) >= 2:
            a, b = list(dict.fromkeys(syms))[:2]
            c = base.rat(rng)
            out.append(("both->same number", [(a, c), (b, c)]))
            out.append(("one->other", [(a, b)]))
            other = [s for s in base.FREE if s not in (a, b)]
            if other:
                t = rng.choice(other)
                out.append(("both->same symbol", [(a, t), (b, t)]))
        if syms and rats:
            out.append(("symbol->literal entry", [(syms[0], rats[0])]))
        comp = [v for v in vals if v[0] == "add" and len(v[1]) == 2 and {v[1][0][0], v[1][1][0]} == {"sym", "rat"}]
        for v in comp[:1]:
            s, r = sorted(v[1], key=lambda t: t[0] != "sym")
            tgt = Fraction(rng.choice([1, 2, 3]))
            out.append(("compound entry -> number; other entry -> same number",
                        [(s, ("rat", *_fr(tgt - Fraction(r[1], r[2]))))]
                        + [(w, ("rat", *_fr(tgt))) for w in dict.fromkeys(syms) if w != s][:1]))
    return out


def _fr(f: Fraction):
    return (f.numerator, f.denominator)


def gen_cases(rng, n_random, ctx, stats):
    """Cases: dict(body AST, pools [(sym AST, kind, factory, yielded ASTs, one_shot)], subs requests)."""
    cases = []

    def add(label, body, pools_spec):
        pools = []
        for s, kind, asts in pools_spec:
            if kind == "range":
                fac, yielded, os_ = range_pool(rng)
            else:
                fac, yielded, os_ = make_pool(kind, asts, rng, ctx, stats)
            pools.append((s, kind, fac, yielded, os_))
            stats["kinds"][kind] = stats["kinds"].get(kind, 0) + 1
            stats["empty_pools"] += int(not yielded)
        cases.append({"label": label, "body": body, "pools": pools})

    i, j, k = base.IDX[0], base.IDX[1], base.IDX[2]
    x = base.FREE[0]
    n, m = base.POOLSYM
    one, two, half = ("rat", 1, 1), ("rat", 2, 1), ("rat", 1, 2)
    f_i = ("app", "f:f", [i])
    # ---- every input kind, every run: one index, three values; and as the SECOND of two indices
    for kind in [*KINDS, "range"]:
        body = ("add", [("mul", [x, f_i]), ("pow", i, 2)])
        add(f"kind {kind}", body, [(i, kind, [("rat", 0, 1), one, ("rat", 3, 2)] if kind != "range" else None)])
        body2 = base.gen_poly(rng, [i, j, x], 1)
        add(f"kind {kind} beside a list", body2,
            [(i, "list", gen_values(rng, 2, [n, m], stats, 0.0)),
             (j, kind, gen_values(rng, rng.randint(1, 3), [n, m, base.FREE[3]], stats) if kind != "range" else None)])
    # ---- literal duplicates and pools whose entries can be identified, in re-iterable and one-shot kinds
    for kind in ("tuple", "list", "generator", "map", "iter(list)", "dict.values()", "sympy.Tuple"):
        add(f"literal duplicates (1,1) as {kind}", ("pow", ("add", [x, i]), 2), [(i, kind, [one, one])])
        add(f"three equal rationals as {kind}", f_i, [(i, kind, [half, half, half])])
        add(f"equal symbols (n,n) as {kind}", ("mul", [x, f_i]), [(i, kind, [n, n])])
        add(f"symbolic pool (n,m) as {kind}", ("pow", ("add", [x, i]), 2), [(i, kind, [n, m])])
        add(f"symbolic pool (n,2) and (m+1,3,m) as {kind}", ("app", "f:h", [i, j]),
            [(i, kind, [n, two]), (j, kind, [("add", [m, one]), ("rat", 3, 1), m])])
        add(f"singleton symbolic pool as {kind}", ("app", "f:h", [i, j]), [(i, kind, [n]), (j, kind, [n, m])])
    # ---- empty pools: the ValueError, for an empty container and an exhausted iterator, first/second index
    for kind in ("list", "tuple", "set", "generator", "iter(list)", "dict.keys()"):
        add(f"empty pool as {kind}", f_i, [(i, kind, [])])
        add(f"empty second pool as {kind}", ("app", "f:h", [i, j]), [(i, "list", [one, two]), (j, kind, [])])
    add("no indices", ("add", [x, one]), [])
    # ---- random
    kinds = [*KINDS, "range"]
    for _ in range(n_random):
        n_idx = rng.choice([1, 1, 2, 2, 3])
        idxs = rng.sample(base.IDX, n_idx)
        used = [s for s in idxs if rng.random() < 0.85]
        frees = rng.sample(base.FREE, rng.randint(0, 2))
        body = base.gen_poly(rng, used + frees, 2)
        allowed = [s for s in base.POOLSYM + base.FREE if s not in idxs]
        spec = []
        for s in idxs:
            kind = rng.choice(kinds)
            spec.append((s, kind, None if kind == "range" else gen_values(rng, rng.choice([1, 2, 2, 3, 3]), allowed, stats)))
        add("random", body, spec)
    for c in cases:
        pools_ast = [(s, y) for s, _, _, y, _ in c["pools"]]
        c["expected"] = ("psum", c["body"], pools_ast)
        c["subs"] = identifying_substitutions(rng, pools_ast, None)
        stats["identifying_substitutions"] += len(c["subs"])
        c["env"] = {s: Fraction(rng.randint(-4, 4), rng.choice([1, 2, 3])) for s in base.FREE + base.IDX + base.POOLSYM}
    return cases


def construct(c, ctx, evaluate=False):
    """The real constructor on FRESH original iterables of the recorded kinds."""
    from ampform.sympy import PoolSum

    body = m1.to_sympy(c["body"], ctx)
    idx = [(m1.to_sympy(s, ctx), fac()) for s, _, fac, _, _ in c["pools"]]
    if evaluate:
        return PoolSum(body, *idx, evaluate=True)
    return PoolSum(body, *idx)


def well_typed_args(obj) -> str:
    """`args` of a constructed PoolSum: (expression, Tuple(Symbol, Tuple(Basic, ...)), ...)."""
    import sympy as sp

    if not isinstance(obj.args[0], sp.Basic):
        return "args[0] is not a SymPy object"
    for a in obj.args[1:]:
        if not (isinstance(a, sp.Tuple) and len(a) == 2 and isinstance(a[0], sp.Symbol) and isinstance(a[1], sp.Tuple)
                and all(isinstance(v, sp.Basic) for v in a[1])):
            return f"index argument {a!r} is not Tuple(Symbol, Tuple(values...))"
    return ""


def pool_line(s, yielded, one_shot) -> str:
    return "(pool " + " ".join([m1.show_sym(s), "1" if one_shot else "0", *[m1.show(v) for v in yielded]]) + ")"


def infer_new_variant() -> dict:
    """Probes on the real constructor for the switches of `Ampverif.Model.NewVariant`."""
    import sympy as sp

    from ampform.sympy import PoolSum

    x, i, a, b = sp.symbols("x i a b")
    try:
        two_pass = len(PoolSum(x**i, (i, iter([1, 2, 3]))).indices[0][1]) != 3
    except Exception:  # noqa: BLE001
        two_pass = True
    try:
        drops = (len(PoolSum(x**i, (i, (1, 1))).indices[0][1]) != 2
                 or len(PoolSum(x**i, (i, (a, b))).xreplace({a: sp.Integer(2), b: sp.Integer(2)}).indices[0][1]) != 2)
    except Exception:  # noqa: BLE001
        drops = True
    return {"validateInOwnPass": int(two_pass), "dropsRepeated": int(drops)}


def correspondence(chk, rng, n_random: int) -> list[dict]:  # noqa: C901, PLR0912, PLR0915
    """Real `PoolSum.__new__` (+ every method on the constructed object) vs `psumNew` and the term model."""
    import sympy as sp

    stats = {"kinds": {}, "value_representation": {}, "pools_with_literal_duplicates": 0, "empty_pools": 0,
             "identifying_substitutions": 0, "symbolic_pool_values": 0}
    ctx = m1.Ctx()
    cases = gen_cases(rng, n_random, ctx, stats)
    lines = ["(variant 0 1)"]
    plan = []
    for ci, c in enumerate(cases):
        pl = " ".join(pool_line(s, y, os_) for s, _, _, y, os_ in c["pools"])
        body = m1.show(c["body"])
        canon_body = m1.show(m1.from_sympy(m1.to_sympy(c["body"], ctx), ctx))
        for ev in (0, 1):
            lines.append(f"(new 0 0 {ev} {canon_body} {pl})")
            plan.append((ci, f"new(evaluate={bool(ev)})", None, base._try(construct, c, ctx, bool(ev))))
        del body
        if any(not y for _, _, _, y, _ in c["pools"]):
            continue
        obj = base._try(construct, c, ctx)
        if isinstance(obj, Exception):
            continue  # reported by the `new` request above
        term = m1.show(("psum", m1.from_sympy(obj.args[0], ctx), c["expected"][2]))
        c["obj"], c["term"] = obj, term
        for op, fn in (("evaluate", lambda r: r.evaluate()), ("doit", lambda r: r.doit()), ("cleanup", lambda r: r.cleanup())):
            lines.append(f"({op} {term})")
            plan.append((ci, op, None, base._try(fn, obj)))
        lines.append(f"(free {term})")
        plan.append((ci, "free", None, base._try(base.real_free, obj)))
        lines.append(f"(rebuild 0 0 {term})")
        plan.append((ci, "func(*args)", None, base._try(lambda r: r.func(*r.args), obj)))
        for label, pairs in c["subs"]:
            rp = [(m1.to_sympy(a, ctx), m1.to_sympy(b, ctx)) for a, b in pairs]
            if len(pairs) == 1:
                lines.append(f"(subsnew 0 0 {term} {base.pairs_str(pairs)})")
            else:
                lines.append(f"(subs {term} {base.pairs_str(pairs)})")
            plan.append((ci, "subs: " + label, pairs, base._try(lambda r, rp=rp: r.subs(rp), obj)))
            lines.append(f"(xreplacenew 0 0 {term} {base.pairs_str(pairs)})")
            plan.append((ci, "xreplace: " + label, pairs, base._try(lambda r, rp=rp: r.xreplace(dict(rp)), obj)))
    replies = m1.run_driver(DRIVER, lines, DRIVER_MODULES)
    bad: list[dict] = []
    second, second_plan = [], []
    n_cmp = 0
    for (ci, op, pairs, real_res), line in zip(plan, replies[1:]):
        c = cases[ci]
        rec = {"stream": "constructor", "op": op, "case": c["label"],
               "pools": [(s[1], kind, [m1.show(v) for v in y]) for s, kind, _, y, _ in c["pools"]],
               "summand": m1.show(c["body"]),
               "pairs": None if pairs is None else [(a[1], m1.show(b)) for a, b in pairs]}
        line = line.strip()
        n_cmp += 1
        chk.count(("new", ci, op) if len(c["pools"]) >= 2 else None)
        if line.startswith("(novalues"):
            want = m1.read_sym(m1.parse_sexp(line)[1])
            ok = isinstance(real_res, ValueError) and str(real_res) == f"No values provided for index {want[1]}"
            if not ok:
                bad.append({**rec, "why": "model: ValueError (empty pool)", "real": repr(real_res)[:200]})
            continue
        if isinstance(real_res, Exception):
            bad.append({**rec, "why": f"real code raised {type(real_res).__name__}: {real_res}", "model": line[:200]})
            continue
        model = m1.read_reply(line)
        if model[0] == "err":
            bad.append({**rec, "why": "model error " + model[1]})
            continue
        if op == "free":
            mset = {m1.to_sympy(s, ctx) for s in model[1]}
            if mset != real_res:
                bad.append({**rec, "why": "free symbols differ", "real": sorted(map(str, real_res)), "model": sorted(map(str, mset))})
            continue
        try:
            rebuilt = m1.to_sympy_raw(model, ctx)
        except Exception as e:  # noqa: BLE001
            bad.append({**rec, "why": f"model result cannot be rebuilt: {e!r}", "model": line[:200]})
            continue
        if rebuilt != real_res or sp.srepr(rebuilt) != sp.srepr(real_res):
            bad.append({**rec, "why": "results differ (stored args compared without the constructor)", "real": sp.srepr(real_res)[:300],
                        "model": sp.srepr(rebuilt)[:300]})
            continue
        if op.startswith("new(evaluate=False"):
            w = well_typed_args(real_res)
            if w:
                bad.append({**rec, "why": w})
        second.append(f"(evalatwf {line} {m1.show_env(c['env'])})")
        second_plan.append((rec, c, real_res))
    replies2 = m1.run_driver(DRIVER, [lines[0], *second], DRIVER_MODULES)
    n_eval = 0
    for (rec, c, real_res), line in zip(second_plan, replies2[1:]):
        if line.strip() == "nwf":
            continue
        model_val = m1.read_reply(line)
        try:
            real_val = m1.evaluate(m1.from_sympy(real_res.doit(), ctx), c["env"])
        except Exception as e:  # noqa: BLE001
            bad.append({**rec, "why": f"real result could not be unfolded/evaluated: {e!r}"})
            continue
        n_eval += 1
        if model_val[0] != "rat" or m1.frac_of(model_val) != real_val:
            bad.append({**rec, "why": "Lean denotation of the model result != exact value of real result.doit()",
                        "real_value": str(real_val), "model_value": line.strip()})
    chk.count(None, n_eval)
    stats["cases"] = len(cases)
    stats["comparisons"] = n_cmp
    stats["denotation_comparisons"] = n_eval
    chk.info("constructor_stream_input_distribution", stats)
    return bad


# --------------------------------------------------------------------------- independent oracle


def _explicit_sum(body, idx_syms, value_lists):
    import sympy as sp

    return sp.Add(*[body.xreplace(dict(zip(idx_syms, combi))) for combi in itertools.product(*value_lists)])


def oracle(chk, rng, n_random: int) -> list[dict]:  # noqa: C901
    """The property statement on objects constructed from every input kind: doit/evaluate/cleanup = explicit sum over
    the values that were PUT IN (the lists the iterables were made from); subs/xreplace-then-doit = doit-then-subs
    for substitutions that identify pool entries."""
    from tools.search import C18 as orc

    stats = {"kinds": {}, "value_representation": {}, "pools_with_literal_duplicates": 0, "empty_pools": 0,
             "identifying_substitutions": 0, "symbolic_pool_values": 0}
    ctx = m1.Ctx()
    fails = []
    cases = gen_cases(rng, n_random, ctx, stats)
    all_syms = [m1.to_sympy(s, ctx) for s in base.FREE + base.IDX + base.POOLSYM]
    envs = orc.random_envs(rng, all_syms)
    n = 0
    for c in cases:
        if any(not y for _, _, _, y, _ in c["pools"]):
            continue
        body = m1.to_sympy(c["body"], ctx)
        idx_syms = [m1.to_sympy(s, ctx) for s, *_ in c["pools"]]
        value_lists = [[m1.to_sympy(v, ctx) for v in y] for _, _, _, y, _ in c["pools"]]
        want = _explicit_sum(body, idx_syms, value_lists)
        desc = {"expr": f"PoolSum({body}, " + ", ".join(f"({s}, <{kind} of {[str(v) for v in vl]}>)"
                                                        for s, (_, kind, *_), vl in zip(idx_syms, c["pools"], value_lists)) + ")",
                "how": "+".join(kind for _, kind, *_ in c["pools"])}
        try:
            obj = construct(c, ctx)
            got = {"doit": obj.doit(), "evaluate": obj.evaluate(), "evaluate=True": construct(c, ctx, evaluate=True)}
            used_all = all(s in body.free_symbols or len(vl) == 1 for s, vl in zip(idx_syms, value_lists))
            if used_all:
                got["cleanup().doit()"] = obj.cleanup().doit()
        except Exception as e:  # noqa: BLE001
            fails.append({"class": "the library raised on a valid pool sum", **desc, "error": f"{type(e).__name__}: {e}"})
            continue
        n += 1
        chk.count(("oracle-new", n) if len(idx_syms) >= 2 else None)
        for name, val in got.items():
            if not orc.same_value(val, want, envs):
                fails.append({"class": CLASS_NEW, **desc, "method": name, "observed": str(val)[:200], "explicit": str(want)[:200]})
                break
        pool_free = set().union(*[v.free_symbols for vl in value_lists for v in vl]) if value_lists else set()
        if obj.free_symbols != (body.free_symbols | pool_free) - set(idx_syms):
            fails.append({"class": "free_symbols != free(summand) - indices", **desc,
                          "free_symbols": sorted(map(str, obj.free_symbols))})
        for label, pairs in c["subs"]:
            rp = [(m1.to_sympy(a, ctx), m1.to_sympy(b, ctx)) for a, b in pairs]
            rhs = want.subs(rp)
            for how, fn in (("subs", lambda o, rp=rp: o.subs(rp)), ("xreplace", lambda o, rp=rp: o.xreplace(dict(rp)))):
                if how == "xreplace":
                    rhs = want.xreplace(dict(rp))
                try:
                    lhs = fn(obj).doit()
                except Exception as e:  # noqa: BLE001
                    fails.append({"class": "the library raised on a valid pool sum", **desc, "how": how + ": " + label,
                                  "old": str([str(a) for a, _ in rp]), "new": str([str(b) for _, b in rp]),
                                  "error": f"{type(e).__name__}: {e}"})
                    continue
                if not orc.same_value(lhs, rhs, envs):
                    fails.append({"class": CLASS_SUBS, **desc, "how": how + ": " + label, "old": str([str(a) for a, _ in rp]),
                                  "new": str([str(b) for _, b in rp]), "then_doit": str(lhs)[:200], "doit_then": str(rhs)[:200]})
    chk.info("constructor_oracle_cases", n)
    return fails
