"""Shared helpers for the C03 / C02 correspondence harnesses.

* conversion of qrules transitions into the line protocol of `lean/Ampverif/Drivers/C03.lean`;
* observation of the REAL ampform objects (mapping, coefficient symbols, prefactors read off
  `model.components`);
* seeded generator of synthetic reactions built directly from qrules dataclasses.

ampform/qrules are imported lazily (after `common.use_repo_source()`).
"""

from __future__ import annotations

import itertools
from fractions import Fraction

from tools.lib import common

CORPUS = common.ROOT / "corpus" / "C03"


def hx(s: str) -> str:
    return s.encode().hex()


def unhx(s: str) -> str:
    return bytes.fromhex(s).decode()


# ----------------------------------------------------------------------------- protocol


def _state_tokens(state) -> list[str]:
    p = state.particle
    label = p.latex if p.latex is not None else p.name
    h2 = Fraction(state.spin_projection).limit_denominator(4) * 2
    if h2.denominator != 1:
        raise ValueError(f"spin projection {state.spin_projection} is not a multiple of 1/2")
    return [hx(p.name), hx(label), str(int(h2))]


def node_token(transition, node_id: int) -> str:
    topo = transition.topology
    (pin,) = topo.get_edge_ids_ingoing_to_node(node_id)
    outs = list(topo.get_edge_ids_outgoing_from_node(node_id))
    if len(outs) != 2:
        raise ValueError("not a two-body node")
    inter = transition.interactions[node_id]
    eta = inter.parity_prefactor
    if eta is None:
        eta_s = "-"
    elif float(eta) in (1.0, -1.0):
        eta_s = str(int(eta))
    else:
        raise ValueError(f"parity prefactor {eta} outside the modelled domain")
    if inter.l_magnitude is None or inter.s_magnitude is None:
        ls = "-"
    else:
        ls = f"{int(2 * Fraction(inter.l_magnitude))}:{int(2 * Fraction(inter.s_magnitude))}"
    toks = [eta_s, ls, *_state_tokens(transition.states[pin])]
    for e in outs:
        toks += _state_tokens(transition.states[e])
    return ",".join(toks)


def chain_line(transition) -> str:
    return "chain " + ";".join(node_token(transition, n) for n in transition.topology.nodes)


def lean_block(model_flags: tuple[bool, bool, bool], transitions) -> str:
    p, c, ls = model_flags
    lines = [f"flags {int(p)} {int(c)} {int(ls)}"]
    lines += [chain_line(t) for t in transitions]
    lines.append("end")
    return "\n".join(lines) + "\n"


def parse_lean_blocks(out: str) -> list[dict]:
    blocks = []
    cur = None
    for line in out.splitlines():
        if line.startswith("mapping"):
            cur = {"mapping": [], "chains": [], "wf": None, "repeated": None}
            for kv in line.split()[1:]:
                k, v = kv.split("=")
                cur["mapping"].append((unhx(k), unhx(v)))
        elif line.startswith("chain ") and cur is not None:
            _, name, pre = line.split(" ")
            cur["chains"].append((unhx(name), 1 if pre == "-" else int(pre), pre))
        elif line.startswith("wf ") and cur is not None:
            cur["wf"] = line.split()[1] == "1"
        elif line.startswith("repeated ") and cur is not None:
            cur["repeated"] = int(line.split()[1])
        elif line == "done" and cur is not None:
            blocks.append(cur)
            cur = None
        elif line.strip():
            raise common.LeanRunError(f"unexpected driver output: {line[:200]}")
    return blocks


# ----------------------------------------------------------------------------- the real code


def flag_combinations(canonical: bool):
    """(insert_parent_helicities, insert_child_helicities, insert_ls_combinations|None)."""
    if canonical:
        return [(p, c, ls) for p in (False, True) for c in (False, True) for ls in (True, False)]
    return [(p, c, None) for p in (False, True) for c in (True, False)]


def model_flags(flags) -> tuple[bool, bool, bool]:
    p, c, ls = flags
    return (bool(p), bool(c), bool(ls))


def make_builder(reaction, flags, use_helicity_couplings=False):
    import ampform

    builder = ampform.get_builder(reaction)
    p, c, ls = flags
    naming = builder.naming
    naming.insert_parent_helicities = p
    naming.insert_child_helicities = c
    if ls is not None:
        naming.insert_ls_combinations = ls
    if use_helicity_couplings:
        builder.config.use_helicity_couplings = True
    return builder


def observe(reaction, flags) -> dict:
    """What the real code does: mapping (ordered), per transition (coefficient name, prefactor)."""
    import sympy as sp

    builder = make_builder(reaction, flags)
    model = builder.formulate()
    naming = builder.naming
    mapping = list(naming.parity_partner_coefficient_mapping.items())
    chains = []
    for t in reaction.transitions:
        name = naming.generate_amplitude_name(t)
        comp = model.components.get(f"A_{{{name}}}")
        if comp is None:
            chains.append(("<missing component>", None, name))
            continue
        coeff, _rest = comp.as_coeff_Mul()
        csyms = sorted(s.name for s in comp.free_symbols if isinstance(s, sp.Symbol) and s.name.startswith("C_{"))
        cname = csyms[0] if len(csyms) == 1 else f"<{len(csyms)} coefficient symbols>"
        pre = int(coeff) if coeff.is_Integer else str(coeff)
        chains.append((cname, pre, name))
    return {"mapping": mapping, "chains": chains, "builder": builder, "model": model}


def direct_prefactor(builder, transition):
    """The private method itself (None when it cannot be reached)."""
    fn = getattr(builder, "_HelicityAmplitudeBuilder__generate_amplitude_prefactor", None)
    if fn is None:
        return "unreachable"
    r = fn(transition)
    return None if r is None else (int(r) if r == int(r) else str(r))


# ----------------------------------------------------------------------------- independent oracle (a)


def children_helicities(transition, node_id):
    topo = transition.topology
    return tuple((e, Fraction(transition.states[e].spin_projection).limit_denominator(4))
                 for e in sorted(topo.get_edge_ids_outgoing_from_node(node_id)))


def flipped_nodes(t1, t2):
    """Nodes at which t2 has exactly the reversed daughter helicities of t1; None when the two
    transitions are not related by reversing daughter helicities node by node."""
    if t1.topology != t2.topology:
        return None
    flipped = []
    for n in t1.topology.nodes:
        a = children_helicities(t1, n)
        b = children_helicities(t2, n)
        if any(t1.states[e].particle.name != t2.states[e].particle.name for e, _ in a):
            return None
        ha = [h for _, h in a]
        hb = [h for _, h in b]
        if ha == hb:
            continue
        if [-h for h in ha] == hb:
            flipped.append(n)
        else:
            return None
    return flipped


def oracle_ratio(reaction, obs, rng=None, max_pairs: int = 4000):
    """Property statement on the real objects: transitions sharing one coefficient symbol whose
    daughter helicities are reversed at a set of nodes must have prefactor ratio = Π η of exactly
    those nodes. Returns (#pairs judged, #pairs with a non-empty flip set, failures)."""
    groups: dict[str, list[int]] = {}
    for i, (cname, pre, _) in enumerate(obs["chains"]):
        if pre is None or not isinstance(pre, int) or pre == 0:
            continue
        groups.setdefault(cname, []).append(i)
    judged = nontrivial = 0
    failures = []
    trs = reaction.transitions
    for cname, idx in groups.items():
        pairs = list(itertools.combinations(idx, 2))
        if rng is not None and len(pairs) > max_pairs:
            pairs = rng.sample(pairs, max_pairs)
        for i, j in pairs:
            t1, t2 = trs[i], trs[j]
            fl = flipped_nodes(t1, t2)
            if fl is None:
                continue
            etas1 = [t1.interactions[n].parity_prefactor for n in fl]
            if any(t1.interactions[n].parity_prefactor != t2.interactions[n].parity_prefactor
                   for n in t1.topology.nodes):
                continue  # eta is a property of the node's particles; unequal eta = malformed input
            if any(e is None or float(e) not in (1.0, -1.0) for e in etas1):
                continue
            expected = 1
            for e in etas1:
                expected *= int(e)
            judged += 1
            if fl:
                nontrivial += 1
            ratio = Fraction(obs["chains"][j][1], obs["chains"][i][1])
            if ratio != expected:
                failures.append({
                    "what": "prefactor ratio of two chains sharing a coefficient != product of eta over the flipped nodes",
                    "coefficient": cname,
                    "chain_1": obs["chains"][i][2], "prefactor_1": obs["chains"][i][1],
                    "chain_2": obs["chains"][j][2], "prefactor_2": obs["chains"][j][1],
                    "flipped_nodes": list(fl), "eta_of_flipped_nodes": [int(e) for e in etas1],
                    "expected_ratio": expected, "observed_ratio": str(ratio),
                })
    return judged, nontrivial, failures


# ----------------------------------------------------------------------------- synthetic reactions

_NAMES = ["a", "b", "K0", "p~", "Sigma+", "N(1440)~-", "pi0", "X(3872)", "f(0)(980)", "gamma", "D*0",
          "Lambda(c)+", "rho(770)0", "Z_b", "omega", "B_s0", "eta'", "Delta(1232)++"]


def _latex(rng, name: str, malformed: bool):
    r = rng.random()
    if r < 0.3:
        return None
    if r < 0.6:
        return "\\" + "".join(ch for ch in name if ch.isalnum()) + "^{+}"
    if r < 0.85:
        return name.replace("(", "_{").replace(")", "}") + "_{x}"
    if malformed and r < 0.93:
        return name + " \\to y"
    return name


def synthetic_reaction(rng, canonical: bool = False, malformed: bool = False, max_chains: int = 20,
                       identical: bool = False):
    """A random reaction built directly from qrules dataclasses (one isobar topology, 3–4 final
    states, spins ≤ 3/2, random subset of helicity chains in random order, η from parities).

    Returns (ReactionInfo, description dict)."""
    from qrules.particle import Parity, Particle
    from qrules.quantum_numbers import InteractionProperties
    from qrules.topology import FrozenTransition, create_isobar_topologies
    from qrules.transition import ReactionInfo, State

    n_fs = rng.choice([3, 3, 3, 4])
    topo = rng.choice(create_isobar_topologies(n_fs))
    if rng.random() < 0.5:  # both child orderings: the resonance may carry the smaller or the larger ids
        ids = sorted(topo.outgoing_edge_ids)
        perm = ids[:]
        rng.shuffle(perm)
        topo = topo.relabel_edges(dict(zip(ids, perm)))
    finals = sorted(topo.outgoing_edge_ids)
    inters = sorted(topo.intermediate_edge_ids)
    (initial,) = topo.incoming_edge_ids
    spin2: dict[int, int] = {e: rng.choice([0, 0, 1, 1, 2, 3]) for e in finals}

    def children(e):
        return sorted(topo.get_edge_ids_outgoing_from_node(topo.edges[e].ending_node_id))

    def fill(e):
        if e in spin2:
            return spin2[e]
        c1, c2 = children(e)
        par = (fill(c1) + fill(c2)) % 2
        spin2[e] = rng.choice([par, par + 2])
        return spin2[e]

    fill(initial)
    names = rng.sample(_NAMES, len(topo.edges))
    particles = {}
    for i, e in enumerate([initial, *inters, *finals]):
        nm = names[i]
        particles[e] = Particle(name=nm, pid=100 + i, latex=_latex(rng, nm, malformed), spin=Fraction(spin2[e], 2),
                                mass=1.0 + 0.1 * i, parity=Parity(rng.choice([1, -1])))
    if identical and len(finals) >= 2:
        e1, e2 = rng.sample(finals, 2)
        if spin2[e1] == spin2[e2]:
            particles[e2] = particles[e1]
    # node data
    node_info = {}
    for n in topo.nodes:
        (pin,) = topo.get_edge_ids_ingoing_to_node(n)
        c1, c2 = sorted(topo.get_edge_ids_outgoing_from_node(n))
        pp = int(particles[pin].parity) * int(particles[c1].parity) * int(particles[c2].parity)
        expo = (spin2[pin] - spin2[c1] - spin2[c2]) // 2
        eta = float(pp * (-1) ** (expo % 2))
        conserving = rng.random() > 0.2
        ls_opts = []
        for s in range(abs(spin2[c1] - spin2[c2]), spin2[c1] + spin2[c2] + 1, 2):
            for l2 in range(abs(spin2[pin] - s), spin2[pin] + s + 1, 2):
                if l2 % 2:
                    continue
                if conserving and (-1) ** ((l2 // 2) % 2) != pp:
                    continue
                ls_opts.append((l2 // 2, Fraction(s, 2)))
        node_info[n] = {"pin": pin, "c": (c1, c2), "eta": eta if conserving else None, "ls": ls_opts or [(None, None)]}
    # helicity chains
    edges = [initial, *inters, *finals]

    def valid(h):
        for n, info in node_info.items():
            c1, c2 = info["c"]
            if abs(h[c1] - h[c2]) > spin2[info["pin"]]:
                return False
        return True

    ranges = [list(range(-spin2[e], spin2[e] + 1, 2)) for e in edges]
    total = 1
    for r in ranges:
        total *= len(r)
    chains = []
    if total <= 400:
        for combo in itertools.product(*ranges):
            h = dict(zip(edges, combo))
            if valid(h):
                chains.append(h)
    else:
        seen = set()
        for _ in range(400):
            combo = tuple(rng.choice(r) for r in ranges)
            h = dict(zip(edges, combo))
            if valid(h) and combo not in seen:
                seen.add(combo)
                chains.append(h)
                # parity partner at a random node
                n = rng.choice(sorted(node_info))
                c1, c2 = node_info[n]["c"]
                h2 = dict(h)
                h2[c1], h2[c2] = -h[c1], -h[c2]
                k2 = tuple(h2[e] for e in edges)
                if valid(h2) and k2 not in seen:
                    seen.add(k2)
                    chains.append(h2)
    if not chains:
        return None, None
    rng.shuffle(chains)
    k = rng.randint(min(2, len(chains)), min(max_chains, len(chains)))
    # keep partners together with some probability: take a prefix of a shuffled list
    chains = chains[:k]
    transitions = []
    for h in chains:
        states = {e: State(particles[e], h[e] / 2) for e in edges}
        if canonical:
            ls_lists = [node_info[n]["ls"][:2] for n in sorted(node_info)]
            ls_products = list(itertools.product(*ls_lists))
        else:
            ls_products = [tuple((None, None) for _ in node_info)]
        for lsp in ls_products:
            interactions = {}
            for n, (l, s) in zip(sorted(node_info), lsp):
                eta = node_info[n]["eta"]
                if malformed and eta is not None and rng.random() < 0.3:
                    eta = rng.choice([1.0, -1.0])  # ReactionInfo sorts: None and float must not mix
                interactions[n] = InteractionProperties(l_magnitude=l, s_magnitude=s, parity_prefactor=eta)
            transitions.append(FrozenTransition(topo, states, interactions))
    if canonical and any(i.l_magnitude is None for t in transitions for i in t.interactions.values()):
        return None, None
    reaction = ReactionInfo(transitions, formalism="canonical-helicity" if canonical else "helicity")
    desc = {
        "topology": sorted((e, ed.originating_node_id, ed.ending_node_id) for e, ed in topo.edges.items()),
        "particles": {e: (particles[e].name, particles[e].latex, spin2[e], int(particles[e].parity)) for e in edges},
        "eta": {n: node_info[n]["eta"] for n in node_info},
        "n_transitions": len(transitions),
        "formalism": reaction.formalism,
    }
    return reaction, desc


# ----------------------------------------------------------------------------- rare but legitimate shapes (deterministic)


def build_reaction(topo, spec: dict, canonical: bool, max_chains: int = 48, eta_none=(), initial_helicities=None,
                   edge_helicities=None):
    """A reaction on `topo` with particles `spec[edge] = (name, latex, spin2, parity)`: ALL valid helicity chains (both
    signs of every helicity), thinned evenly to `max_chains`; in the canonical formalism every parity-allowed LS
    combination (at most 3 per node, lowest L first, so explicit L = 0 occurs)."""
    from qrules.particle import Parity, Particle
    from qrules.quantum_numbers import InteractionProperties
    from qrules.topology import FrozenTransition
    from qrules.transition import ReactionInfo, State

    edges = sorted(topo.edges)
    (initial,) = topo.incoming_edge_ids
    particles = {}
    for i, e in enumerate(edges):
        name, latex, spin2, parity = spec[e]
        if name in {p.name for p in particles.values()}:
            particles[e] = next(p for p in particles.values() if p.name == name)
            continue
        particles[e] = Particle(name=name, pid=500 + i, latex=latex, spin=Fraction(spin2, 2), mass=1.0 + 0.13 * i,
                                width=0.1, parity=Parity(parity))
    spin2 = {e: spec[e][2] for e in edges}
    node_info = {}
    for n in topo.nodes:
        (pin,) = topo.get_edge_ids_ingoing_to_node(n)
        c1, c2 = sorted(topo.get_edge_ids_outgoing_from_node(n))
        pp = spec[pin][3] * spec[c1][3] * spec[c2][3]
        expo = (spin2[pin] - spin2[c1] - spin2[c2]) // 2
        conserving = n not in eta_none
        ls_opts = []
        for s2 in range(abs(spin2[c1] - spin2[c2]), spin2[c1] + spin2[c2] + 1, 2):
            for l2 in range(abs(spin2[pin] - s2), spin2[pin] + s2 + 1, 2):
                if l2 % 2 or (conserving and (-1) ** ((l2 // 2) % 2) != pp):
                    continue
                ls_opts.append((l2 // 2, Fraction(s2, 2)))
        ls_opts.sort()
        node_info[n] = {"pin": pin, "c": (c1, c2), "eta": float(pp * (-1) ** (expo % 2)) if conserving else None,
                        "ls": ls_opts[:3] or [(None, None)]}
    ranges = []
    for e in edges:
        r = list(range(-spin2[e], spin2[e] + 1, 2))
        if e == initial and initial_helicities is not None:
            r = [h for h in r if h in initial_helicities]
        if edge_helicities is not None and e in edge_helicities:  # e.g. a photon-like spin-1 state: (-2, 2)
            r = [h for h in r if h in edge_helicities[e]]
        ranges.append(r)
    chains = []
    for combo in itertools.product(*ranges):
        h = dict(zip(edges, combo))
        if all(abs(h[i["c"][0]] - h[i["c"][1]]) <= spin2[i["pin"]] for i in node_info.values()):
            chains.append(h)
    if len(chains) > max_chains:
        step = len(chains) / max_chains
        chains = [chains[int(k * step)] for k in range(max_chains)]
    transitions = []
    for h in chains:
        states = {e: State(particles[e], h[e] / 2) for e in edges}
        ls_products = list(itertools.product(*[node_info[n]["ls"] for n in sorted(node_info)])) if canonical \
            else [tuple((None, None) for _ in node_info)]
        for lsp in ls_products:
            inter = {n: InteractionProperties(l_magnitude=l, s_magnitude=s_, parity_prefactor=node_info[n]["eta"])
                     for n, (l, s_) in zip(sorted(node_info), lsp)}
            transitions.append(FrozenTransition(topo, states, inter))
    return ReactionInfo(transitions, formalism="canonical-helicity" if canonical else "helicity")


def shaped_reactions(big: bool = False) -> dict:
    """Deterministic reactions with the rare shapes of HARDENING rule 5."""
    from qrules.topology import create_isobar_topologies

    t3 = create_isobar_topologies(3)[0]           # -1 -> (3 -> 1 2) 0
    t3r = t3.relabel_edges({0: 2, 2: 0})          # resonance ids (0 1), spectator 2: other child ordering
    t4 = create_isobar_topologies(4)[1]           # -1 -> (4 -> 0 1) (5 -> 2 3): two resonances at the top node
    out = {}
    # explicit L = 0 at a node whose parent has non-zero integer spin (canonical), spin-1 resonance
    out["shape_L0_spin1.can"] = build_reaction(
        t3, {-1: ("X1", "X_{1}", 2, -1), 3: ("R1", None, 2, 1), 0: ("a0", "a^{0}", 0, -1), 1: ("b1", "b_{1}", 2, -1),
             2: ("c0", None, 0, -1)}, canonical=True, max_chains=12 if big else 5)
    # spin 3/2 and spin 2 states, both child orderings (relabelled topology), helicity formalism
    out["shape_spin32_spin2.hel"] = build_reaction(
        t3r, {-1: ("Y2", "Y_{2}", 4, 1), 3: ("D32", "\\Delta^{3/2}", 3, 1), 2: ("n12", None, 1, 1), 0: ("p12", "p", 1, 1),
              1: ("v1", "v_{1}", 2, -1)}, canonical=False, max_chains=40 if big else 14, initial_helicities=(4, 0, -2))
    out["shape_spin32_spin2.can"] = build_reaction(
        t3, {-1: ("Y2", "Y_{2}", 4, 1), 3: ("D32", "\\Delta^{3/2}", 3, 1), 0: ("n12", None, 1, 1), 1: ("p12", "p", 1, 1),
             2: ("v1", "v_{1}", 2, -1)}, canonical=True, max_chains=8 if big else 3, initial_helicities=(4, -2))
    # 4 final states, two resonances at the top node, identical spin-1/2 particles in DIFFERENT branches with all
    # (hence also unequal) helicities; eta = -1 at node 1, +1 elsewhere or vice versa
    out["shape_two_resonances_identical.hel"] = build_reaction(
        t4, {-1: ("Z1", None, 2, -1), 4: ("Ra", "R_{a}", 1, 1), 5: ("Rb", None, 1, -1), 0: ("f12", "f", 1, 1),
             1: ("s0", "s^{0}", 0, -1), 2: ("f12", "f", 1, 1), 3: ("t0", None, 0, 1)}, canonical=False, max_chains=32 if big else 12,
        initial_helicities=(2, 0))
    return out


# ----------------------------------------------------------------------------- repeated two-body decays in ONE chain
#
# The class the streams above never reach: the same two-body decay (same particles; equal or reversed daughter
# helicities, hence the same raw / partner coefficient suffix) at two or three nodes of one chain, e.g.
# X -> R R -> (a b)(a b). There "product of eta over the flipped NODES" and "product over the distinct flipped
# decays / suffixes / eta values" differ.


def repeated_flipped_count(naming, transitions) -> int:
    """On the REAL naming object: number of (chain, node) with the node mapped to a partner suffix while an earlier
    mapped node of the same chain has the same raw suffix (counterpart of `repeatedFlipped` of the Lean model)."""
    mapping = naming.parity_partner_coefficient_mapping
    total = 0
    for t in transitions:
        seen = set()
        for node_id in t.topology.nodes:
            raw = naming.generate_two_body_decay_suffix(t, node_id)
            if mapping.get(raw, raw) == raw:
                continue
            if raw in seen:
                total += 1
            seen.add(raw)
    return total


def repeated_decay_shapes(big: bool = False) -> dict:
    """Deterministic reactions with repeated decays (keys `<base>.hel` / `<base>.can`: pairs for the two-formalism
    oracle)."""
    from qrules.topology import create_isobar_topologies

    t4 = create_isobar_topologies(4)[1]           # -1 -> (4 -> 0 1) (5 -> 2 3)
    t5 = create_isobar_topologies(5)[3]           # -1 -> (5 -> 0 (7 -> 3 4)) (6 -> 1 2)
    out = {}
    # X(0+) -> V V, V(1-) -> g p twice, g photon-like (helicity +-1 only), p pseudoscalar: eta = (+1; -1, -1);
    # the second V has its children in the other edge order (p g): same suffix (children are sorted by name)
    vv = {-1: ("X0", "X_{0}", 0, 1), 4: ("V1", "V", 2, -1), 5: ("V1", "V", 2, -1), 0: ("g1", "g", 2, -1),
          1: ("p0", "p^{0}", 0, -1), 2: ("p0", "p^{0}", 0, -1), 3: ("g1", "g", 2, -1)}
    photon = {0: (-2, 2), 3: (-2, 2)}
    out["rep_vv.hel"] = build_reaction(t4, vv, canonical=False, max_chains=12, edge_helicities=photon)
    out["rep_vv.can"] = build_reaction(t4, vv, canonical=True, max_chains=12, edge_helicities=photon)
    # three flipped nodes with unlike eta: X(1+) -> V V has eta = -1 (J - s1 - s2 = -1), the two V -> g p have +1 here
    # (V(1+)), a second resonance W(1-) -> g p with eta = -1 in the same channel: chains V V, V W, W W
    for tag, par4, par5 in (("vv", 1, 1), ("vw", 1, -1)):
        spec = {-1: ("X1", "X_{1}", 2, 1), 4: ("V1+" if par4 > 0 else "W1-", None, 2, par4),
                5: ("V1+" if par5 > 0 else "W1-", None, 2, par5), 0: ("g1", "g", 2, -1), 1: ("p0", "p^{0}", 0, -1),
                2: ("g1", "g", 2, -1), 3: ("p0", "p^{0}", 0, -1)}
        out[f"rep_unlike_eta_{tag}.hel"] = build_reaction(
            t4, spec, canonical=False, max_chains=28, initial_helicities=(0,), edge_helicities={0: (-2, 2), 2: (-2, 2)})
    # five final states: the same decay N -> f s at two different depths, eta = (e0, e1, -1, -1) with e0 != e1
    five = {-1: ("Y0", "Y_{0}", 0, -1), 5: ("M12", "M", 1, 1), 6: ("N12", "N^{*}", 1, -1), 0: ("s0", "s", 0, -1),
            7: ("N12", "N^{*}", 1, -1), 1: ("f12", "f", 1, 1), 2: ("s0", "s", 0, -1), 3: ("f12", "f", 1, 1),
            4: ("s0", "s", 0, -1)}
    out["rep_two_depths.hel"] = build_reaction(t5, five, canonical=False, max_chains=16)
    if big:
        out["rep_two_depths.can"] = build_reaction(t5, five, canonical=True, max_chains=16)
    return out


def _subtree_shape(topo, e):
    if e in topo.outgoing_edge_ids:
        return ()
    n = topo.edges[e].ending_node_id
    return tuple(sorted(_subtree_shape(topo, c) for c in topo.get_edge_ids_outgoing_from_node(n)))


def repeated_decay_reaction(rng, canonical: bool = False, max_chains: int | None = None):
    """A random reaction (4-6 final states, one isobar topology) in which two or three disjoint subtrees of the
    topology carry the SAME particles (twin subtrees: identical resonances decaying to identical final-state pairs,
    children in either edge order), with helicity chains that reverse the daughter helicities at every subset of the
    twin nodes. Spins <= 3/2 (finals) / <= 2, eta from the parities, photon-like spin-1 finals at random.

    Returns (ReactionInfo, description) or (None, None)."""
    from qrules.particle import Parity, Particle
    from qrules.quantum_numbers import InteractionProperties
    from qrules.topology import FrozenTransition, create_isobar_topologies
    from qrules.transition import ReactionInfo, State

    if max_chains is None:
        max_chains = 12 if canonical else 24
    n_fs = rng.choice([4, 4, 4, 5, 5, 6])
    candidates = []
    for topo in create_isobar_topologies(n_fs):
        by_shape: dict = {}
        for e in topo.intermediate_edge_ids:
            by_shape.setdefault(_subtree_shape(topo, e), []).append(e)
        groups = [g for g in by_shape.values() if len(g) >= 2]
        if groups:
            candidates.append((topo, groups))
    topo, groups = rng.choice(candidates)
    # disjointness: equal shapes of a tree are never nested, so the subtrees of one group are disjoint
    group = sorted(rng.choice(groups))
    k = 3 if len(group) >= 3 and rng.random() < 0.5 else 2
    twins = rng.sample(group, k)
    finals = sorted(topo.outgoing_edge_ids)
    inters = sorted(topo.intermediate_edge_ids)
    (initial,) = topo.incoming_edge_ids
    edges = [initial, *inters, *finals]

    def children(e):
        return sorted(topo.get_edge_ids_outgoing_from_node(topo.edges[e].ending_node_id))

    rep = {e: e for e in edges}

    def pair(e1, e2):
        rep[e2] = e1
        if e1 in finals:
            return
        c1 = sorted(children(e1), key=lambda c: _subtree_shape(topo, c))
        c2 = sorted(children(e2), key=lambda c: (_subtree_shape(topo, c), rng.random()))
        for a, b in zip(c1, c2):
            pair(a, b)

    for other in twins[1:]:
        pair(twins[0], other)
    near_twin = rng.random() < 0.2  # neighbour: one final state of a twin is a DIFFERENT particle of the same spin
    if near_twin:
        e = rng.choice([e for e in finals if rep[e] != e])
        near_edge, near_of = e, rep[e]
        rep[e] = e
    spin2: dict[int, int] = {}
    for e in finals:
        spin2[e] = rng.choice([0, 0, 1, 1, 2, 2, 3]) if rep[e] == e else None
    if near_twin:
        spin2[near_edge] = spin2[near_of] if spin2[near_of] is not None else spin2[near_edge]

    def fill(e):
        if spin2.get(e) is not None:
            return spin2[e]
        if rep[e] != e:
            spin2[e] = fill(rep[e])
            return spin2[e]
        c1, c2 = children(e)
        par = (fill(c1) + fill(c2)) % 2
        spin2[e] = rng.choice([par, par, par + 2])
        return spin2[e]

    for e in edges:
        fill(e)
    if near_twin:
        spin2[near_edge] = spin2[near_of]
    names = rng.sample(_NAMES, len(edges))
    particles = {}
    for i, e in enumerate(edges):
        if rep[e] != e:
            continue
        nm = names[i]
        particles[e] = Particle(name=nm, pid=300 + i, latex=_latex(rng, nm, False), spin=Fraction(spin2[e], 2),
                                mass=1.0 + 0.1 * i, parity=Parity(rng.choice([1, -1])))
    for e in edges:
        particles[e] = particles[rep[e]]
    node_info = {}
    for n in topo.nodes:
        (pin,) = topo.get_edge_ids_ingoing_to_node(n)
        c1, c2 = sorted(topo.get_edge_ids_outgoing_from_node(n))
        pp = int(particles[pin].parity) * int(particles[c1].parity) * int(particles[c2].parity)
        expo = (spin2[pin] - spin2[c1] - spin2[c2]) // 2
        node_info[n] = {"pin": pin, "c": (c1, c2), "eta": float(pp * (-1) ** (expo % 2)), "pp": pp}
    # eta of a node is a property of its particles: decide "parity violating" per decay, not per node
    violating = {}
    for n, info in node_info.items():
        key = (particles[info["pin"]].name, tuple(sorted(particles[c].name for c in info["c"])))
        if key not in violating:
            violating[key] = rng.random() < 0.1
        if violating[key]:
            info["eta"] = None
        c1, c2 = info["c"]
        ls_opts = []
        for s in range(abs(spin2[c1] - spin2[c2]), spin2[c1] + spin2[c2] + 1, 2):
            for l2 in range(abs(spin2[info["pin"]] - s), spin2[info["pin"]] + s + 1, 2):
                if l2 % 2 or (info["eta"] is not None and (-1) ** ((l2 // 2) % 2) != info["pp"]):
                    continue
                ls_opts.append((l2 // 2, Fraction(s, 2)))
        info["ls"] = ls_opts or [(None, None)]
    twin_nodes = sorted(n for n, info in node_info.items() if rep[info["pin"]] != info["pin"] or info["pin"] in twins)
    photon_like = {e for e in finals if spin2[e] == 2 and rep[e] == e and rng.random() < 0.4}
    ranges = {}
    for e in edges:
        r = list(range(-spin2[e], spin2[e] + 1, 2))
        if rep[e] in photon_like:
            r = [-2, 2]
        ranges[e] = r

    def valid(h):
        return all(abs(h[i["c"][0]] - h[i["c"][1]]) <= spin2[i["pin"]] for i in node_info.values())

    seen = set()
    chains = []
    n_bases = 0
    for _ in range(200):
        if len(chains) >= max_chains:
            break
        h = {e: rng.choice(ranges[e]) for e in edges}
        if rng.random() < 0.75:  # equal helicities in the twins: equal suffixes under every naming flag
            for e in edges:
                h[e] = h[rep[e]]
        if not valid(h):
            continue
        n_bases += 1
        flip_sets = [()]
        for n in twin_nodes[:4]:
            flip_sets += [(*fs, n) for fs in flip_sets]
        extra = [n for n in node_info if n not in twin_nodes]
        if extra and rng.random() < 0.5:
            x = rng.choice(extra)
            flip_sets += [(*fs, x) for fs in rng.sample(flip_sets, min(3, len(flip_sets)))]
        for fs in flip_sets:
            # reversing BOTH daughter helicities of a node never invalidates a chain (|l1 - l2| is unchanged and
            # the parent helicity of a node is not constrained by its daughters)
            h2 = dict(h)
            for n in fs:
                for c in node_info[n]["c"]:
                    h2[c] = -h2[c]
            key = tuple(h2[e] for e in edges)
            if key in seen or not valid(h2):
                continue
            seen.add(key)
            chains.append(h2)
    if len(chains) < 2:
        return None, None
    chains = chains[: max(max_chains, 2)]
    rng.shuffle(chains)
    two_ls_node = rng.choice(sorted(node_info))
    transitions = []
    for h in chains:
        states = {e: State(particles[e], h[e] / 2) for e in edges}
        if canonical:
            # two LS combinations at ONE randomly chosen decay (twin nodes then carry equal or unequal LS), one elsewhere
            ls_lists = [node_info[n]["ls"][: (2 if n == two_ls_node else 1)] for n in sorted(node_info)]
            ls_products = list(itertools.product(*ls_lists))
        else:
            ls_products = [tuple((None, None) for _ in node_info)]
        for lsp in ls_products:
            interactions = {n: InteractionProperties(l_magnitude=l, s_magnitude=s_, parity_prefactor=node_info[n]["eta"])
                            for n, (l, s_) in zip(sorted(node_info), lsp)}
            transitions.append(FrozenTransition(topo, states, interactions))
    if canonical and any(i.l_magnitude is None for t in transitions for i in t.interactions.values()):
        return None, None
    reaction = ReactionInfo(transitions, formalism="canonical-helicity" if canonical else "helicity")
    desc = {
        "topology": sorted((e, ed.originating_node_id, ed.ending_node_id) for e, ed in topo.edges.items()),
        "particles": {e: (particles[e].name, particles[e].latex, spin2[e], int(particles[e].parity)) for e in edges},
        "eta": {n: node_info[n]["eta"] for n in node_info},
        "twin_subtrees": list(twins), "twin_nodes": twin_nodes, "near_twin": near_twin,
        "n_transitions": len(transitions), "n_base_chains": n_bases, "formalism": reaction.formalism,
    }
    return reaction, desc


# ----------------------------------------------------------------------------- hash seeds (fresh processes)


def hashseed_runs(reaction_files, seeds, timeout: int = 240):
    """Run tools/corr/C03_hashseed.py concurrently under the given PYTHONHASHSEED values."""
    import json
    import os
    import subprocess

    procs = []
    for hs in seeds:
        env = dict(os.environ)
        env["PYTHONHASHSEED"] = str(hs)
        procs.append(subprocess.Popen([common.PY, str(common.ROOT / "tools" / "corr" / "C03_hashseed.py"),
                                       *map(str, reaction_files)], env=env, stdout=subprocess.PIPE,
                                      stderr=subprocess.PIPE, text=True, cwd=str(common.ROOT)))
    results = []
    for hs, p in zip(seeds, procs):
        try:
            out, err = p.communicate(timeout=timeout)
        except subprocess.TimeoutExpired as e:
            p.kill()
            raise common.InfraError(f"hash-seed subprocess timed out after {timeout}s") from e
        line = [l for l in out.splitlines() if l.startswith("{")]
        if p.returncode != 0 or not line:
            results.append({"hashseed": str(hs), "error": (err or out)[-600:]})
        else:
            results.append(json.loads(line[-1]))
    return results


def compare_hashseed_runs(chk, results, fields, what: str):
    """All runs must agree on `fields`; evidence records how many distinct string-set orders were observed."""
    orders = {r.get("string_set_iteration_order") for r in results if "error" not in r}
    chk.info(f"{what}_hash_seeds", [r.get("hashseed") for r in results])
    chk.info(f"{what}_distinct_string_set_iteration_orders_observed", len(orders))
    bad = []
    for r in results:
        if "error" in r:
            bad.append({"hashseed": r["hashseed"], "error": r["error"]})
    ok = [r for r in results if "error" not in r]
    if ok:
        ref = ok[0]
        for r in ok[1:]:
            for name, d in r["reactions"].items():
                for f in fields:
                    if d.get(f) != ref["reactions"].get(name, {}).get(f):
                        bad.append({"reaction": name, "field": f, "hashseed_a": ref["hashseed"], "hashseed_b": r["hashseed"]})
    for r in ok:
        chk.count(("hashseed", what, r["hashseed"]))
    return bad
