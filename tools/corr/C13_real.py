"""C13 correspondence harness: real DynamicsSelector / formulate() <-> Lean model (Drivers/C13.lean).

* `hist` requests: an assignment history (by name / particle / decay / node / unsupported selection) is
  applied to a real `DynamicsSelector`; after every operation the full choice map is compared.
* `form` requests: the history is applied to a real builder whose dynamics builders RECORD their
  arguments (resonance, variable set); the set of calls and the collected parameter defaults are compared.
* `oracle_*`: the property clauses evaluated on the real code alone (ratio of every chain amplitude
  with / without dynamics; mass and width defaults against the particle table).
"""

from __future__ import annotations

import logging
import struct
from fractions import Fraction

from tools.corr import C01_real as R1
from tools.lib import common

CORPUS13 = common.ROOT / "corpus" / "C13"


def bits(x) -> int:
    c = complex(x)
    if c.imag != 0:
        msg = f"complex default {x}"
        raise ValueError(msg)
    return struct.unpack("<Q", struct.pack("<d", c.real))[0]


ONE = bits(1.0)


def load_corpus() -> dict:
    import qrules.io

    out = dict(R1.load_corpus())
    for p in sorted(CORPUS13.glob("*.json")):
        out[p.stem] = qrules.io.load(str(p))
    return out


# --------------------------------------------------------------------------- decays, encodings


def enc_state(s, tb) -> str:
    return f"{s.id}.{tb.pidx[s.particle.name]}.{R1.two(s.spin_projection)}"


def enc_inter(i) -> str:
    def o(x, f):
        return "x" if x is None else str(f(x))

    return f"{o(i.l_magnitude, int)}.{o(i.s_magnitude, R1.two)}.{o(i.parity_prefactor, int)}"


def enc_decay(d, tb) -> str:
    return "/".join([enc_state(d.parent, tb), enc_state(d.children[0], tb), enc_state(d.children[1], tb), enc_inter(d.interaction)])


def decay_tokens(d, tb) -> list[str]:
    out = []
    for s in (d.parent, d.children[0], d.children[1]):
        out += [str(s.id), str(tb.pidx[s.particle.name]), str(R1.two(s.spin_projection))]
    i = d.interaction
    out += ["-" if i.l_magnitude is None else str(int(i.l_magnitude)),
            "-" if i.s_magnitude is None else str(R1.two(i.s_magnitude)),
            "-" if i.parity_prefactor is None else str(int(i.parity_prefactor))]
    return out


def all_decays(reaction, tb):
    """(own decays, decays of the combinatorics chains) via TwoBodyDecay.from_transition."""
    from ampform.helicity.decay import TwoBodyDecay

    own, chain = [], []
    for k, t in enumerate(reaction.transitions):
        for n in sorted(t.topology.nodes):
            own.append(TwoBodyDecay.from_transition(t, n))
        for ch in tb.chains[k]:
            for n in sorted(ch.topology.nodes):
                chain.append(TwoBodyDecay.from_transition(ch, n))
    return own, chain


# --------------------------------------------------------------------------- operations


def random_ops(rng, reaction, tb, n_ops: int, builder_ids: list[int], allow_bad: bool = True) -> list[dict]:
    """Operations as dicts {kind, obj (python selection), b, tokens (wire)}; may extend tb.particles."""
    import attrs
    from qrules.particle import Particle

    own, chain = all_decays(reaction, tb)
    inter_names = sorted({s.particle.name for t in reaction.transitions for e, s in t.states.items()
                          if e in t.topology.intermediate_edge_ids})
    other_names = sorted({s.particle.name for t in reaction.transitions for s in t.states.values()} - set(inter_names))
    particles = {s.particle.name: s.particle for t in reaction.transitions for s in t.states.values()}
    ops = []
    for _ in range(n_ops):
        b = rng.choice(builder_ids)
        kind = rng.choice(["name"] * 4 + ["part"] * 2 + ["decay"] * 3 + ["node"] * 2 + (["bad"] if allow_bad else []))
        if kind == "name":
            pool = inter_names * 3 + other_names + ["no such particle"]
            s = rng.choice(pool) if pool else "no such particle"
            ops.append({"kind": kind, "obj": s, "b": b, "tokens": ["name", R1.enc_name(s), str(b)], "repr": s})
        elif kind == "part":
            if rng.random() < 0.15:
                name = f"Foreign{len(tb.particles)}"
                p = Particle(name=name, pid=99000 + len(tb.particles), spin=1, mass=9.0 + 0.01 * len(tb.particles))
                tb.pidx[name] = len(tb.particles)
                tb.particles.append(p)
            else:
                p = particles[rng.choice((inter_names * 3 + other_names))]
            ops.append({"kind": kind, "obj": p, "b": b, "tokens": ["part", str(tb.pidx[p.name]), str(b)], "repr": p.name})
        elif kind == "decay":
            r = rng.random()
            if r < 0.55 or not chain:
                d = rng.choice(own)
            elif r < 0.8:
                d = rng.choice(chain)
            else:  # a decay that belongs to no chain of the reaction: shift the parent's projection
                d0 = rng.choice(own)
                d = attrs.evolve(d0, parent=attrs.evolve(d0.parent, spin_projection=d0.parent.spin_projection + 1))
            ops.append({"kind": kind, "obj": d, "b": b, "tokens": ["decay", *decay_tokens(d, tb), str(b)], "repr": enc_decay(d, tb)})
        elif kind == "node":
            ti = rng.randrange(len(reaction.transitions))
            t = reaction.transitions[ti]
            n = rng.choice(sorted(t.topology.nodes))
            ops.append({"kind": kind, "obj": (t, n), "b": b, "tokens": ["node", str(ti), str(n), str(b)], "repr": f"transition {ti} node {n}"})
        else:
            t = reaction.transitions[0]
            obj = rng.choice([42, ["f(0)(980)"], (t,), (t, 0, 1), (t, "0"), 3.5, None])
            ops.append({"kind": kind, "obj": obj, "b": b, "tokens": ["bad", str(b)], "repr": repr(type(obj).__name__)})
    return ops


def describe_ops(ops) -> list:
    return [[o["kind"], o["repr"], o["b"]] for o in ops]


# --------------------------------------------------------------------------- hist requests


def hist_line(covers: bool, reaction, tb, ops) -> str:
    toks = ["hist", str(int(covers)), *R1.reaction_tokens(reaction, tb), "O", str(len(ops))]
    for o in ops:
        toks += o["tokens"]
    return " ".join(toks)


def real_hist(reaction, tb, ops) -> list[str]:
    from ampform.dynamics.builder import create_non_dynamic
    from ampform.helicity import DynamicsSelector

    pool: dict[int, object] = {0: create_non_dynamic}

    def get(b):
        if b not in pool:
            def f(resonance, variable_pool, _b=b):  # noqa: ARG001
                return _b, {}
            pool[b] = f
        return pool[b]

    ids = {}
    lvl = logging.root.manager.disable
    logging.disable(logging.WARNING)
    try:
        sel = DynamicsSelector(reaction)

        def snap():
            items = []
            for d, f in sel.items():
                for k, g in pool.items():
                    if g is f:
                        ids[id(f)] = k
                items.append(f"{enc_decay(d, tb)}={ids.get(id(f), -1)}")
            return ",".join(sorted(items)) or "-"

        out = [snap()]
        for o in ops:
            mark = ""
            try:
                sel.assign(o["obj"], get(o["b"]))
            except NotImplementedError:
                mark = "!"
            out.append(mark + snap())
        return out
    finally:
        logging.disable(lvl)


def parse_hist(line: str) -> list[str]:
    line = line.strip()
    if not line.startswith("ok "):
        return ["bad:" + line[:300]]
    out = []
    for m in line[3:].split("|"):
        mark = "!" if m.startswith("!") else ""
        body = m[1:] if mark else m
        items = [] if body == "-" else body.split(",")
        out.append(mark + (",".join(sorted(items)) or "-"))
    return out


# --------------------------------------------------------------------------- form requests


LIB = {1: "create_relativistic_breit_wigner", 2: "create_relativistic_breit_wigner_with_ff", 3: "create_non_dynamic_with_ff"}
FORM_BUILDERS = [0, 1, 1, 2, 3, 4, 5, 6]


def recording_pool(log: list, introduced: set | None = None):
    """builder id -> callable; every callable records (id, resonance name, variable set) and, in `introduced`,
    the parameters it returned."""
    import sympy as sp

    introduced = set() if introduced is None else introduced

    from ampform.dynamics import builder as bld

    pool = {0: bld.create_non_dynamic}
    for k, fname in LIB.items():
        lib = getattr(bld, fname)

        def rec(resonance, variable_pool, _k=k, _lib=lib):
            log.append((_k, resonance.name, variable_pool))
            v = variable_pool
            expr, pars = _lib(resonance, variable_pool)
            introduced.update(pars)
            # tag factor: which call's expression is multiplied into which chain amplitude (amplitude skeleton)
            ell = sp.Symbol("Lnone") if v.angular_momentum is None else sp.Integer(v.angular_momentum)
            tag = sp.Function(f"Dyn{_k}")(sp.Symbol(resonance.name), v.incoming_state_mass, v.outgoing_state_mass1,
                                          v.outgoing_state_mass2, ell)
            return expr * tag, pars

        pool[k] = rec
    for k in (4, 5, 6, 7):
        def marker(resonance, variable_pool, _k=k):
            log.append((_k, resonance.name, variable_pool))
            v = variable_pool
            ident = resonance.latex or resonance.name
            par = sp.Symbol(f"c_{{{ident}}}")
            f = sp.Function(f"Dyn{_k}")
            ell = sp.Symbol("Lnone") if v.angular_momentum is None else sp.Integer(v.angular_momentum)
            introduced.add(par)
            return par * f(sp.Symbol(resonance.name), v.incoming_state_mass, v.outgoing_state_mass1,
                           v.outgoing_state_mass2, ell), {par: 1.0}

        pool[k] = marker
    return pool


# ---- public builder options (HARDENING rule 5): a dimension of every formulated-model case
#   hc            builder.config.use_helicity_couplings
#   parent/child/ls  naming flags (insert_parent_helicities / insert_child_helicities / insert_ls_combinations)
#   align         n | a (AxisAngleAlignment; only where the unfolded intensity stays small)
#   stable/scalar stable_final_state_ids / scalar_initial_state_mass
# The chain amplitudes depend on hc and the naming flags only (Model/C13Selector.lean `chainSkel`); the other
# options are varied on the real side and must leave the chain amplitudes alone.


def default_cfg(reaction) -> dict:
    d = R1.default_cfg(reaction)
    return {k: d[k] for k in ("hc", "parent", "child", "ls", "align", "stable", "scalar")}


def option_cfg(rng, reaction, index: int) -> dict:
    """`index` cycles deterministically through use_helicity_couplings x alignment; the rest is random."""
    cfg = default_cfg(reaction)
    cfg["hc"] = bool(index % 2)
    want_align = bool((index // 2) % 2)
    if want_align and len(reaction.final_state) >= 3 and R1.unfold_cost(reaction, "a") <= 150:
        cfg["align"] = "a"
    r = rng.random()
    if r < 0.35:  # naming flags (coupling / coefficient names)
        cfg["parent"] = rng.random() < 0.5
        cfg["child"] = rng.random() < 0.6
        cfg["ls"] = rng.random() < 0.6
    if rng.random() < 0.3:
        fs = sorted(reaction.final_state)
        cfg["stable"] = sorted(rng.sample(fs, rng.randint(0, len(fs))))
    cfg["scalar"] = rng.random() < 0.3
    return cfg


def cfg_tokens(cfg: dict | None) -> list[str]:
    cfg = cfg or {"hc": False, "parent": False, "child": True, "ls": True, "align": "n"}
    return ["G", "a" if cfg.get("align") == "a" else "n", *[str(int(cfg[k])) for k in ("hc", "parent", "child", "ls")]]


def describe_cfg(cfg: dict | None):
    return None if cfg is None else {k: cfg[k] for k in ("hc", "parent", "child", "ls", "align", "stable", "scalar")}


def apply_cfg(b, reaction, cfg: dict | None):
    if cfg is None:
        return b
    from ampform.helicity.align import NoAlignment
    from ampform.helicity.align.axisangle import AxisAngleAlignment

    canonical = reaction.formalism in {"canonical-helicity", "canonical"}
    b.config.spin_alignment = AxisAngleAlignment() if cfg["align"] == "a" else NoAlignment()
    b.config.stable_final_state_ids = cfg["stable"]
    b.config.scalar_initial_state_mass = cfg["scalar"]
    b.config.use_helicity_couplings = cfg["hc"]
    b.naming.insert_parent_helicities = cfg["parent"]
    b.naming.insert_child_helicities = cfg["child"]
    if canonical:
        b.naming.insert_ls_combinations = cfg["ls"]
    return b


def form_line(covers: bool, reaction, tb, ops, cfg: dict | None = None) -> str:
    toks = ["form", str(int(covers)), *R1.reaction_tokens(reaction, tb), "M", str(len(tb.particles))]
    for p in tb.particles:
        toks += [str(bits(p.mass)), str(bits(p.width))]
    toks += ["ONE", str(ONE), "O", str(len(ops))]
    for o in ops:
        toks += o["tokens"]
    toks += cfg_tokens(cfg if cfg is not None else default_cfg(reaction))
    return " ".join(toks)


def build_with_ops(reaction, ops, pool, builder=None, cfg: dict | None = None):
    from ampform.helicity import CanonicalAmplitudeBuilder, HelicityAmplitudeBuilder

    canonical = reaction.formalism in {"canonical-helicity", "canonical"}
    b = builder or apply_cfg((CanonicalAmplitudeBuilder if canonical else HelicityAmplitudeBuilder)(reaction), reaction, cfg)
    for o in ops:
        try:
            b.dynamics.assign(o["obj"], pool[o["b"]])
        except NotImplementedError:
            pass
    return b


def call_key(k, name, v, tb) -> str:
    ell = "x" if v.angular_momentum is None else str(int(v.angular_momentum))
    return ":".join([str(k), str(tb.pidx[name]), R1.enc_name(v.incoming_state_mass.name), R1.enc_name(v.outgoing_state_mass1.name),
                     R1.enc_name(v.outgoing_state_mass2.name), R1.enc_name(v.helicity_phi.name), R1.enc_name(v.helicity_theta.name), ell])


def count_items(items) -> dict:
    """multiset of calls: key -> number of (chain, node) pairs that produced it"""
    out: dict = {}
    for it in items:
        out[it] = out.get(it, 0) + 1
    return dict(sorted(out.items()))


DYN_PREFIXES = ("m_{", "\\Gamma_{", "d_{", "c_{")


class ExprTimeout(Exception):
    pass


class nested_time_limit:
    """SIGALRM cap that may be used INSIDE an R1.time_limit block: the outer alarm is re-armed on exit."""

    def __init__(self, seconds: int):
        self.seconds = seconds

    def __enter__(self):
        import signal
        import time

        def handler(signum, frame):
            raise ExprTimeout

        self.t0 = time.time()
        self.old_handler = signal.signal(signal.SIGALRM, handler)
        self.old_remaining = signal.alarm(self.seconds)

    def __exit__(self, *a):
        import signal
        import time

        signal.alarm(0)
        signal.signal(signal.SIGALRM, self.old_handler)
        if self.old_remaining:
            signal.alarm(max(1, int(self.old_remaining - (time.time() - self.t0))))
        return False


def expression_symbols(model, cap: int = 20) -> set | None:
    """names of the free symbols of model.expression (None when unfolding takes longer than the cap)"""
    try:
        with nested_time_limit(cap):
            return {getattr(x, "name", str(x)) for x in model.expression.free_symbols}
    except ExprTimeout:
        return None


def skeleton_of(expr, tb) -> str:
    """coef|couplings|phi:theta;…|dynamics factors of ONE chain amplitude (a product); numbers, Clebsch-Gordan
    coefficients and the markers' own parameter symbols are not part of the skeleton."""
    import sympy as sp
    from sympy.core.function import AppliedUndef
    from sympy.physics.quantum.spin import WignerD

    coef, hs, ds, fs = [], [], [], []

    def nm(x):
        return R1.enc_name(getattr(x, "name", str(x)))

    def visit(f, mult):
        if isinstance(f, sp.Pow) and f.exp.is_Integer and f.exp > 0:
            visit(f.base, mult * int(f.exp))
        elif isinstance(f, sp.Symbol):
            if f.name.startswith("C_{"):
                coef.extend([nm(f)] * mult)
            elif f.name.startswith("H_{"):
                hs.extend([nm(f)] * mult)
        elif isinstance(f, WignerD):
            ds.extend([nm(-f.args[3]) + ":" + nm(f.args[4])] * mult)
        elif isinstance(f, AppliedUndef) and f.func.__name__.startswith("Dyn") and len(f.args) == 5:
            who, inv, m1, m2, ell = f.args
            ell_s = "x" if ell == sp.Symbol("Lnone") else str(ell)
            fs.extend([":".join([f.func.__name__[3:], str(tb.pidx.get(str(who), "?")), nm(inv), nm(m1), nm(m2), ell_s])] * mult)
        elif isinstance(f, sp.Mul):
            for g in f.args:
                visit(g, mult)

    for f in sp.Mul.make_args(expr):
        visit(f, 1)

    def semi(xs):
        return ";".join(sorted(xs)) or "-"

    return "|".join([";".join(sorted(coef)) or "x", semi(hs), semi(ds), semi(fs)])


def _form_answer(model, log, tb, reaction=None, builder=None, introduced=None) -> dict:
    calls = count_items([call_key(k, name, v, tb) for k, name, v in log])
    dfl = {}
    for par, val in model.parameter_defaults.items():
        name = getattr(par, "name", str(par))
        if name.startswith(DYN_PREFIXES):
            dfl[name] = bits(val)
    out = {"calls": calls, "defaults": dict(sorted(dfl.items()))}
    if builder is not None:
        skel = {}
        for k, _t in enumerate(reaction.transitions):
            for j, ch in enumerate(tb.chains[k]):
                name = "A_{" + builder.naming.generate_amplitude_name(ch) + "}"
                comp = model.components.get(name)
                skel[f"{k}/{j}"] = (name, "missing" if comp is None else skeleton_of(comp, tb))
        out["skel"] = skel
        free = expression_symbols(model)
        if free is not None:  # dynamics parameters (by name prefix) that really occur in model.expression
            out["inexpr"] = sorted(n for n in dfl if n in free)
    return out


def real_form(reaction, tb, ops, cfg: dict | None = None):
    log: list = []
    lvl = logging.root.manager.disable
    logging.disable(logging.WARNING)
    try:
        try:
            b = build_with_ops(reaction, ops, recording_pool(log), cfg=cfg)
            model = b.formulate()
        except R1.ERRS as e:
            return {"error": type(e).__name__}, None
        return _form_answer(model, log, tb, reaction, b), model
    finally:
        logging.disable(lvl)


def real_form2(reaction, tb, ops1, ops2, cfg: dict | None = None) -> list[dict]:
    """assign -> formulate -> re-assign -> formulate on ONE builder: answers of both formulate() calls."""
    log: list = []
    pool = recording_pool(log)
    lvl = logging.root.manager.disable
    logging.disable(logging.WARNING)
    out = []
    try:
        b = None
        for ops in (ops1, ops2):
            del log[:]
            try:
                b = build_with_ops(reaction, ops, pool, builder=b, cfg=cfg)
                model = b.formulate()
                out.append(_form_answer(model, log, tb, reaction, b))
            except R1.ERRS as e:
                out.append({"error": type(e).__name__})
        return out
    finally:
        logging.disable(lvl)


def form_agree(real: dict, lean: dict) -> bool:
    """calls and defaults: equal.  skel: the component stored under a chain's name is the model's skeleton of one
    of the chains with that name (identical-particle chains share a name; the last one written survives).
    inexpr: equal whenever the real expression could be unfolded within the cap."""
    a = {k: v for k, v in real.items() if k not in {"skel", "inexpr"}}
    b = {k: v for k, v in lean.items() if k not in {"skel", "inexpr"}}
    if a != b:
        return False
    if "skel" in real:
        ls = lean.get("skel")
        if ls is None or set(ls) != set(real["skel"]):
            return False
        by_name: dict = {}
        for key, (name, _sk) in real["skel"].items():
            by_name.setdefault(name, set()).add(ls[key])
        for key, (name, sk) in real["skel"].items():
            if sk not in by_name[name]:
                return False
    if "inexpr" in real and lean.get("inexpr", 0) is not None and real["inexpr"] != lean.get("inexpr"):
        return False
    return True


def forced_ops(rng, reaction, tb, which: str) -> list[dict]:
    """Deterministic shapes that random histories hit too rarely.
    all_parents : a marker builder on EVERY decaying particle by name (L, masses of every node incl. L = 0 vs None);
    reassign    : by name, then ONE specific decay of that particle gets another builder (same name, same variables)."""
    own, chain = all_decays(reaction, tb)
    parents = sorted({d.parent.particle.name for d in own})
    ops = []
    if which == "all_parents":
        for k, nm in enumerate(parents):
            b = [4, 5, 6][k % 3]
            ops.append({"kind": "name", "obj": nm, "b": b, "tokens": ["name", R1.enc_name(nm), str(b)], "repr": nm})
    else:
        nm = rng.choice(parents)
        cands = [d for d in own if d.parent.particle.name == nm]
        d = rng.choice(cands)
        ops.append({"kind": "name", "obj": nm, "b": 4, "tokens": ["name", R1.enc_name(nm), "4"], "repr": nm})
        ops.append({"kind": "decay", "obj": d, "b": 5, "tokens": ["decay", *decay_tokens(d, tb), "5"], "repr": enc_decay(d, tb)})
    return ops


def parse_form(line: str) -> dict:
    line = line.strip()
    if line.startswith("error "):
        return {"error": line.split()[1]}
    if not line.startswith("ok "):
        return {"bad": line[:300]}
    res = {}
    for part in line[3:].split(" "):
        k, _, v = part.partition("=")
        items = [] if v == "-" else v.split(",")
        if k == "calls":
            res["calls"] = count_items(items)
        elif k == "skel":
            d = {}
            for it in items:
                key, coef, hs, ds, fs = it.split("|")
                d[key] = "|".join([coef] + [";".join(sorted(x.split(";"))) for x in (hs, ds, fs)])
            res["skel"] = d
        elif k == "inexpr":
            res["inexpr"] = None if v == "skip" else sorted(R1.dec_name(n) for n in items)
        else:
            d = {}
            for it in items:
                n, _, val = it.partition("=")
                d[R1.dec_name(n)] = int(val)
            res["defaults"] = dict(sorted(d.items()))
    return res


# --------------------------------------------------------------------------- oracle (real code only)


def attached(topology, edge_id) -> list[int]:
    e = topology.edges[edge_id]
    if e.ending_node_id is None:
        return [edge_id]
    out = []
    for k, ed in topology.edges.items():
        if ed.originating_node_id == e.ending_node_id:
            out += attached(topology, k)
    return sorted(out)


def expected_variables(chain, node):
    """Own computation (qrules topology dicts only) of the variable set of one node."""
    tp = chain.topology
    (parent,) = [k for k, e in tp.edges.items() if e.ending_node_id == node]
    kids = sorted(k for k, e in tp.edges.items() if e.originating_node_id == node)
    kids.sort(key=lambda k: tuple(attached(tp, k)))  # helicity child (smaller tuple) first
    mass = lambda k: "m_" + "".join(map(str, attached(tp, k)))  # noqa: E731
    inter = chain.interactions[node]
    ell = inter.l_magnitude
    spin = chain.states[parent].particle.spin
    if ell is None and Fraction(spin).denominator == 1:
        ell = int(spin)
    return chain.states[parent].particle, mass(parent), mass(kids[0]), mass(kids[1]), ell


def spec_builder(ops, decay, denote_decay_of):
    """The one-line specification: builder id of the last operation whose selection denotes the decay."""
    from ampform.helicity.decay import TwoBodyDecay
    from qrules.particle import Particle

    chosen = 0
    for o in ops:
        obj, hit = o["obj"], False
        if o["kind"] == "name":
            hit = decay.parent.particle.name == obj
        elif o["kind"] == "part":
            hit = isinstance(obj, Particle) and decay.parent.particle.name == obj.name
        elif o["kind"] == "decay":
            hit = obj == decay
        elif o["kind"] == "node":
            hit = TwoBodyDecay.from_transition(*obj) == decay
        if hit:
            chosen = o["b"]
    return chosen


def oracle_ratio(reaction, tb, ops, pre_ops=None, cfg: dict | None = None) -> list[dict]:
    """Every chain amplitude with dynamics = the same amplitude without dynamics x product of the builders'
    marker expressions on the node's OWN variables (markers only: builder ids >= 4, or 0), under the builder
    configuration `cfg` (both models); every parameter a dynamics builder returned occurs in model.expression."""
    import sympy as sp

    from ampform.helicity.decay import TwoBodyDecay

    log: list = []
    introduced: set = set()
    pool = recording_pool(log, introduced)
    lvl = logging.root.manager.disable
    logging.disable(logging.WARNING)
    try:
        if pre_ops:  # assign -> formulate -> re-assign -> formulate on ONE builder: judge the second model
            b1 = build_with_ops(reaction, pre_ops, pool, cfg=cfg)
            b1.formulate()
            b1 = build_with_ops(reaction, ops, pool, builder=b1)
            ops = [*pre_ops, *ops]
        else:
            b1 = build_with_ops(reaction, ops, pool, cfg=cfg)
        introduced.clear()
        m1 = b1.formulate()
        b0 = build_with_ops(reaction, [], pool, cfg=cfg)
        m0 = b0.formulate()
    finally:
        logging.disable(lvl)
    bad = []
    for par in sorted(introduced, key=str):
        if par not in m1.parameter_defaults:
            bad.append({"what": "parameter returned by a dynamics builder has no default in the model", "parameter": str(par)})
    # every parameter of a builder the SPECIFICATION attaches to a node of a chain whose amplitude symbol the intensity
    # sums over occurs in model.expression (own derivation: spec_builder + the public amplitude-symbol generators)
    from ampform.helicity.naming import create_amplitude_base, create_amplitude_symbol

    bases: dict = {}
    for t in reaction.transitions:
        bases.setdefault(str(create_amplitude_base(t.topology)), set()).add(t.topology)
    collision = any(len(v) > 1 for v in bases.values())  # equal base name, unequal topologies: later group overwrites (C01)
    free = None if collision else expression_symbols(m1)
    if free is not None:

        referenced = R1.unfold(m1.intensity).atoms(sp.Indexed)
        must = set()
        for k, t in enumerate(reaction.transitions):
            base = create_amplitude_base(t.topology)
            for ch in tb.chains[k]:
                if base[create_amplitude_symbol(ch).indices] not in referenced:
                    continue  # helicity tuple of a swapped chain outside the summation pools (C01 territory)
                for n in sorted(ch.topology.nodes):
                    decay = TwoBodyDecay.from_transition(ch, n)
                    if spec_builder(ops, decay, None) >= 4:
                        must.add("c_{" + (decay.parent.particle.latex or decay.parent.particle.name) + "}")
        for name in sorted(must - free):
            bad.append({"what": "parameter introduced by a dynamics builder does not occur in model.expression", "parameter": name})
    expected: dict[str, set] = {}
    for k, t in enumerate(reaction.transitions):
        for ch in tb.chains[k]:
            name = "A_{" + b1.naming.generate_amplitude_name(ch) + "}"
            factor = sp.Integer(1)
            for n in sorted(ch.topology.nodes):
                decay = TwoBodyDecay.from_transition(ch, n)
                bid = spec_builder(ops, decay, None)
                if bid == 0:
                    continue
                particle, inv, ma, mb, ell = expected_variables(ch, n)
                ident = particle.latex or particle.name
                f = sp.Function(f"Dyn{bid}")
                ell_s = sp.Symbol("Lnone") if ell is None else sp.Integer(ell)
                factor = factor * sp.Symbol(f"c_{{{ident}}}") * f(
                    sp.Symbol(particle.name), sp.Symbol(inv, nonnegative=True), sp.Symbol(ma, nonnegative=True),
                    sp.Symbol(mb, nonnegative=True), ell_s)
            expected.setdefault(name, set()).add(factor)
    for name, factors in expected.items():
        if name not in m1.components or name not in m0.components:
            bad.append({"what": "chain component missing", "component": name})
            continue
        e1, e0 = m1.components[name], m0.components[name]
        if not any((e1 - e0 * f) == 0 or sp.expand(e1 - e0 * f) == 0 for f in factors):
            bad.append({"what": "chain amplitude with dynamics != amplitude without dynamics x builder expression on the node's own variables",
                        "component": name, "with": str(e1)[:400], "without": str(e0)[:300],
                        "expected_factor": [str(f) for f in factors][:3]})
    return bad


def parents_in_referenced_chains(reaction, tb, model) -> set | None:
    """names of the decaying particles of chains whose amplitude symbol the intensity sums over; None when two
    unequal topologies share an amplitude base name (the later group overwrites the earlier: C01 territory)"""
    import sympy as sp

    from ampform.helicity.naming import create_amplitude_base, create_amplitude_symbol

    bases: dict = {}
    for t in reaction.transitions:
        bases.setdefault(str(create_amplitude_base(t.topology)), set()).add(t.topology)
    if any(len(v) > 1 for v in bases.values()):
        return None
    referenced = R1.unfold(model.intensity).atoms(sp.Indexed)
    out = set()
    for k, t in enumerate(reaction.transitions):
        base = create_amplitude_base(t.topology)
        for ch in tb.chains[k]:
            if base[create_amplitude_symbol(ch).indices] in referenced:
                out |= {s.particle.name for e, s in ch.states.items() if e in ch.topology.intermediate_edge_ids}
    return out


def oracle_defaults(reaction, cfg: dict | None = None, tb=None) -> list[dict]:
    """Breit-Wigner on every resonance by name: m, Gamma defaults = particle table, and m, Gamma occur in
    model.expression (under the builder configuration `cfg`)."""
    from ampform.dynamics.builder import create_relativistic_breit_wigner
    from ampform.helicity import CanonicalAmplitudeBuilder, HelicityAmplitudeBuilder

    canonical = reaction.formalism in {"canonical-helicity", "canonical"}
    b = apply_cfg((CanonicalAmplitudeBuilder if canonical else HelicityAmplitudeBuilder)(reaction), reaction, cfg)
    res = {s.particle.name: s.particle for t in reaction.transitions for e, s in t.states.items()
           if e in t.topology.intermediate_edge_ids}
    idents = {}
    for p in res.values():
        idents.setdefault(p.latex or p.name, []).append(p)
    lvl = logging.root.manager.disable
    logging.disable(logging.WARNING)
    try:
        for name in res:
            b.dynamics.assign(name, create_relativistic_breit_wigner)
        model = b.formulate()
    finally:
        logging.disable(lvl)
    pars = {getattr(k, "name", str(k)): v for k, v in model.parameter_defaults.items()}
    bad = []
    live = parents_in_referenced_chains(reaction, tb, model) if tb is not None else None
    free = expression_symbols(model) if live is not None else None
    for ident, ps in idents.items():
        if len({(p.mass, p.width) for p in ps}) > 1:
            continue  # `latex or name` does not identify the particle: outside the hypothesis
        p = ps[0]
        for key, val in ((f"m_{{{ident}}}", p.mass), (f"\\Gamma_{{{ident}}}", p.width)):
            if key not in pars:
                bad.append({"what": "missing default", "parameter": key})
            elif pars[key] != val:
                bad.append({"what": "default differs from the particle table", "parameter": key, "default": pars[key], "table": val})
            elif free is not None and p.name in live and key not in free:
                bad.append({"what": "parameter introduced by a dynamics builder does not occur in model.expression", "parameter": key})
    return bad
