"""Definition families shared by C09 and C10: what is translated from dynamics/kmatrix.py.

Every family is built from the PUBLIC api of the working tree (`formulate`, `parametrization`,
`relativistic_breit_wigner*`). A `KDef` carries, besides the Lean definition, the real sympy
expression it models (`full`) and the meaning of each parameter (`meaning`: Lean name -> sympy
expression in the base symbols), which the translator validation evaluates with the real
lambdified code.
"""

from __future__ import annotations

from dataclasses import dataclass, field

import sympy as sp

from tools.translate import c09_ext as X
from tools.translate import core

COMBOS = [(1, 1), (1, 2), (2, 1), (2, 2)]  # (n_channels, n_poles) translated in full


@dataclass
class KDef:
    definition: core.Definition
    full: sp.Expr  # the real expression (unevaluated ampform nodes inside)
    meaning: dict  # param name -> sympy expr (Symbol / Indexed / leaf expression)
    family: str
    free: list = field(default_factory=list)  # params that are free complex symbols (K_i_j, P_i_0, rho_i of the matrix level)


def base_symbols():
    s = sp.Symbol("s", nonnegative=True)
    return {
        "s": s,
        "m": sp.IndexedBase("m", nonnegative=True),
        "Gamma": sp.IndexedBase("Gamma", nonnegative=True),
        "gamma": sp.IndexedBase("gamma", nonnegative=True),
        "beta": sp.IndexedBase("beta", nonnegative=True),
        "m_a": sp.IndexedBase("m_a", nonnegative=True),
        "m_b": sp.IndexedBase("m_b", nonnegative=True),
        "R": sp.Symbol("R", integer=True, positive=True),
        "L": sp.Symbol("L", integer=True, nonnegative=True),
        "d": sp.Symbol("d", positive=True),
    }


def k_names(n):
    return [f"K_{i}_{j}" for i in range(n) for j in range(n)]


def p_names(n):
    return [f"P_{i}_0" for i in range(n)]


def rho_names(n):
    return [f"rho{i}" for i in range(n)]


def nr_param_names(nc, np_, with_beta=False):
    out = ["s"] + [f"m_{r}" for r in range(1, np_ + 1)]
    out += [f"Gamma_{r}_{i}" for r in range(1, np_ + 1) for i in range(nc)]
    out += [f"gamma_{r}_{i}" for r in range(1, np_ + 1) for i in range(nc)]
    if with_beta:
        out += [f"beta_{r}" for r in range(1, np_ + 1)]
    return out


def rel_param_names(nc, np_, with_beta=False):
    out = nr_param_names(nc, np_, with_beta)
    out += [f"rho{i}" for i in range(nc)]
    out += [f"rhoR_{r}_{i}" for r in range(1, np_ + 1) for i in range(nc)]
    out += [f"ff_{i}" for i in range(nc)]
    out += [f"ff0_{r}_{i}" for r in range(1, np_ + 1) for i in range(nc)]
    return out


def is_real_param(name: str) -> bool:
    return name == "s" or name.split("_")[0] in {"m", "Gamma", "gamma", "beta"}


def meaning_of(name: str, lt: X.LeafTranslator, B: dict):
    """sympy expression a Lean parameter stands for."""
    if name in lt.leaves:
        return lt.leaves[name]
    if name in lt.indexed:
        return lt.indexed[name]
    if name == "s":
        return B["s"]
    parts = name.split("_")
    if parts[0] in {"m", "Gamma", "gamma", "beta"}:
        return B[parts[0]][tuple(int(p) for p in parts[1:])] if len(parts) > 2 else B[parts[0]][int(parts[1])]
    return None  # unused leaf / free symbol


class Builder:
    def __init__(self, phsp, L=None, d=None, check_markers=False):
        self.B = base_symbols()
        self.phsp = phsp
        self.L = self.B["L"] if L is None else L
        self.d = self.B["d"] if d is None else d
        self.check_markers = check_markers
        self.out: list[KDef] = []
        # (tuple of params) -> {Sum expr: (def name, params, meaning)}; a formulated entry refers to
        # the parametrisation definitions with the SAME parameter list by name
        self.known: dict = {}
        self.dens: dict = {}

    def translator(self, params=()):
        return X.LeafTranslator([self.phsp], self.B["s"],
                                L=self.L if self.check_markers else None,
                                d=self.d if self.check_markers else None,
                                known_sums=self.known.get(tuple(params)))

    def abstract_dens(self, t, prefix, params):
        """Replace every compound base of a negative integer power by a call of a separate
        definition `<prefix>_den<k>` (emitted once per family), so that the domain of definition of
        the matrix inverse is an explicit object of the model."""
        reg = self.dens.setdefault(prefix, {})

        def walk(u):
            if isinstance(u, list):
                return [walk(x) for x in u]
            if not isinstance(u, tuple):
                return u
            if u and u[0] == "pow" and u[3] == 1 and u[2] < 0 and u[1][0] not in ("sym", "app"):
                base = walk(u[1])
                key = repr(base)
                if key not in reg:
                    name = f"{prefix}_den{len(reg) + 1}"
                    reg[key] = name
                    d = X.make_def(name, params, [p for p in params if is_real_param(p)], base,
                                   "a denominator of the symbolic matrix inverse")
                    self.out.append(KDef(d, None, {}, "den", []))
                return ("pow", ("app", reg[key], [("sym", p) for p in params]), u[2], 1)
            return tuple(walk(x) for x in u)

        return walk(t)

    def add(self, name, params, expr, family, free=(), doc="", share=False, dens=None):
        lt = self.translator(params if family == "formulated" else ())
        body = lt.tr(expr)
        if dens:
            body = self.abstract_dens(body, dens, params)
        d = X.make_def(name, params, [p for p in params if is_real_param(p)], body, doc)
        meaning = {p: meaning_of(p, lt, self.B) for p in params}
        for k, v in lt.inherited.items():
            if meaning.get(k) is None:
                meaning[k] = v
        self.out.append(KDef(d, expr, meaning, family, list(free)))
        if share and isinstance(expr, sp.Sum):
            self.known.setdefault(tuple(params), {})[expr] = (name, list(params), meaning)

    # ---- families
    def matrix_level_kmatrix(self, ns=(1, 2)):
        from ampform.dynamics import kmatrix as km

        for n in ns:
            ks, rs = k_names(n), rho_names(n)
            t = km.NonRelativisticKMatrix.formulate(n, 1, parametrize=False)
            th = km.RelativisticKMatrix.formulate(n, 1, parametrize=False, return_t_hat=True)
            tr = km.RelativisticKMatrix.formulate(n, 1, parametrize=False, return_t_hat=False)
            for i in range(n):
                for j in range(n):
                    self.add(f"nrT{n}_{i}{j}", ks, t[i, j], "matrix", free=ks, dens=f"nrT{n}")
            for i in range(n):
                for j in range(n):
                    self.add(f"relTh{n}_{i}{j}", rs + ks, th[i, j], "matrix", free=rs + ks, dens=f"relT{n}")
            for i in range(n):
                for j in range(n):
                    self.add(f"relT{n}_{i}{j}", rs + ks, tr[i, j], "matrix", free=rs + ks, dens=f"relT{n}")

    def parametrisations_kmatrix(self, combos=COMBOS):
        from ampform.dynamics import kmatrix as km

        B = self.B
        for nc, np_ in combos:
            for i in range(nc):
                for j in range(nc):
                    e = km.NonRelativisticKMatrix.parametrization(
                        i=i, j=j, s=B["s"], pole_position=B["m"], pole_width=B["Gamma"],
                        residue_constant=B["gamma"], n_poles=np_, pole_id=B["R"])
                    self.add(f"nrK{nc}{np_}_{i}{j}", nr_param_names(nc, np_), e, "param", share=True)
            for i in range(nc):
                for j in range(nc):
                    e = km.RelativisticKMatrix.parametrization(
                        i=i, j=j, s=B["s"], pole_position=B["m"], pole_width=B["Gamma"],
                        m_a=B["m_a"], m_b=B["m_b"], residue_constant=B["gamma"], n_poles=np_,
                        pole_id=B["R"], angular_momentum=self.L, meson_radius=self.d,
                        phsp_factor=self.phsp)
                    self.add(f"relK{nc}{np_}_{i}{j}", rel_param_names(nc, np_), e, "param", share=True)

    def formulated_kmatrix(self, combos=COMBOS):
        from ampform.dynamics import kmatrix as km

        for nc, np_ in combos:
            t = km.NonRelativisticKMatrix.formulate(nc, np_)
            for i in range(nc):
                for j in range(nc):
                    self.add(f"nrForm{nc}{np_}_{i}{j}", nr_param_names(nc, np_), t[i, j], "formulated")
            for hat in (True, False):
                t = km.RelativisticKMatrix.formulate(
                    nc, np_, return_t_hat=hat, phsp_factor=self.phsp,
                    angular_momentum=self.L, meson_radius=self.d)
                nm = "relFormHat" if hat else "relForm"
                for i in range(nc):
                    for j in range(nc):
                        self.add(f"{nm}{nc}{np_}_{i}{j}", rel_param_names(nc, np_), t[i, j], "formulated")
