"""C14 — class table (T3) regenerated from the ampform package, Lean emitter, random instances of
every table class and the T2 correspondence real decorator methods vs Lean model."""

from __future__ import annotations

import dataclasses
import importlib
import inspect
import itertools
import pkgutil
import warnings
from typing import Any, Callable, ClassVar  # noqa: F401  (used by the run-time harness classes)

from tools.corr import C18m1 as m1
from tools.lib import common

GEN_REL = "Ampverif/Gen/C14Table.lean"
GEN_MODULE = "Ampverif.Gen.C14Table"
DRIVER = "Ampverif/Drivers/C14.lean"
DRIVER_MODULES = ["Ampverif.Drivers.M1Sexp", GEN_MODULE]


# --------------------------------------------------------------------------- discovery


def discover():
    """Every class defined in a module of the ampform package that is a SymPy class:
    (decorated classes, helper classes), in a deterministic order."""
    import sympy as sp

    import ampform

    decorated, helpers = [], []
    with warnings.catch_warnings():
        warnings.simplefilter("ignore")
        mods = [importlib.import_module(m.name) for m in pkgutil.walk_packages(ampform.__path__, "ampform.")]
    seen = set()
    for mod in sorted(mods, key=lambda m: m.__name__):
        for name, c in sorted(vars(mod).items()):
            if not inspect.isclass(c) or c.__module__ != mod.__name__ or not issubclass(c, sp.Basic) or c in seen:
                continue
            seen.add(c)
            if m1.is_unevaluated_class(c):
                decorated.append(c)
            elif name not in {"NumPyPrintable", "UnevaluatedExpression"}:
                helpers.append(c)
    return decorated, helpers


def implements_doit(cls) -> bool:
    import sympy as sp

    d = cls.__dict__.get("doit")
    return d is not None and d is not sp.Basic.doit and hasattr(d, "__wrapped__")


def harness_weight(a, b):
    """Default callable attribute of the harness class `HFull` (module level: picklable)."""
    return a + 2 * b


def harness_weight2(a, b):
    return a * b - 1


def make_weight(k):
    def weight(a, b):
        return a + k * b

    return weight


_HARNESS_FUNCTIONS: list = []


def harness_function_values() -> list:
    if not _HARNESS_FUNCTIONS:
        _HARNESS_FUNCTIONS.extend([harness_weight2, make_weight(3), make_weight(5)])
    return _HARNESS_FUNCTIONS


_HARNESS: list = []


def harness_classes() -> list:
    """Classes defined at RUN TIME with the real decorator, using every decorator option
    (implement_doit=False, commutative=False, other assumptions, default SymPy arguments, ClassVar,
    several non-SymPy attributes with and without defaults in the middle of the field list,
    a string and a method `_latex_repr_`, a custom `_numpycode`): they test the decorator machinery
    itself, independently of the classes ampform defines today. They are added to the class table."""
    if _HARNESS:
        return _HARNESS
    import sympy as sp

    from ampform.sympy import NumPyPrintable, argument, unevaluated

    @unevaluated
    class HFull(sp.Expr):
        a: Any
        weight: Callable = argument(default=harness_weight, sympify=False)
        b: Any = 2
        tag: "str | None" = argument(default=None, sympify=False)
        counter: ClassVar[int] = 0
        _latex_repr_ = R"H\left({a}, {b}\right)"

        def evaluate(self):
            return self.weight(self.a, self.b) ** 2 + self.a

    @unevaluated(implement_doit=False)
    class HOpaque(sp.Expr):
        a: Any
        b: Any = sp.Rational(1, 2)
        tag: "str | None" = argument(default="t", sympify=False)

        def _latex_repr_(self, printer, *args):
            return "O(" + ", ".join(printer._print(x) for x in self.args) + ")"  # noqa: SLF001

    @unevaluated(commutative=False, real=True)
    class HNonComm(sp.Expr):
        x: Any
        y: Any

        def evaluate(self):
            return self.x * self.y - self.y

    @unevaluated(implement_doit=False)
    class HPrint(NumPyPrintable):
        a: Any
        b: Any
        label: str = argument(default="h", sympify=False)

        def evaluate(self):
            return sp.sqrt(self.a**2 + self.b**2) / (1 + self.a)

        def _numpycode(self, printer, *args):
            return printer._print(self.evaluate(), *args)  # noqa: SLF001

    for cls in (HFull, HOpaque, HNonComm, HPrint):
        cls.__qualname__ = cls.__name__
        globals()[cls.__name__] = cls
        _HARNESS.append(cls)
    return _HARNESS


def __getattr__(name):  # pickle looks the harness classes up by name in a fresh interpreter
    if name in {"HFull", "HOpaque", "HNonComm", "HPrint"}:
        harness_classes()
        return globals()[name]
    raise AttributeError(name)


def make_phsp_factor(power):
    """Factory of custom phase-space factors (PhaseSpaceFactorProtocol): every call returns a NEW
    function object with the SAME module and qualified name."""

    def phsp_factor(s, m1, m2):
        from ampform.dynamics.phasespace import PhaseSpaceFactor

        return PhaseSpaceFactor(s, m1, m2) ** power

    return phsp_factor


def module_level_phsp(s, m1, m2):
    """A module-level function used as callable attribute (picklable by reference)."""
    from ampform.dynamics.phasespace import PhaseSpaceFactorComplex

    return 2 * PhaseSpaceFactorComplex(s, m1, m2)


def _two_lambdas():
    from ampform.dynamics.phasespace import BreakupMomentumSquared, PhaseSpaceFactorAbs

    return (lambda s, m1, m2: PhaseSpaceFactorAbs(s, m1, m2), lambda s, m1, m2: BreakupMomentumSquared(s, m1, m2) + 1)  # noqa: E731


_FUNCTION_VALUES: list = []


def function_values() -> list:
    """Function-valued attribute values: closures of one factory with different captured constants
    (distinct objects, one qualname), two lambdas of one scope, a module-level function."""
    if not _FUNCTION_VALUES:
        _FUNCTION_VALUES.extend([make_phsp_factor(1), make_phsp_factor(2), *_two_lambdas(), module_level_phsp])
    return _FUNCTION_VALUES


def is_picklable_attr(v) -> bool:
    if inspect.isfunction(v):
        return "<locals>" not in v.__qualname__ and "<lambda>" not in v.__qualname__
    return True


def attr_candidates(cls, field, decorated) -> list:
    """Python values tried for a non-SymPy field (the first one is the default, if any)."""
    out = []
    if field.default is not dataclasses.MISSING:
        out.append(field.default)
    d = out[0] if out else None
    if inspect.isclass(d):
        names = [f.name for f in dataclasses.fields(d)] if dataclasses.is_dataclass(d) else None
        for c in decorated:
            if c is not d and names is not None and [f.name for f in dataclasses.fields(c)] == names:
                out.append(c)
        # a class-valued default is a callable attribute: plain functions are admissible values too
        out[1:1] = function_values()
    elif inspect.isfunction(d):
        out += harness_function_values()
    else:
        for v in (None, "tag", "builtins.NoneType"):
            if v not in out:
                out.append(v)
    return out


def placeholder(k: int):
    import sympy as sp

    return sp.Symbol(f"#{k}")


class ClassEntry:
    def __init__(self, cls, decorated):
        self.cls = cls
        self.key = m1.class_key(cls)
        self.fields = list(dataclasses.fields(cls))
        self.sympy_fields = [f for f in self.fields if f.metadata.get("sympify")]
        self.attr_fields = [f for f in self.fields if not f.metadata.get("sympify")]
        self.implement_doit = implements_doit(cls)
        self.has_evaluate = callable(getattr(cls, "evaluate", None))
        self.attr_domain = [attr_candidates(cls, f, decorated) for f in self.attr_fields]
        self.templates: list[tuple[tuple, tuple]] = []  # (attrs AST tuple, template AST)
        self.locals: set = set()
        self.why_no_template = ""
        self.numpy_printable = callable(getattr(cls, "_numpycode", None))

    def build(self, *sympy_args, attrs=()):
        it_s, it_a = iter(sympy_args), iter(attrs)
        vals = [next(it_s) if f.metadata.get("sympify") else next(it_a) for f in self.fields]
        return self.cls(*vals)

    def attr_combos(self, limit=24):
        """Attribute values for which a template is extracted: every value of every field at least
        once (the other fields at their first value), then further combinations up to `limit`."""
        if not self.attr_domain:
            return [()]
        base = tuple(dom[0] for dom in self.attr_domain)
        combos = [base]
        for i, dom in enumerate(self.attr_domain):
            for v in dom[1:]:
                combos.append((*base[:i], v, *base[i + 1:]))
        for c in itertools.product(*self.attr_domain):
            if len(combos) >= limit:
                break
            if not any(all(a is b for a, b in zip(c, d)) for d in combos):
                combos.append(c)
        return combos[:max(limit, len(base) + sum(len(d) - 1 for d in self.attr_domain))]


def sample_args(entry: ClassEntry, rng, n: int):
    import sympy as sp

    syms = sp.symbols("a0:12")
    k = len(entry.sympy_fields)
    out = [tuple(syms[:k]), tuple(syms[i] + syms[(i + 1) % 12] * 2 for i in range(k))]
    for _ in range(n):
        out.append(tuple(rng.choice([syms[rng.randrange(12)], sp.Integer(rng.randint(1, 3)), sp.Integer(2),
                                     syms[rng.randrange(12)] ** 2 + 1]) for _ in range(k)))
    return out


def field_default(f):
    """(has_default, value) of a dataclass field."""
    if f.default is not dataclasses.MISSING:
        return True, f.default
    if f.default_factory is not dataclasses.MISSING:
        return True, f.default_factory()
    return False, None


def calling_conventions(entry: ClassEntry, rng, n_random: int = 2) -> list[dict]:
    """Ways to write ONE call of the generated `__new__` that all give every field the same value:
    `n_pos` leading positional values, then the listed field names as keywords IN THAT WRITTEN ORDER;
    fields in `skipped` (they have a default) are left out, keywords for later fields follow them.
    -> dicts {label, n_pos, kw (names in call order), skipped (names)}."""
    names = [f.name for f in entry.fields]
    n = len(names)
    if n == 0:
        return []
    out = [{"label": "all keywords, declaration order", "n_pos": 0, "kw": list(names), "skipped": []}]
    if n > 1:
        out.append({"label": "all keywords, reversed", "n_pos": 0, "kw": list(reversed(names)), "skipped": []})
        half = n // 2
        out.append({"label": "all keywords, rotated", "n_pos": 0, "kw": names[half:] + names[:half], "skipped": []})
        for k in range(n_random):
            n_pos = rng.randrange(0, n - 1) if k % 2 else 0
            kw = names[n_pos:]
            rng.shuffle(kw)
            out.append({"label": "random positional prefix + shuffled keywords", "n_pos": n_pos, "kw": kw, "skipped": []})
    defaulted = [f.name for f in entry.fields if field_default(f)[0]]
    for name in defaulted:
        j = names.index(name)
        later = names[j + 1:]
        if not later:
            continue
        n_pos = rng.randrange(0, j + 1)
        kw = names[n_pos:j] + later
        for variant in ("declaration order", "shuffled"):
            kw2 = list(kw)
            if variant == "shuffled":
                rng.shuffle(kw2)
            out.append({"label": f"defaulted field {name!r} skipped, later fields by keyword ({variant})",
                        "n_pos": n_pos, "kw": kw2, "skipped": [name]})
    return out


def call_convention(entry: ClassEntry, vals: list, conv: dict):
    by_name = {f.name: v for f, v in zip(entry.fields, vals)}
    return entry.cls(*vals[: conv["n_pos"]], **{k: by_name[k] for k in conv["kw"]})


class _Timeout(BaseException):
    """Not an Exception: must not be swallowed by `except Exception` inside SymPy or the harness."""


def with_cap(seconds: float, fn, *args):
    """Run `fn(*args)` with a wall-clock cap (SIGALRM; main thread only). Raises _Timeout."""
    import signal

    def handler(signum, frame):  # noqa: ARG001
        raise _Timeout

    old = signal.signal(signal.SIGALRM, handler)
    signal.setitimer(signal.ITIMER_REAL, seconds)
    try:
        return fn(*args)
    finally:
        signal.setitimer(signal.ITIMER_REAL, 0)
        signal.signal(signal.SIGALRM, old)


def make_templates(entry: ClassEntry, ctx: m1.Ctx, rng) -> None:
    """`evaluate()` on fresh placeholders per attribute value; kept only when instantiating the
    template reproduces `evaluate()` on sample arguments (else `evaluate` inspects its arguments)."""
    if not (entry.implement_doit and entry.has_evaluate):
        entry.why_no_template = "implement_doit=False" if not entry.implement_doit else "no evaluate()"
        return
    ph = [placeholder(k) for k in range(len(entry.sympy_fields))]
    templates = []
    for combo in entry.attr_combos():
        try:
            t_real = entry.build(*ph, attrs=combo).evaluate()
        except Exception as e:  # noqa: BLE001
            entry.why_no_template = f"evaluate() on placeholders raised {type(e).__name__}: {e}"
            continue
        ok = True
        for args in sample_args(entry, rng, 6):
            try:
                got = with_cap(5.0, lambda a=args: entry.build(*a, attrs=combo).evaluate())
            except _Timeout:
                ok = False
                entry.why_no_template = f"evaluate() computes on its arguments (> 5 s for args {args})"
                break
            except Exception:  # noqa: BLE001, S112
                continue
            want = t_real.xreplace(dict(zip(ph, args)))
            if not m1.equal_mod_ring(got, want, ctx):
                ok = False
                entry.why_no_template = f"evaluate() inspects its arguments (e.g. args {args})"
                break
        if not ok:
            return
        t_ast = m1.canon(t_real, ctx)
        templates.append((tuple(m1.attr_of(v, ctx) for v in combo), t_ast))
    ph_syms = {("sym", f"#{k}", ()) for k in range(len(ph))}
    for _, t_ast in templates:
        entry.locals |= {s for s in m1.symbols_of(t_ast) if s not in ph_syms}
    entry.templates = templates


def build_table(rng=None):
    rng = rng or common.rng_for("C14", 0, "table")
    decorated, helpers = discover()
    decorated = [*decorated, *harness_classes()]
    ctx = m1.Ctx()
    entries = [ClassEntry(c, decorated) for c in decorated]
    for e in entries:
        ctx.classes[e.key] = e.cls
        make_templates(e, ctx, rng)
    return entries, helpers, ctx


# --------------------------------------------------------------------------- Lean emitter


def lean_str(s: str) -> str:
    out = []
    for ch in s:
        if ch == '"':
            out.append('\\"')
        elif ch == "\\":
            out.append("\\\\")
        elif ch == "\n":
            out.append("\\n")
        elif ord(ch) < 32 or ord(ch) > 126:
            out.append(f"\\u{{{ord(ch):x}}}")
        else:
            out.append(ch)
    return '"' + "".join(out) + '"'


def lean_sym(s) -> str:
    return f"⟨{lean_str(s[1])}, [{', '.join(lean_str(f) for f in s[2])}]⟩"


def lean_attr(a) -> str:
    return ".none" if a[0] == "none" else f"(.{a[0]} {lean_str(a[1])})"


def lean_q(p: int, q: int) -> str:
    if q == 1:
        return f"({p} : Q)" if p >= 0 else f"(-{-p} : Q)"
    return f"(mkRat ({p}) {q})"


def lean_expr(t) -> str:  # noqa: PLR0911
    k = t[0]
    if k == "sym":
        return f"(.sym {lean_sym(t)})"
    if k == "rat":
        return f"(.rat {lean_q(t[1], t[2])})"
    if k in {"add", "mul"}:
        return f"(.{k} [{', '.join(map(lean_expr, t[1]))}])"
    if k == "pow":
        return f"(.pow {lean_expr(t[1])} {t[2]})"
    if k in {"app", "idx"}:
        return f"(.{k} {lean_str(t[1])} [{', '.join(map(lean_expr, t[2]))}])"
    if k == "node":
        return f"(.node {lean_str(t[1])} [{', '.join(map(lean_expr, t[2]))}] [{', '.join(map(lean_attr, t[3]))}])"
    if k == "psum":
        bs = ", ".join(f"({lean_sym(s)}, [{', '.join(lean_expr(v) for v in vals)}])" for s, vals in t[2])
        return f"(.psum {lean_expr(t[1])} [{bs}])"
    raise ValueError(t)


def lean_default(f, ctx) -> str:
    if f.default is dataclasses.MISSING:
        return "none"
    if f.metadata.get("sympify"):
        import sympy as sp

        return f"(some (.e {lean_expr(m1.canon(sp.sympify(f.default), ctx))}))"
    return f"(some (.a {lean_attr(m1.attr_of(f.default, ctx))}))"


def render_table(entries, helpers, ctx, header: str) -> str:
    out = [
        "/-",
        "GENERATED by tools/corr/C14.py from the working tree on every run of ./check C14 / C15 — do not edit.",
        "Class table of every class produced by `ampform.sympy.unevaluated` found by walking the package.",
        header,
        "-/",
        "import Ampverif.Model.Expr",
        "",
        "namespace Ampverif.Gen.C14",
        "open Ampverif.Model",
        "",
    ]
    names = []
    for i, e in enumerate(entries):
        nm = f"c{i}"
        names.append(nm)
        fields = ",\n      ".join(
            f"⟨{lean_str(f.name)}, {'true' if f.metadata.get('sympify') else 'false'}, {lean_default(f, ctx)}⟩" for f in e.fields)
        ph = ", ".join(lean_sym(("sym", f"#{k}", ())) for k in range(len(e.sympy_fields)))
        loc = ", ".join(lean_sym(s) for s in sorted(e.locals))
        tpls = ",\n      ".join(f"([{', '.join(map(lean_attr, a))}], {lean_expr(t)})" for a, t in e.templates)
        out += [
            f"/-- `{e.key}`" + (f" — no template: {e.why_no_template[:120]}" if not e.templates else "") + " -/",
            f"def {nm} : ClassInfo :=",
            f"  {{ name := {lean_str(e.key)}",
            f"    fields := [\n      {fields}]",
            f"    implementDoit := {'true' if e.implement_doit else 'false'}",
            f"    placeholders := [{ph}]",
            f"    locals := [{loc}]",
            f"    templates := [\n      {tpls}] }}",
            "",
        ]
    out += [f"def classTable : ClassTable := [{', '.join(names)}]", ""]
    out += ["/-- helper classes (plain SymPy classes of the package; uninterpreted heads of the model). -/",
            f"def helperClasses : List String := [{', '.join(lean_str(m1.class_key(h)) for h in helpers)}]", "",
            "end Ampverif.Gen.C14", ""]
    return "\n".join(out)


def regenerate():
    common.use_repo_source()
    entries, helpers, ctx = build_table()
    hashes = common.source_blob_hashes(SOURCES)
    header = "sources: " + ", ".join(f"{k}@{v[:10]}" for k, v in hashes.items())
    common.write_if_changed(common.LEAN / GEN_REL, render_table(entries, helpers, ctx, header))
    # C14 and C15 share the generated module: build it under ONE lock key before anything else does
    common.lake_build([GEN_MODULE])
    return entries, helpers, ctx


SOURCES = [
    "src/ampform/sympy/_decorator.py",
    "src/ampform/sympy/__init__.py",
    "src/ampform/sympy/_array_expressions.py",
    "src/ampform/sympy/math.py",
    "src/ampform/kinematics/lorentz.py",
    "src/ampform/kinematics/angles.py",
    "src/ampform/kinematics/phasespace.py",
    "src/ampform/dynamics/__init__.py",
    "src/ampform/dynamics/phasespace.py",
    "src/ampform/dynamics/form_factor.py",
]


# --------------------------------------------------------------------------- random instances


class Pools:
    """Argument pools (real SymPy objects) for random instances."""

    def __init__(self, entries, friendly: bool = False, picklable_only: bool = False):
        import sympy as sp

        from ampform.kinematics.lorentz import FourMomentumSymbol

        self.entries = entries
        self.picklable_only = picklable_only  # C15: closures and lambdas cannot be pickled by Python itself
        self.friendly = friendly  # oracle mode: arguments that keep doit()/numeric evaluation tractable
        self.scalars = [sp.Symbol("x"), sp.Symbol("y", real=True), sp.Symbol("m", positive=True), sp.Symbol("s", nonnegative=True),
                        sp.Symbol("w"), sp.Symbol("L", integer=True, nonnegative=True)]
        self.momenta = [FourMomentumSymbol(f"p{i}", shape=[]) for i in range(3)]
        self.f = sp.Function("f")

    def scalar(self, rng, depth):
        import sympy as sp

        r = rng.random()
        if r < 0.35 or depth <= 0:
            return rng.choice(self.scalars)
        if r < 0.5:
            return sp.Rational(rng.choice([1, 2, 3, 5]), rng.choice([1, 1, 2, 3]))
        if r < 0.7:
            a, b = rng.choice(self.scalars), rng.choice(self.scalars)
            c = rng.choice(self.scalars)
            if self.friendly:
                # oracle mode: values that are positive at positive points, so that numeric comparison stays on the
                # principal branches where SymPy's automatic Abs/sqrt rewrites are identities
                return rng.choice([a + b, a * b + 1, a**2, 2 * a + b / 3, self.f(a, b), a / (b + 2), (a + b) * c])
            # compound arguments: sum, difference, negated sum, quotient, product with a sum, function application
            return rng.choice([a + b, a * b + 1, a**2, 2 * a - b / 3, self.f(a, b), a - b, -(a + c), a / (b + 2), (a + b) * c, -a])
        return self.instance(rng, depth - 1, scalar_only=True)

    def momentum(self, rng, depth):
        from ampform.kinematics.lorentz import NegativeMomentum
        from ampform.sympy._array_expressions import ArraySum

        r = rng.random()
        if r < 0.6 or depth <= 0:
            return rng.choice(self.momenta)
        if r < 0.8:
            a, b = rng.sample(self.momenta, 2)
            return ArraySum(a, b)
        return NegativeMomentum(rng.choice(self.momenta))

    def arg_for(self, field_name: str, rng, depth):
        from ampform.kinematics.lorentz import ArraySize, ThreeMomentum

        n = field_name.lower()
        if n in {"momentum", "array"}:
            return self.momentum(rng, depth)
        if n == "vector":
            return ThreeMomentum(self.momentum(rng, depth)) if rng.random() < 0.7 else self.momentum(rng, depth)
        if n in {"n_events", "shape"}:
            return ArraySize(rng.choice(self.momenta)) if rng.random() < 0.7 else rng.choice(self.scalars)
        if n in {"ones", "zeros"}:
            from ampform.kinematics import lorentz

            cls = lorentz._OnesArray if n == "ones" else lorentz._ZerosArray  # noqa: SLF001
            return cls(ArraySize(rng.choice(self.momenta)))
        if n in {"angular_momentum", "l"} and (self.friendly or rng.random() < 0.5):
            import sympy as sp

            return sp.Integer(rng.randint(0, 2))
        v = self.scalar(rng, depth)
        if n in {"angular_momentum", "l"} and getattr(v, "is_Number", False) and not v.is_Integer:
            import sympy as sp

            # a non-integer NUMERIC angular momentum makes BlattWeisskopfSquared.evaluate compute for minutes
            return sp.Integer(rng.randint(0, 2))
        return v

    def instance_of(self, entry: ClassEntry, rng, depth):
        args = [self.arg_for(f.name, rng, depth) for f in entry.sympy_fields]
        attrs = self.attrs_for(entry, rng)
        return entry.build(*args, attrs=attrs)

    def function_attr_instances(self, entry: ClassEntry, rng, depth=1):
        """One instance per function-valued candidate of every callable attribute (so that pairs of
        distinct functions with one qualified name, and the same function twice, are always compared)."""
        out = []
        for i, dom in enumerate(entry.attr_domain):
            for v in dom:
                if inspect.isfunction(v) and (not self.picklable_only or is_picklable_attr(v)):
                    args = [self.arg_for(f.name, rng, depth) for f in entry.sympy_fields]
                    attrs = [d[0] for d in entry.attr_domain]
                    attrs[i] = v
                    out.append(entry.build(*args, attrs=tuple(attrs)))
        return out

    def attrs_for(self, entry: ClassEntry, rng):
        doms = [[v for v in dom if not self.picklable_only or is_picklable_attr(v)] for dom in entry.attr_domain]
        if entry.templates and rng.random() < 0.7:
            combos = [c for c in entry.attr_combos() if all(any(v is w for w in d) for v, d in zip(c, doms))]
            if combos:
                return rng.choice(combos)
        return tuple(rng.choice(dom) for dom in doms)

    def instance(self, rng, depth, scalar_only=False):
        cands = [e for e in self.entries if not scalar_only or self.is_scalar_class(e)]
        return self.instance_of(rng.choice(cands), rng, depth)

    @staticmethod
    def is_scalar_class(e: ClassEntry) -> bool:
        mod = e.cls.__module__
        return mod.startswith("ampform.dynamics") or e.cls.__name__ in {"Kallen", "Kibble", "HFull", "HOpaque", "HPrint"}

    def helper_instances(self, rng):
        """Instances of the array/sum helper classes (plain SymPy classes of the package)."""
        import sympy as sp

        from ampform.sympy import PoolSum
        from ampform.sympy._array_expressions import (
            ArrayAxisSum,
            ArrayMultiplication,
            ArraySlice,
            ArraySum,
            MatrixMultiplication,
        )
        from ampform.sympy.math import ComplexSqrt

        p, q = rng.sample(self.momenta, 2)
        x, y = rng.sample(self.scalars, 2)
        i = sp.Symbol("i")
        out = {
            "ArraySum": ArraySum(p, q),
            "ArrayAxisSum": ArrayAxisSum(p**2, axis=1),
            "ArrayMultiplication": ArrayMultiplication(self.entry("BoostZMatrix").build(x, y), p),
            "MatrixMultiplication": MatrixMultiplication(self.entry("RotationZMatrix").build(x, y), self.entry("RotationYMatrix").build(y, x)),
            "ArraySlice": ArraySlice(p, (slice(None), rng.randint(0, 3))),
            "ComplexSqrt": ComplexSqrt(x**2 - y),
            "PoolSum": PoolSum(self.entry("Kallen").build(x, i, y) * i, (i, (1, sp.Rational(1, 2)))),
        }
        return out

    def entry(self, short: str) -> ClassEntry:
        return next(e for e in self.entries if e.cls.__name__ == short)


# --------------------------------------------------------------------------- substitution keys that are TERMS
#
# `subs`/`xreplace` are not only called with plain symbols: the library's own momentum "symbols" are ArraySymbols
# (`create_four_momentum_symbol`; `free_symbols` holds only the inner name Symbol), and users replace applied
# functions, indexed symbols, folded sub-expressions and compound sub-expressions.


SCALAR_FIELD_BLACKLIST = {"momentum", "array", "vector", "n_events", "shape", "ones", "zeros", "angular_momentum", "l"}


def reserved():
    """Reserved building blocks of term keys: they occur in an instance ONLY where the generator put them."""
    import sympy as sp

    from ampform.kinematics.lorentz import FourMomentumSymbol

    return {"H": sp.Function("H"), "c": sp.Symbol("c"), "A": sp.IndexedBase("B"),
            "q": [FourMomentumSymbol(f"q{i}", shape=[]) for i in (1, 2)],
            "u": sp.Symbol("u", positive=True), "u2": sp.Symbol("u2", positive=True)}


def keyed_instance_of(pools: Pools, entry: ClassEntry, rng, depth=1):
    """An instance of a table class whose scalar arguments contain an applied function `H(x, y)`, an indexed symbol
    `B[1]` and the compound sub-expression `c**2` (momentum arguments are ArraySymbols anyway)."""
    rs = reserved()
    x, y = pools.scalars[0], pools.scalars[2]
    extras = [lambda a: a + rs["H"](x, y), lambda a: a * rs["c"] ** 2, lambda a: a + rs["A"][1]]
    args = []
    k = 0
    for f in entry.sympy_fields:
        a = pools.arg_for(f.name, rng, depth)
        if f.name.lower() not in SCALAR_FIELD_BLACKLIST and getattr(a, "is_number", False) is False and k < len(extras) \
                and not a.has(__import__("sympy").tensor.array.expressions.ArraySymbol):
            a = extras[k](a)
            k += 1
        args.append(a)
    return entry.build(*args, attrs=pools.attrs_for(entry, rng))


IDENT_LABEL = "PoolSum(index * instance + H(x, y)), symbolic pool (pa, pb, 1)"


def _pa_pb():
    import sympy as sp

    return sp.Symbol("pa"), sp.Symbol("pb", real=True)


def identification_requests(r, rng) -> list[dict]:
    """Substitutions that make two ARGUMENTS of one instance, or two ENTRIES of one PoolSum pool, equal (the laws of
    C14 must hold with multiplicity: nothing may be merged when sub-terms become equal)."""
    import sympy as sp

    from ampform.sympy import PoolSum

    reqs = []
    seen = set()
    for t in sp.preorder_traversal(r):
        if isinstance(t, PoolSum):
            bound = {s_ for s_, _ in t.indices}
            for _, vals in t.indices:
                syms = [v for v in dict.fromkeys(vals) if isinstance(v, sp.Symbol) and v not in bound]
                nums = [v for v in vals if v.is_Number]
                if len(syms) >= 2 and ("pool", syms[0], syms[1]) not in seen:
                    seen.add(("pool", syms[0], syms[1]))
                    a, b = syms[:2]
                    c = rng.choice([sp.Integer(2), sp.Rational(3, 2)])
                    reqs.append({"kind": "identify two pool entries (both -> same number)", "pairs": [(a, c), (b, c)], "modelled_subs": True})
                    reqs.append({"kind": "identify two pool entries (one -> other)", "pairs": [(a, b)], "modelled_subs": True})
                    if nums:
                        reqs.append({"kind": "identify a pool entry with a literal entry", "pairs": [(a, nums[0])], "modelled_subs": True})
        elif m1.is_unevaluated_class(type(t)) and "args" not in seen:
            syms = [a for a in dict.fromkeys(t.args) if isinstance(a, sp.Symbol)]
            if len(syms) >= 2:
                seen.add("args")
                reqs.append({"kind": "identify two arguments of an instance", "pairs": [(syms[0], syms[1])], "modelled_subs": True})
    return reqs


def wrapped(pools: Pools, entry: ClassEntry, r, rng) -> list:
    """The instance inside every array/sum helper class of the package (symbolic containers: whatever the helper
    means numerically, `subs`/`xreplace`/`doit` must pass through it). Returns (label, object) pairs."""
    import sympy as sp

    from ampform.sympy import PoolSum
    from ampform.sympy._array_expressions import ArrayAxisSum, ArrayMultiplication, ArraySlice, ArraySum, MatrixMultiplication
    from ampform.sympy.math import ComplexSqrt

    rs = reserved()
    i = sp.Symbol("i")
    PA, PB = _pa_pb()  # noqa: N806
    x, y = pools.scalars[0], pools.scalars[2]
    p = rng.choice(pools.momenta)
    scalar = pools.is_scalar_class(entry)
    cands = [
        ("PoolSum(instance)", lambda: PoolSum(r, (i, (1, 2)))),
        ("PoolSum(index * instance + H(x, y))", lambda: PoolSum(i * r + rs["H"](x, y), (i, (1, sp.Rational(1, 2), 3)))),
        ("PoolSum with a symbolic pool holding the keys", lambda: PoolSum(i * r, (i, (rs["H"](x, y), rs["c"] ** 2, 1)))),
        ("nested PoolSum", lambda: PoolSum(PoolSum(r * sp.Symbol("j"), (sp.Symbol("j"), (i, 2))), (i, (1, 2)))),
        # pools whose ENTRIES can be identified by a substitution ({pa: 2, pb: 2}, {pa: pb}, {pa: 1}): the sum must keep
        # both terms (subs/xreplace rebuild the PoolSum through __new__); also literal duplicates
        (IDENT_LABEL, lambda: PoolSum(i * r + rs["H"](x, y), (i, (PA, PB, 1)))),
        ("PoolSum over an argument of the instance, symbolic pool (pa, pb) and literal duplicates (pb, pb)",
         # (the index replaces the reserved symbol `c`, which occurs outside the applied-function / indexed KEYS only: a
         # key that mentions a bound index would be captured — excluded)
         lambda: PoolSum(r.xreplace({rs["c"]: i}) if rs["c"] in r.free_symbols else r * i, (i, (PA, PB)), (sp.Symbol("j"), (PB, PB)))),
        ("ArraySum(instance, p)", lambda: ArraySum(r, p)),
        ("ArrayAxisSum(instance)", lambda: ArrayAxisSum(r, axis=1)),
        ("ArrayMultiplication(BoostZMatrix, instance)", lambda: ArrayMultiplication(pools.entry("BoostZMatrix").build(x, y), r)),
        ("MatrixMultiplication(instance, RotationZMatrix)", lambda: MatrixMultiplication(r, pools.entry("RotationZMatrix").build(y, x))),
        ("ArraySlice(instance)", lambda: ArraySlice(r, (slice(None), rng.randint(0, 3)))),
    ]
    if scalar:
        cands.append(("ComplexSqrt(instance)", lambda: ComplexSqrt(r + 1)))
    out = []
    for label, mk in cands:
        try:
            out.append((label, mk()))
        except Exception:  # noqa: BLE001, S112  (a helper that rejects this argument kind at construction)
            continue
    return out


def term_key_requests(r, rng, pools: Pools, oracle: bool = False) -> list[dict]:
    """Substitution requests whose KEYS are sub-terms of `r` that are not plain symbols.
    kind: array-symbol / applied-function / indexed / nested-instance / compound.
    `modelled_subs`: SymPy's `subs` is structural for this key kind (modelled by `substT`); compound keys
    (Pow/Add/Mul) are matched algebraically by SymPy: `subs` is oracle-only there, `xreplace` is structural for all."""
    import sympy as sp
    from sympy.core.function import AppliedUndef
    from sympy.tensor.array.expressions import ArraySymbol

    from ampform.sympy._array_expressions import ArraySum

    rs = reserved()
    subs_ = [t for t in sp.preorder_traversal(r)][1:]
    reqs = identification_requests(r, rng)
    arrs = sorted({t for t in subs_ if isinstance(t, ArraySymbol)}, key=str)
    if arrs:
        p = rng.choice(arrs)
        reqs.append({"kind": "array-symbol->array-symbol", "pairs": [(p, rs["q"][0])], "modelled_subs": True})
        reqs.append({"kind": "array-symbol->ArraySum", "pairs": [(p, ArraySum(*rs["q"]))], "modelled_subs": True})
        if len(arrs) > 1:
            reqs.append({"kind": "two array-symbols", "pairs": [(arrs[0], rs["q"][1]), (arrs[1], ArraySum(rs["q"][0], arrs[0]))],
                         "modelled_subs": True, "xreplace_only": True})
    fns = sorted({t for t in subs_ if isinstance(t, AppliedUndef)}, key=str)
    if fns:
        t = rng.choice(fns)
        reqs.append({"kind": "applied-function", "pairs": [(t, rs["u"] if oracle else rng.choice([rs["u"], sp.Rational(3, 2), pools.scalars[4] + 1]))],
                     "modelled_subs": True})
    idxs = sorted({t for t in subs_ if isinstance(t, sp.Indexed)}, key=str)
    if idxs:
        reqs.append({"kind": "indexed", "pairs": [(rng.choice(idxs), rs["u2"])], "modelled_subs": True})
    if not oracle:
        nodes = sorted({t for t in subs_ if m1.is_unevaluated_class(type(t))}, key=str)
        if nodes:
            t = rng.choice(nodes)
            new = rs["q"][0] if t.has(ArraySymbol) else rs["u"]
            reqs.append({"kind": "nested-instance", "pairs": [(t, new)], "modelled_subs": True})
    comp = sorted({t for t in subs_ if isinstance(t, sp.Pow) and t.base == rs["c"]}, key=str)
    if comp:
        reqs.append({"kind": "compound c**2", "pairs": [(comp[0], rs["u2"])], "modelled_subs": False})
    elif not oracle:
        comp = sorted({t for t in subs_ if isinstance(t, (sp.Pow, sp.Add, sp.Mul)) and t.free_symbols and not t.has(ArraySymbol)}, key=str)
        if comp:
            reqs.append({"kind": "compound", "pairs": [(rng.choice(comp), rs["u2"])], "modelled_subs": False})
    return reqs


def has_unpicklable_attr(expr) -> bool:
    """Does the term hold a closure/lambda as non-SymPy attribute (Python cannot pickle those)?"""
    import sympy as sp

    for node in sp.preorder_traversal(expr):
        if m1.is_unevaluated_class(type(node)):
            for f in dataclasses.fields(type(node)):
                if not f.metadata.get("sympify") and not is_picklable_attr(getattr(node, f.name)):
                    return True
    return False


def symbols_in(expr):
    import sympy as sp

    return sorted((s for s in expr.atoms(sp.Symbol) if not isinstance(s, sp.Dummy)), key=lambda s: (s.name, str(s.assumptions0)))


def gen_map(pools: Pools, rng, expr, depth=1):
    """A substitution map hitting symbols of `expr` (plus a miss), values of every kind."""
    import sympy as sp

    syms = symbols_in(expr)
    keys = rng.sample(syms, min(len(syms), rng.randint(1, 3))) if syms else []
    if rng.random() < 0.3:
        keys.append(sp.Symbol("unused"))
    m = {}
    for k in keys:
        if k.name.startswith("p") and k.name[1:].isdigit():
            m[k] = sp.Symbol("q" + k.name[1:])  # a momentum's name symbol: rename only
        else:
            m[k] = pools.scalar(rng, depth)
    return m


# --------------------------------------------------------------------------- T2 correspondence


def _try(fn):
    try:
        return fn()
    except Exception as e:  # noqa: BLE001
        return e


def err_kind(e: Exception) -> str:
    for k in (ValueError, KeyError, NotImplementedError, TypeError):
        if isinstance(e, k):
            return k.__name__
    return "Other"


def pairs_str(pairs, ctx) -> str:
    return " ".join(f"({m1.show_sym(m1.canon(k, ctx))} {m1.show(m1.canon(v, ctx))})" for k, v in pairs)


def term_pairs_str(pairs, ctx) -> str:
    return " ".join(f"({m1.show(m1.canon(k, ctx))} {m1.show(m1.canon(v, ctx))})" for k, v in pairs)


def variants_for_eq(entry: ClassEntry, pools: Pools, rng, r):
    """Instances to compare `r` with: an equal copy, one argument changed, attributes changed
    (incl. the `_get_hashable_object` corner None vs "builtins.NoneType")."""
    import sympy as sp

    vals = [getattr(r, f.name) for f in entry.fields]
    out = [("copy", entry.cls(*vals))]
    si = [i for i, f in enumerate(entry.fields) if f.metadata.get("sympify")]
    ai = [i for i, f in enumerate(entry.fields) if not f.metadata.get("sympify")]
    if si:
        i = rng.choice(si)
        v2 = list(vals)
        v2[i] = vals[i] + 1 if isinstance(vals[i], sp.Expr) and not vals[i].has(sp.tensor.array.expressions.ArraySymbol) else sp.Symbol("other")
        out.append(("arg changed", _try(lambda: entry.cls(*v2))))
    for i in ai:
        dom = entry.attr_domain[ai.index(i)]
        for alt in dom:
            if alt is not vals[i] and alt != vals[i]:
                v2 = list(vals)
                v2[i] = alt
                corner = {repr(alt), repr(vals[i])} == {"None", "'builtins.NoneType'"}
                out.append(("attr changed (hash corner)" if corner else "attr changed", _try(lambda v2=v2: entry.cls(*v2))))
    return [(k, o) for k, o in out if not isinstance(o, Exception)]


def correspondence(chk: common.Check, rng, n_per_class: int, entries, helpers, ctx, variant=(0, 1)):  # noqa: C901, PLR0912, PLR0915
    """Real decorator methods vs Lean model on random nested instances of EVERY table class and of
    the helper classes. Returns (disagreements, excluded-point notes)."""
    import pickle  # noqa: S403

    pools = Pools(entries)
    lines = [f"(variant {variant[0]} {variant[1]})", "(wftable)"]
    plan: list[dict] = []
    stats = {"instances": 0, "per_class": n_per_class, "nested_unevaluated_args": 0, "non_default_attrs": 0, "function_valued_attrs": 0,
             "evaluate_raised_on_random_args": 0, "ops": {}, "helper_instances": 0, "unrepresentable": 0}
    notes: list[dict] = []

    def add(line, **kw):
        lines.append(line)
        plan.append(kw)
        stats["ops"][kw["op"]] = stats["ops"].get(kw["op"], 0) + 1

    subjects = []
    for entry in entries:
        for _ in range(n_per_class):
            subjects.append((entry, pools.instance_of(entry, rng, 2)))
        subjects += [(entry, r) for r in pools.function_attr_instances(entry, rng)]
    helper_objs = pools.helper_instances(rng)
    known_helpers = {h.__name__ for h in helpers}
    for name, obj in helper_objs.items():
        if name in known_helpers:
            subjects.append((None, obj))
            stats["helper_instances"] += 1
    bad: list[dict] = []
    # ---- substitution keys that are TERMS (array symbols, applied functions, indexed symbols, folded sub-instances,
    # compound sub-expressions) on an instance of every table class and on that instance inside every helper class
    keyed = []
    for k_, entry in enumerate(entries):
        try:
            r = keyed_instance_of(pools, entry, rng, 1)
        except Exception:  # noqa: BLE001  (e.g. a class whose __new__ rejects the decorated argument)
            stats["keyed_instance_failed"] = stats.get("keyed_instance_failed", 0) + 1
            continue
        keyed.append((entry.key, "instance", r))
        ws = wrapped(pools, entry, r, rng)
        must = [w for w in ws if "symbolic pool (pa, pb" in w[0]]
        rest_ = [w for w in ws if w not in must]
        if must and n_per_class <= 2:
            must = [must[k_ % len(must)]]  # quick tier: the two identification wrappers alternate over the classes
        for label, w in [*must, *(rest_ if n_per_class > 2 else rng.sample(rest_, min(2, len(rest_))))]:
            keyed.append((entry.key, label, w))
    stats["term_key_subjects"] = len(keyed)
    stats["term_key_kinds"] = {}
    for key, label, r in keyed:
        try:
            c = m1.canon(r, ctx)
            s = m1.show(c)
            if m1.to_sympy(c, ctx) != r:
                msg = "converter round trip"
                raise m1.Unrepresentable(msg)
        except m1.Unrepresentable as e:
            stats["unrepresentable"] += 1
            bad.append({"op": "convert", "expr": str(r), "why": f"real object outside the model's term language: {e}"})
            continue
        except Exception:  # noqa: BLE001  (rebuilding a helper with unorderable function attributes etc.)
            stats["term_key_subject_not_rebuildable"] = stats.get("term_key_subject_not_rebuildable", 0) + 1
            continue
        for req in term_key_requests(r, rng, pools):
            kind = req["kind"]
            stats["term_key_kinds"][kind] = stats["term_key_kinds"].get(kind, 0) + 1
            tp = term_pairs_str(req["pairs"], ctx)
            sigma = dict(req["pairs"])
            add(f"(xreplacet {s} {tp})", op="xreplace", key=key + " / " + label, real=_try(lambda r=r, sigma=sigma: r.xreplace(sigma)),
                expr=r, sigma=sigma, term_key=kind)
            if req["modelled_subs"] and not req.get("xreplace_only"):
                seq = list(req["pairs"])
                add(f"(substt {s} {tp})", op="subs", key=key + " / " + label, real=_try(lambda r=r, seq=seq: r.subs(seq)),
                    expr=r, sigma=sigma, term_key=kind)
    for entry, r in subjects:
        stats["instances"] += 1
        try:
            c = m1.canon(r, ctx)
            s = m1.show(c)
            if m1.to_sympy(c, ctx) != r:
                msg = "converter round trip"
                raise m1.Unrepresentable(msg)
        except m1.Unrepresentable as e:
            stats["unrepresentable"] += 1
            bad.append({"op": "convert", "expr": str(r), "why": f"real object outside the model's term language: {e}"})
            continue
        if entry is not None:
            stats["nested_unevaluated_args"] += sum(1 for a in r.args if m1.is_unevaluated_class(type(a)))
            stats["non_default_attrs"] += sum(1 for f in entry.attr_fields if getattr(r, f.name) is not f.default and getattr(r, f.name) != f.default)
            stats["function_valued_attrs"] += sum(1 for f in entry.attr_fields if inspect.isfunction(getattr(r, f.name)))
        key = (entry.key if entry else "helper:" + type(r).__name__)
        sigma = gen_map(pools, rng, r)
        ps = pairs_str(sigma.items(), ctx)
        add(f"(wfterm {s})", op="wfterm", key=key, real=True, expr=r)
        add(f"(xreplace {s} {ps})", op="xreplace", key=key, real=_try(lambda: r.xreplace(sigma)), expr=r, sigma=sigma)
        seq = list(sigma.items())
        add(f"(subs {s} {ps})", op="subs", key=key, real=_try(lambda: r.subs(seq)), expr=r, sigma=sigma)
        if entry is not None and any(not f.metadata.get("sympify") for f in entry.fields[: len(r.args)]):
            # func(*args) would hand a SymPy expression to a non-SymPy field (attribute declared before a SymPy
            # field): outside the model and outside the clause (all-SymPy-field classes)
            stats["rebuild_outside_model"] = stats.get("rebuild_outside_model", 0) + 1
        else:
            add(f"(rebuild {s})", op="rebuild", key=key, real=_try(lambda: r.func(*r.args)), expr=r)
        if has_unpicklable_attr(r):
            stats["function_valued_attrs_not_picklable_by_python"] = stats.get("function_valued_attrs_not_picklable_by_python", 0) + 1
        else:
            add(f"(roundtrip {s})", op="roundtrip", key=key, real=_try(lambda: pickle.loads(pickle.dumps(r))), expr=r)  # noqa: S301
        if entry is not None:
            # the generated __new__ on every positional prefix (defaults omitted vs given), one value too many, none
            vals = [getattr(r, f.name) for f in entry.fields]
            toks = [f"(e {m1.show(m1.canon(v, ctx))})" if f.metadata.get("sympify") else f"(a {m1.show_attr(m1.attr_of(v, ctx))})"
                    for f, v in zip(entry.fields, vals)]
            extra = "(e (rat 7 1))"
            for k in sorted({0, *range(max(0, len(vals) - 3), len(vals) + 1)}):
                add(f"(construct {m1.hx(entry.key)} {' '.join(toks[:k])})", op="construct", key=key, expr=r,
                    real=_try(lambda k=k: entry.cls(*vals[:k])), n_given=k)
            add(f"(construct {m1.hx(entry.key)} {' '.join([*toks, extra])})", op="construct", key=key, expr=r,
                real=_try(lambda: entry.cls(*vals, 7)), n_given=len(vals) + 1)
            # the generated __new__ through the other CALLING CONVENTIONS: the model's constructor maps declared
            # fields to values (positional list in declaration order); the real class is called with keywords in
            # another written order / mixed / with a defaulted field skipped and must build that same instance
            for conv in calling_conventions(entry, rng, 2):
                toks_c = list(toks)
                try:
                    for name in conv["skipped"]:
                        j = [f.name for f in entry.fields].index(name)
                        f = entry.fields[j]
                        dv = field_default(f)[1]
                        toks_c[j] = (f"(e {m1.show(m1.canon(__import__('sympy').sympify(dv), ctx))})" if f.metadata.get("sympify")
                                     else f"(a {m1.show_attr(m1.attr_of(dv, ctx))})")
                except Exception:  # noqa: BLE001  (a default the converter cannot write down)
                    stats["convention_default_not_representable"] = stats.get("convention_default_not_representable", 0) + 1
                    continue
                stats["calling_conventions"] = stats.get("calling_conventions", 0) + 1
                add(f"(construct {m1.hx(entry.key)} {' '.join(toks_c)})", op="construct", key=key, expr=r,
                    real=_try(lambda conv=conv: call_convention(entry, vals, conv)), n_given=len(vals),
                    convention={"what": conv["label"], "positional": conv["n_pos"], "keywords_as_written": conv["kw"], "skipped": conv["skipped"]})
            attrs = tuple(m1.attr_of(getattr(r, f.name), ctx) for f in entry.attr_fields)
            if any(a == attrs for a, _ in entry.templates):
                try:
                    ev = with_cap(10.0, _try, r.evaluate)
                except _Timeout:
                    stats["evaluate_timeouts"] = stats.get("evaluate_timeouts", 0) + 1
                    ev = None
                if ev is None:
                    pass
                elif isinstance(ev, Exception):
                    stats["evaluate_raised_on_random_args"] += 1
                else:
                    add(f"(unfold {s})", op="unfold", key=key, real=ev, expr=r)
            for kind, other in variants_for_eq(entry, pools, rng, r):
                try:
                    so = m1.show(m1.canon(other, ctx))
                except m1.Unrepresentable:
                    continue
                real_eq = (r == other, hash(r) == hash(other))
                add(f"(eqv {s} {so})", op="eqv", key=key, real=real_eq, expr=r, other=other, kind=kind)
    replies = m1.run_driver(DRIVER, lines, DRIVER_MODULES)
    if replies[0] != "ok" or replies[1] != "true":
        bad.append({"op": "wftable", "why": f"driver says variant={replies[0]} wfTable={replies[1]}"})
    n_fallback = 0
    by_key = {e.key: e for e in entries}
    for kw, line in zip(plan, replies[2:]):
        op, r, real = kw["op"], kw["expr"], kw["real"]
        nontrivial = any(m1.is_unevaluated_class(type(a)) for a in r.args) or bool(kw.get("sigma")) and len(kw["sigma"]) > 1
        chk.count((kw["key"], op, str(r)) if nontrivial else None)
        rec = {"op": op, "class": kw["key"], "expr": str(r)[:400], "srepr": __import__("sympy").srepr(r)[:1500]}
        if "sigma" in kw:
            rec["map"] = {str(k): str(v) for k, v in kw["sigma"].items()}
        if "term_key" in kw:
            rec["substitution_key_kind"] = kw["term_key"]
        if "n_given" in kw:
            rec["positional_values_given"] = kw["n_given"]
        if "convention" in kw:
            rec["calling_convention"] = kw["convention"]
            rec["positional_values_given"] = kw["convention"]["positional"]
        line = line.strip()
        if op == "wfterm":
            if line != "true":
                bad.append({**rec, "why": "instance is not well-formed for the regenerated class table: " + line})
            continue
        if op == "eqv":
            want = "true" if real[0] else "false"
            if line != want:
                bad.append({**rec, "other": str(kw["other"]), "kind": kw["kind"], "why": f"__eq__ gives {real[0]}, model eqv gives {line}"})
            if real[0] and not real[1]:
                bad.append({**rec, "other": str(kw["other"]), "kind": kw["kind"], "why": "equal instances with different hash"})
            if kw["kind"].endswith("(hash corner)") and real[0]:
                notes.append({"excluded": "_get_hashable_object maps None and 'builtins.NoneType' to the same content",
                              "a": str(r), "b_attr": "builtins.NoneType", "equal": True, "hash_equal": real[1]})
            continue
        if isinstance(real, Exception):
            if "not supported between instances of 'function'" in str(real):
                stats["unorderable_function_attributes_skipped"] = stats.get("unorderable_function_attributes_skipped", 0) + 1
                continue
            if not line.startswith("err"):
                bad.append({**rec, "why": f"real code raised {type(real).__name__}: {real}", "model": line[:300]})
            continue
        if line.startswith("err"):
            bad.append({**rec, "why": "model gives " + line, "real": str(real)[:300]})
            continue
        try:
            model = m1.read_reply(line)
            if op == "construct" and kw["key"] in by_key and type(real) is by_key[kw["key"]].cls:
                # the converter reads an instance BY FIELD NAME; the model's argument list is positional. Tie the two:
                # `.args` of the constructed instance must be the values of the SymPy fields in declaration order
                # (methods such as evaluate() unpack `.args` by position), however the call was written
                named = [getattr(real, f.name) for f in by_key[kw["key"]].sympy_fields]
                if len(real.args) != len(named) or any(not (a is b or a == b) for a, b in zip(real.args, named)):
                    bad.append({**rec, "why": ".args of the constructed instance is not the model's argument list (SymPy fields in declaration order)",
                                "real_args": [str(a)[:120] for a in real.args], "model": line[:300],
                                "fields_by_name": {f.name: str(v)[:120] for f, v in zip(by_key[kw["key"]].sympy_fields, named)}})
                    continue
            if m1.same(real, model, ctx):
                continue
            rebuilt = m1.to_sympy_raw(model, ctx.fresh())  # pool sums NOT passed through PoolSum.__new__
        except Exception as e:  # noqa: BLE001
            if "not supported between instances of 'function'" in str(e):
                # SymPy cannot order two instances that differ only in a function-valued attribute (notes/findings_C14.md)
                stats["unorderable_function_attributes_skipped"] = stats.get("unorderable_function_attributes_skipped", 0) + 1
                continue
            bad.append({**rec, "why": f"model result cannot be rebuilt: {e!r}", "model": line[:300]})
            continue
        if op in {"unfold", "xreplace", "subs"}:
            # SymPy's arithmetic canonicalisation is not confluent (sequential subs / evaluate=False products build
            # other trees than a bottom-up rebuild): structurally different results are compared by value
            try:
                verdict = with_cap(10.0, m1.equal_mod_ring, real, rebuilt, ctx, True)
            except _Timeout:
                verdict = None
            if verdict is True:
                n_fallback += 1
                continue
            if verdict is None:
                stats["structurally_different_value_undecided"] = stats.get("structurally_different_value_undecided", 0) + 1
                continue
        bad.append({**rec, "why": "results differ", "real": str(real)[:400], "model": str(rebuilt)[:400]})
    stats["unfold_equal_only_modulo_ring_normalisation"] = n_fallback
    stats["requests"] = len(lines)
    chk.info("input_distribution", stats)
    for entry, r in subjects[:: max(1, len(subjects) // 5)][:5]:
        chk.sample({"class": entry.key if entry else type(r).__name__, "instance": str(r)[:200]})
    return bad, notes
