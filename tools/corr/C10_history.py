"""C10 call HISTORIES: `formulate` of the four K-matrix / P-vector classes, many calls in ONE process.

The property quantifies over inputs of `formulate`; the code that computes a result goes through
process-global caches (SymPy's cached constructors keyed on the hashable content of the
sub-expressions — for an `EnergyDependentWidth` that content holds a key derived from the caller's
phase-space factor OBJECT —, `functools.cache` on `_create_matrices`). A result may therefore depend on
what was formulated BEFORE in the same process. This module drives histories:

* every call of a history is `cls.formulate(n_channels, n_poles, parametrize, return_*_hat,
  phsp_factor, angular_momentum, meson_radius)` with
    - phase-space factors of every protocol-compliant kind: library classes and the harness marker
      class, plain FUNCTIONS that share one qualified name (closures of one factory, lambdas of one
      scope; both returning a node of a harness leaf class and returning a plain expression),
      differently named functions, `functools.partial` objects, callable instances, bound methods
      (several distinct objects per kind, some computing the same formula);
    - angular momenta and radii as numbers and as marker symbols (incl. symbols of equal name and
      different assumptions);
* histories run in worker processes (`python -m tools.corr.C10_history`, payload on stdin), each call
  under a wall-clock cap; the same history is run in a second process in REVERSED order, and selected
  calls alone in a fresh process each.

For EVERY call the worker reports
  (a) occurrences BY IDENTITY: `phsp_factor` attribute / angular momentum / radius of every
      `EnergyDependentWidth`, `L` / radius of every `FormFactor`, class of every phase-space node,
      checked against the objects passed to THIS call — and the skeleton line compared with the Lean
      state machine `Model/C10History.lean` (history correspondence);
  (b) the numeric residual: the entries of the result (evaluated through the library's own
      `xreplace` / `doit`) against an independent numpy solution of the K-matrix equation in which the
      phase-space factor is the PASSED object called directly, at seeded physical points;
  (c) a canonical digest of the result (tree walk; `EnergyDependentWidth` nodes labelled by the identity
      of their factor object) — compared by the parent with the digest of the same call in the
      reversed history and in the fresh process (purity).
"""

from __future__ import annotations

import functools
import hashlib
import json
import os
import signal
import subprocess
import sys
import time
from typing import Any

CLS_NAMES = {"nrK": "NonRelativisticKMatrix", "relK": "RelativisticKMatrix",
             "nrP": "NonRelativisticPVector", "relP": "RelativisticPVector"}
LIB_CLASSES = ["PhaseSpaceFactor", "PhaseSpaceFactorAbs", "PhaseSpaceFactorComplex", "PhaseSpaceFactorSWave",
               "EqualMassPhaseSpaceFactor"]
N_FORMULAS = 4
SYM_ORDER = ["s", "m", "Gamma", "gamma", "beta", "m_a", "m_b", "K", "P", "rho"]
CALL_CAP_S = 150

# angular momenta / radii: spec -> (object factory, numeric value)
L_TABLE = ["int:0", "int:1", "int:2", "sym:L_a", "sym:L_b", "sym2:L_a"]
D_TABLE = ["num:1", "num:3/2", "sym:d_a", "sym:d_b", "sym2:d_a"]
L_VALUE = {"int:0": 0, "int:1": 1, "int:2": 2, "sym:L_a": 1, "sym:L_b": 2, "sym2:L_a": 2}
D_VALUE = {"num:1": 1.0, "num:3/2": 1.5, "sym:d_a": 0.8, "sym:d_b": 2.2, "sym2:d_a": 1.7}


def l_object(spec: str):
    import sympy as sp

    kind, v = spec.split(":")
    if kind == "int":
        return int(v)
    if kind == "sym":
        return sp.Symbol(v, integer=True, nonnegative=True)
    return sp.Symbol(v, integer=True, positive=True)  # same name, other assumptions


def d_object(spec: str):
    import sympy as sp

    kind, v = spec.split(":")
    if kind == "num":
        return sp.Rational(v)
    if kind == "sym":
        return sp.Symbol(v, positive=True)
    return sp.Symbol(v, real=True)


# --------------------------------------------------------------------------- factor objects


def _formula(k: int, s, m1, m2):
    """Four numerically different phase-space conventions (no library phase-space class inside)."""
    import sympy as sp

    from ampform.dynamics.phasespace import BreakupMomentumSquared

    q = sp.sqrt(BreakupMomentumSquared(s, m1, m2))
    if k == 0:
        return 2 * q / sp.sqrt(s)
    if k == 1:
        return 2 * q / (m1 + m2)
    if k == 2:
        return sp.Rational(14, 5) * q / sp.sqrt(s) + sp.Rational(1, 3)
    return 3 * q / (m1 + m2) + sp.Rational(1, 7)


def _make_node_class(name: str, fn):
    """An `@unevaluated` expression class `name(s, m1, m2)` whose value is `fn(s, m1, m2)`."""
    import sympy as sp

    from ampform.sympy import unevaluated

    cls = type(name, (sp.Expr,), {
        "__annotations__": {"s": Any, "m1": Any, "m2": Any},
        "__module__": __name__, "__qualname__": name,
        "evaluate": lambda self: fn(*self.args),
    })
    return unevaluated(cls)


@functools.cache
def leaf_class(k: int):
    return _make_node_class(f"FnRho{k}", functools.partial(_formula, k))


def _closure_factory(k: int, leafed: bool):
    def rho(s, m1, m2):
        return leaf_class(k)(s, m1, m2) if leafed else _formula(k, s, m1, m2)

    return rho


# lambdas written in ONE scope (all have the qualified name `<lambda>` of this module)
_LAMBDAS = {
    "a": [lambda s, m1, m2: leaf_class(0)(s, m1, m2), lambda s, m1, m2: leaf_class(1)(s, m1, m2),
          lambda s, m1, m2: leaf_class(2)(s, m1, m2), lambda s, m1, m2: leaf_class(3)(s, m1, m2)],
    "b": [lambda s, m1, m2: leaf_class(0)(s, m1, m2), lambda s, m1, m2: leaf_class(1)(s, m1, m2),
          lambda s, m1, m2: leaf_class(2)(s, m1, m2), lambda s, m1, m2: leaf_class(3)(s, m1, m2)],
}
_EXPR_LAMBDAS = [lambda s, m1, m2: _formula(0, s, m1, m2), lambda s, m1, m2: _formula(1, s, m1, m2),
                 lambda s, m1, m2: _formula(2, s, m1, m2), lambda s, m1, m2: _formula(3, s, m1, m2)]


def rho_named_0(s, m1, m2):
    return leaf_class(0)(s, m1, m2)


def rho_named_1(s, m1, m2):
    return leaf_class(1)(s, m1, m2)


def rho_named_2(s, m1, m2):
    return leaf_class(2)(s, m1, m2)


def rho_named_3(s, m1, m2):
    return leaf_class(3)(s, m1, m2)


def _generic(k, s, m1, m2):
    return leaf_class(k)(s, m1, m2)


class _Convention:
    """Callable instance / owner of a bound method."""

    def __init__(self, k: int):
        self.k = k

    def __call__(self, s, m1, m2):
        return leaf_class(self.k)(s, m1, m2)

    def rho(self, s, m1, m2):
        return leaf_class(self.k)(s, m1, m2)


def _twin_class_factory(k: int):
    """Two different CLASSES with one qualified name (a class redefined in a notebook cell)."""
    return _make_node_class("TwinRho", functools.partial(_formula, k))


def make_factor(spec: str):
    """spec = `<kind>:<k or name>[:<tag>]` -> (object, node class or None)."""
    import ampform.dynamics.phasespace as ps

    from tools.corr.C10_defs import marker_phsp

    kind, k, *_tag = spec.split(":")
    if kind == "class":
        cls = marker_phsp() if k == "MarkerPhsp" else getattr(ps, k)
        return cls, cls
    if kind == "libfn":
        return getattr(ps, k), None
    k = int(k)
    tag = _tag[0] if _tag else "a"
    if kind == "closure":
        return _closure_factory(k, True), leaf_class(k)
    if kind == "exprclosure":
        return _closure_factory(k, False), None
    if kind == "lambda":
        return _LAMBDAS[tag][k], leaf_class(k)
    if kind == "exprlambda":
        return _EXPR_LAMBDAS[k], None
    if kind == "named":
        return globals()[f"rho_named_{k}"], leaf_class(k)
    if kind == "partial":
        return functools.partial(_generic, k), leaf_class(k)
    if kind == "callable":
        return _Convention(k), leaf_class(k)
    if kind == "method":
        return _Convention(k).rho, leaf_class(k)
    if kind == "twinclass":
        cls = _twin_class_factory(k)
        return cls, cls
    msg = f"unknown factor spec {spec}"
    raise ValueError(msg)


def qualname_of(obj) -> str:
    q = getattr(obj, "__qualname__", None)
    if q is None:
        obj = type(obj)
        q = obj.__qualname__
    return f"{getattr(obj, '__module__', '?')}.{q}"


class Registry:
    """All objects of one process: factors (ONE object per spec of the global pool, so identities and
    numbers mean the same in every worker), node classes, L / d objects."""

    def __init__(self, extra_specs=()):
        import ampform.dynamics.phasespace as ps

        from tools.corr.C10_defs import marker_phsp

        self.specs = sorted({*_factor_pool(), *extra_specs})
        self.factor, self.node_of = {}, {}
        for sp_ in self.specs:
            self.factor[sp_], self.node_of[sp_] = make_factor(sp_)
        self.ident = {sp_: i + 1 for i, sp_ in enumerate(self.specs)}
        self.by_id = {id(o): sp_ for sp_, o in self.factor.items()}
        # fixed classes first, so that the numbering does not depend on the extra specs
        self.nodes = [*(getattr(ps, n) for n in LIB_CLASSES), marker_phsp(), *(leaf_class(k) for k in range(N_FORMULAS))]
        for sp_ in self.specs:
            c = self.node_of[sp_]
            if c is not None and all(c is not x for x in self.nodes):
                self.nodes.append(c)
        quals = sorted({qualname_of(o) for o in self.factor.values()})
        self.qual = {sp_: quals.index(qualname_of(self.factor[sp_])) for sp_ in self.specs}
        self.L = {sp_: l_object(sp_) for sp_ in L_TABLE}
        self.d = {sp_: d_object(sp_) for sp_ in D_TABLE}

    def node_id(self, cls):
        for i, c in enumerate(self.nodes):
            if c is cls:
                return i
        return None

    def factor_label(self, obj) -> str:
        sp_ = self.by_id.get(id(obj))
        return f"f{self.ident[sp_]}" if sp_ is not None else "f?" + qualname_of(obj)

    def factor_spec(self, obj) -> str:
        return self.by_id.get(id(obj)) or "unknown-object:" + qualname_of(obj)

    def l_label(self, x) -> str:
        import sympy as sp

        for i, sp_ in enumerate(L_TABLE):
            if sp.sympify(self.L[sp_]) == x:
                return f"L{i}"
        return f"L?{sp.srepr(x)}"

    def d_label(self, x) -> str:
        import sympy as sp

        for i, sp_ in enumerate(D_TABLE):
            if sp.sympify(self.d[sp_]) == x:
                return f"d{i}"
        return f"d?{sp.srepr(x)}"

    def lean_call(self, c: dict) -> str:
        node = self.node_of[c["phsp"]]
        nid = "-" if node is None else str(self.node_id(node))
        return (f"call {c['cls']} {c['nc']} {c['np']} {int(c['par'])} {int(c['hat'])} {self.ident[c['phsp']]} "
                f"{self.qual[c['phsp']]} {nid} {L_TABLE.index(c['L'])} {D_TABLE.index(c['d'])}")


# --------------------------------------------------------------------------- one call on the real code


def real_formulate(reg: Registry, c: dict):
    from ampform.dynamics import kmatrix as km

    cls = getattr(km, CLS_NAMES[c["cls"]])
    kw = {"phsp_factor": reg.factor[c["phsp"]], "angular_momentum": reg.L[c["L"]], "meson_radius": reg.d[c["d"]]}
    if c["cls"] == "relK":
        kw["return_t_hat"] = bool(c["hat"])
    elif c["cls"] == "relP":
        kw["return_f_hat"] = bool(c["hat"])
    return cls.formulate(n_channels=c["nc"], n_poles=c["np"], parametrize=bool(c["par"]), **kw)


def canonical_digest(matrix, reg: Registry) -> str:
    """Digest of the expression trees; non-sympy attributes of `EnergyDependentWidth` by IDENTITY of the
    factor object, node classes by identity where the registry knows them; commutative arguments sorted."""
    import sympy as sp

    from ampform.dynamics import EnergyDependentWidth

    memo: dict = {}

    def h(text: str) -> str:
        return hashlib.sha1(text.encode()).hexdigest()[:20]

    def cls_label(t) -> str:
        nid = reg.node_id(t)
        return f"{t.__module__}.{t.__qualname__}" + (f"#n{nid}" if nid is not None else "")

    def walk(e) -> str:
        key = id(e)
        if key in memo:
            return memo[key][1]
        if not isinstance(e, sp.Basic):
            out = h("py:" + repr(e))
        elif isinstance(e, EnergyDependentWidth):
            out = h("EDW(" + ",".join(walk(a) for a in e.args) + f"|phsp={reg.factor_spec(e.phsp_factor)}|name={e.name!r})")
        elif not e.args:
            out = h("atom:" + sp.srepr(e))
        else:
            kids = [walk(a) for a in e.args]
            if isinstance(e, (sp.Add, sp.Mul)):
                kids.sort()
            out = h(cls_label(type(e)) + "(" + ",".join(kids) + ")")
        memo[key] = (e, out)  # keep `e` alive so that ids stay unique
        return out

    return h(f"{matrix.shape}:" + ";".join(walk(x) for x in matrix))


def occurrences_by_identity(matrix, reg: Registry, c: dict):
    """(skeleton line, list of violations of the honouring statement for THIS call)."""
    import sympy as sp

    from ampform.dynamics import EnergyDependentWidth
    from ampform.dynamics.form_factor import FormFactor

    from tools.corr.C09_runner import unroll_sums
    from tools.corr.C10_defs import _channel_of, _pole_of

    f_obj, node_cls = reg.factor[c["phsp"]], reg.node_of[c["phsp"]]
    l_obj, d_obj = sp.sympify(reg.L[c["L"]]), sp.sympify(reg.d[c["d"]])
    allowed_nodes = []
    if node_cls is not None:
        allowed_nodes = [node_cls]
    bad, w_items, r_items, f_items = [], set(), set(), set()
    fams, unknown_syms = set(), set()
    markers = [sp.sympify(x) for x in [*reg.L.values(), *reg.d.values()]]
    for entry in matrix:
        for tree in (entry, unroll_sums(entry)):
            unrolled = tree is not entry
            for node in sp.preorder_traversal(tree):
                if isinstance(node, EnergyDependentWidth):
                    R, i = _pole_of(node.mass0), _channel_of(node.m_a, node.m_b)
                    if node.phsp_factor is not f_obj:
                        bad.append({"node": "EnergyDependentWidth", "pole": R, "channel": i,
                                    "carries_phsp_factor": reg.factor_spec(node.phsp_factor),
                                    "passed": c["phsp"]})
                    if node.angular_momentum != l_obj or node.meson_radius != d_obj:
                        bad.append({"node": "EnergyDependentWidth", "pole": R, "channel": i,
                                    "carries": [sp.srepr(node.angular_momentum), sp.srepr(node.meson_radius)],
                                    "passed": [c["L"], c["d"]]})
                    if unrolled:
                        w_items.add((R, i, reg.factor_label(node.phsp_factor), reg.l_label(node.angular_momentum),
                                     reg.d_label(node.meson_radius)))
                elif isinstance(node, FormFactor):
                    if node.angular_momentum != l_obj or node.meson_radius != d_obj:
                        bad.append({"node": "FormFactor", "carries": [sp.srepr(node.angular_momentum), sp.srepr(node.meson_radius)],
                                    "passed": [c["L"], c["d"]]})
                    if unrolled:
                        f_items.add((_channel_of(node.m1, node.m2), _pole_of(node.s), reg.l_label(node.angular_momentum),
                                     reg.d_label(node.meson_radius)))
                elif reg.node_id(type(node)) is not None:
                    if all(type(node) is not a for a in allowed_nodes):
                        bad.append({"node": "phase-space node", "class": f"{type(node).__qualname__}#n{reg.node_id(type(node))}",
                                    "passed": c["phsp"]})
                    if unrolled:
                        a = node.args
                        r_items.add((_channel_of(a[1], a[2]) if len(a) >= 3 else 99, _pole_of(a[0]), reg.node_id(type(node))))
        for x in unroll_sums(entry).free_symbols:
            if isinstance(x, sp.Indexed):
                fams.add(str(x.base.label))
            elif isinstance(x, sp.IndexedBase):
                fams.add(str(x.label))
            elif any(x == m for m in markers):
                continue
            elif x.name.startswith("rho") and x.name[3:].isdigit():
                fams.add("rho")
            else:
                fams.add(x.name)
    for x in sorted(fams):
        if x not in SYM_ORDER:
            unknown_syms.add(x)
    syms = [x for x in SYM_ORDER if x in fams] + sorted(unknown_syms)
    items = [f"W {R} {i} {f} {L} {d}" for (R, i, f, L, d) in sorted(w_items)]
    items += [f"R {i} n{n}" + ("" if R == 0 else f" at-pole-{R}") for (i, R, n) in sorted(r_items)]
    items += [f"F {i} {L} {d}" + ("" if R == 0 else f" at-pole-{R}") for (i, R, L, d) in sorted(f_items)]
    line = f"shape={matrix.shape[0]}x{matrix.shape[1]} | syms " + " ".join(syms) + " | " + "; ".join(items)
    # de-duplicate the violations
    seen, uniq = set(), []
    for b in bad:
        k = json.dumps(b, sort_keys=True, default=str)
        if k not in seen:
            seen.add(k)
            uniq.append(b)
    return line, uniq


# --------------------------------------------------------------------------- numeric residual (b)


def _num(e) -> complex:
    import sympy as sp

    return complex(sp.N(sp.sympify(e).doit(), 17))


def _values_map(vals: dict, nc: int, np_: int):
    import sympy as sp

    from tools.corr.C09_defs import base_symbols

    B = base_symbols()
    out = {B["s"]: sp.Float(vals["s"])}
    for i in range(nc):
        out[B["m_a"][i]] = sp.Float(vals[f"m_a_{i}"])
        out[B["m_b"][i]] = sp.Float(vals[f"m_b_{i}"])
    for r in range(1, np_ + 1):
        out[B["m"][r]] = sp.Float(vals[f"m_{r}"])
        out[B["beta"][r]] = sp.Float(vals[f"beta_{r}"])
        for i in range(nc):
            out[B["Gamma"][r, i]] = sp.Float(vals[f"Gamma_{r}_{i}"])
            out[B["gamma"][r, i]] = sp.Float(vals[f"gamma_{r}_{i}"])
    return out


def library_values(matrix, subs: dict) -> list:
    """The entries as the library's own expression evaluates (xreplace numbers -> doit -> evalf)."""
    import sympy as sp

    from tools.corr.C09_runner import unroll_sums

    out = []
    for e in matrix:
        v = unroll_sums(e).xreplace(subs).doit()
        v = sp.N(v, 17)
        if v.free_symbols:
            msg = f"free symbols left after substitution: {sorted(map(str, v.free_symbols))}"
            raise ValueError(msg)
        out.append(complex(v))
    return out


def expected_values(c: dict, vals: dict, f_obj, free: dict | None):
    """Independent numpy solution. Parametrised: K, P from the documented parametrisation with
    Γ_Ri(s) = Γ⁰_Ri (B_i(s)/B_i(m_R²))² ρ_i(s)/ρ_i(m_R²), ρ = the PASSED object called directly.
    Returns (values in matrix order, condition number)."""
    import numpy as np
    import sympy as sp

    from ampform.dynamics.form_factor import FormFactor

    nc, np_, kind = c["nc"], c["np"], c["cls"]
    rel = kind in ("relK", "relP")
    one = np.eye(nc, dtype=complex)
    if free is not None:
        K = np.array([[free[f"K_{i}_{j}"] for j in range(nc)] for i in range(nc)], dtype=complex)
        P = np.array([free.get(f"P_{i}", 0) for i in range(nc)], dtype=complex)
        rho = np.array([free.get(f"rho{i}", 1) for i in range(nc)], dtype=complex)
    else:
        s = vals["s"]
        Lv, dv = L_VALUE[c["L"]], D_VALUE[c["d"]]
        ma = [vals[f"m_a_{i}"] for i in range(nc)]
        mb = [vals[f"m_b_{i}"] for i in range(nc)]

        def rho_at(x, i):
            return _num(f_obj(sp.Float(x), sp.Float(ma[i]), sp.Float(mb[i])))

        def ff_at(x, i):
            return _num(FormFactor(sp.Float(x), sp.Float(ma[i]), sp.Float(mb[i]), sp.Integer(Lv), sp.Float(dv)))

        rho = np.array([rho_at(s, i) if rel else 1 for i in range(nc)], dtype=complex)
        K = np.zeros((nc, nc), dtype=complex)
        P = np.zeros(nc, dtype=complex)
        for r in range(1, np_ + 1):
            m = vals[f"m_{r}"]
            g = []
            for i in range(nc):
                width = vals[f"Gamma_{r}_{i}"]
                if rel:
                    width = width * (ff_at(s, i) / ff_at(m * m, i)) ** 2 * rho_at(s, i) / rho_at(m * m, i)
                g.append(vals[f"gamma_{r}_{i}"] * np.sqrt(complex(m * width)))
                p = vals[f"beta_{r}"] * vals[f"gamma_{r}_{i}"] * m * vals[f"Gamma_{r}_{i}"] / (m * m - s)
                P[i] += p * (ff_at(s, i) if kind == "relP" else 1)
            for i in range(nc):
                for j in range(nc):
                    K[i, j] += g[i] * g[j] / (m * m - s)
    sq = np.sqrt(rho)
    if kind == "nrK":
        A = one - 1j * K
        out = K @ np.linalg.inv(A)
    elif kind == "relK":
        A = one - 1j * np.diag(rho) @ K
        out = K @ np.linalg.inv(A)
        if not c["hat"]:
            out = np.diag(np.conj(sq)) @ out @ np.diag(sq)
    elif kind == "nrP":
        A = one - 1j * K
        out = np.linalg.solve(A, P).reshape(nc, 1)
    else:
        k_hat = np.diag(1 / np.conj(sq)) @ K @ np.diag(1 / sq)
        A = one - 1j * k_hat @ np.diag(rho)
        out = np.linalg.solve(A, P)
        if not c["hat"]:
            out = sq * out
        out = out.reshape(nc, 1)
    return [complex(x) for x in out.flatten()], float(np.linalg.cond(A))


def residual_check(matrix, reg: Registry, c: dict, rng, n_points: int):
    """[(relative deviation, point, library, expected)] for the seeded points of this call."""
    import numpy as np
    import sympy as sp

    from tools.corr.C09_runner import physical_point

    out = []
    nc, np_ = c["nc"], c["np"]
    f_obj = reg.factor[c["phsp"]]
    for _ in range(n_points):
        if not c["par"]:
            free = {}
            subs = {}
            for x in set().union(*[e.free_symbols for e in matrix]):
                if isinstance(x, sp.Indexed):
                    nm = f"{x.base.label}_" + "_".join(str(k) for k in x.indices)
                    nm = nm if nm.startswith("K_") else f"P_{x.indices[0]}"
                    free[nm] = complex(rng.uniform(-1, 1), 0 if nm.startswith("K_") else rng.uniform(-1, 1))
                    subs[x] = sp.Float(free[nm].real) + sp.I * sp.Float(free[nm].imag)
                elif isinstance(x, sp.Symbol) and x.name.startswith("rho"):
                    free[x.name] = complex(rng.uniform(0.2, 1.5))
                    subs[x] = sp.Float(free[x.name].real)
            # symmetric real K (the property's domain)
            for i in range(nc):
                for j in range(i):
                    free[f"K_{i}_{j}"] = free[f"K_{j}_{i}"]
            for x in list(subs):
                if isinstance(x, sp.Indexed) and str(x.base.label) == "K":
                    subs[x] = sp.Float(free[f"K_{x.indices[0]}_{x.indices[1]}"].real)
            vals, point = {}, {k: [v.real, v.imag] for k, v in free.items()}
        else:
            free = None
            vals = physical_point(rng, nc, np_)
            subs = _values_map(vals, nc, np_)
            l_obj, d_obj = reg.L[c["L"]], reg.d[c["d"]]
            if isinstance(l_obj, sp.Symbol):
                subs[l_obj] = sp.Integer(L_VALUE[c["L"]])
            if isinstance(d_obj, sp.Symbol):
                subs[d_obj] = sp.Float(D_VALUE[c["d"]])
            point = vals
        lib = library_values(matrix, subs)
        exp, cond = expected_values(c, vals, f_obj, free)
        if not (np.all(np.isfinite(lib)) and np.all(np.isfinite(exp))) or cond > 1e6:
            out.append({"skipped": "non-finite or ill-conditioned", "cond": cond})
            continue
        scale = 1 + max(abs(x) for x in exp)
        dev = max(abs(a - b) for a, b in zip(lib, exp)) / scale
        out.append({"deviation": dev, "cond": cond, "point": point,
                    "library": [[x.real, x.imag] for x in lib], "expected": [[x.real, x.imag] for x in exp]})
    return out


# --------------------------------------------------------------------------- worker


class _Timeout(Exception):
    pass


def _alarm(_sig, _frm):
    raise _Timeout


def run_history_here(payload: dict) -> list:
    """Run the calls of `payload` in THIS process, in order."""
    import random

    reg = Registry(payload.get("extra_factors", ()))
    results = []
    signal.signal(signal.SIGALRM, _alarm)
    for c in payload["calls"]:
        t0 = time.time()
        r: dict = {"key": c["key"]}
        signal.alarm(int(payload.get("cap", CALL_CAP_S)))
        stage = "formulate"
        try:
            m = real_formulate(reg, c)
            stage = "inspect"
            r["digest"] = canonical_digest(m, reg)
            r["line"], r["occ_bad"] = occurrences_by_identity(m, reg, c)
            if payload.get("numeric", True):
                stage = "evaluate"
                rng = random.Random(f"C10hist:{payload.get('seed', 0)}:{c['key']}")
                r["residuals"] = residual_check(m, reg, c, rng, int(payload.get("points", 1)))
        except _Timeout:
            r["error" if stage != "evaluate" else "eval_error"] = (
                f"timeout in stage '{stage}': not finished within {payload.get('cap', CALL_CAP_S)} s")
        except Exception as e:  # noqa: BLE001
            import traceback

            r["error" if stage != "evaluate" else "eval_error"] = f"stage '{stage}': " + "".join(
                traceback.format_exception(type(e), e, e.__traceback__))[-1200:]
        finally:
            signal.alarm(0)
        r["secs"] = round(time.time() - t0, 2)
        results.append(r)
    return results


def _worker_main():
    sys.path.insert(0, os.getcwd())
    from tools.lib import common

    common.use_repo_source()
    payload = json.loads(sys.stdin.read())
    import ampform

    res = {"ampform": os.path.dirname(ampform.__file__), "results": run_history_here(payload)}
    sys.stdout.write("\n@@C10HIST@@" + json.dumps(res) + "\n")


# --------------------------------------------------------------------------- histories


def call_key(c: dict) -> str:
    return f"{c['cls']}/{c['nc']}x{c['np']}/par{int(c['par'])}/hat{int(c['hat'])}/{c['phsp']}/{c['L']}/{c['d']}"


def _call(cls, nc, np_, phsp, L="int:0", d="num:1", par=1, hat=0):
    c = {"cls": cls, "nc": nc, "np": np_, "par": int(par), "hat": int(hat), "phsp": phsp, "L": L, "d": d}
    if cls in ("nrK", "nrP"):
        c["hat"] = 0
    c["key"] = call_key(c)
    return c


FUNCTION_FAMILIES = ["closure", "lambda", "exprclosure", "exprlambda", "named", "partial", "callable", "method"]


def _factor_pool():
    pool = [f"class:{n}" for n in LIB_CLASSES] + ["class:MarkerPhsp", "libfn:chew_mandelstam_s_wave"]
    for fam in FUNCTION_FAMILIES:
        tags = ["a", "b"] if fam in ("closure", "lambda", "partial", "callable", "method", "exprclosure") else ["a"]
        pool += [f"{fam}:{k}:{t}" for k in range(N_FORMULAS) for t in tags]
    return pool


def fixed_histories():
    h1 = [  # functions sharing one qualified name, same L / radius, one process
        _call("relP", 2, 2, "closure:0:a"),
        _call("relP", 2, 2, "closure:1:a"),
        _call("relP", 2, 2, "closure:0:b", hat=1),
        _call("relK", 2, 2, "lambda:1:a"),
        _call("relK", 2, 2, "lambda:0:a", hat=1),
        _call("relP", 1, 2, "closure:1:b", L="sym:L_a", d="sym:d_a"),
        _call("relP", 1, 2, "exprclosure:0:a", L="sym:L_a", d="sym:d_a"),
        _call("relP", 1, 2, "exprclosure:1:a", L="sym:L_a", d="sym:d_a"),
        _call("relP", 2, 1, "closure:2:a", par=0),
        _call("nrP", 2, 2, "closure:2:a"),
        _call("relP", 2, 2, "closure:0:a"),
        _call("relP", 2, 1, "exprlambda:2:a", L="int:1"),
        _call("relP", 2, 1, "exprlambda:3:a", L="int:1"),
        _call("relK", 1, 1, "lambda:2:b", L="int:1"),
        _call("relK", 1, 1, "lambda:2:a", L="int:1"),
    ]
    h2 = [  # classes and other callables; L / radius markers alternate under ONE factor
        _call("relP", 2, 2, "class:PhaseSpaceFactor", L="sym:L_a", d="sym:d_a"),
        _call("relP", 2, 2, "class:PhaseSpaceFactor", L="sym:L_b", d="sym:d_a"),
        _call("relP", 2, 2, "class:PhaseSpaceFactor", L="sym2:L_a", d="sym2:d_a"),
        _call("relP", 2, 2, "class:MarkerPhsp", L="sym:L_a", d="sym:d_a", hat=1),
        _call("relK", 2, 1, "class:PhaseSpaceFactorAbs", L="int:2", d="num:3/2"),
        _call("relK", 2, 1, "class:PhaseSpaceFactorComplex", L="int:2", d="num:3/2"),
        _call("relP", 1, 1, "partial:0:a", L="int:1", d="sym:d_b"),
        _call("relP", 1, 1, "partial:1:a", L="int:1", d="sym:d_b"),
        _call("relP", 1, 1, "callable:1:a", L="int:1", d="sym:d_b"),
        _call("relP", 1, 1, "callable:2:b", L="int:1", d="sym:d_b"),
        _call("relP", 1, 2, "method:3:a", L="int:1", d="sym:d_b"),
        _call("relP", 1, 2, "method:0:b", L="int:1", d="sym:d_b"),
        _call("nrK", 2, 2, "class:PhaseSpaceFactor"),
        _call("relK", 2, 2, "class:PhaseSpaceFactorSWave", par=0, hat=1),
        _call("relP", 2, 2, "named:0:a", L="int:0"),
        _call("relP", 2, 2, "named:1:a", L="int:0"),
        _call("relP", 1, 1, "libfn:chew_mandelstam_s_wave", L="int:0"),
    ]
    return [("functions-one-qualname", h1), ("classes-callables-markers", h2)]


def random_history(rng, n_calls: int, max_poles: int = 2):
    pool = _factor_pool()
    calls = []
    prev = None
    for _ in range(n_calls):
        cls = rng.choice(["relP"] * 5 + ["relK"] * 3 + ["nrP", "nrK"])
        nc, np_ = rng.choice([(1, 1), (1, 2), (2, 1), (2, 2), (2, 2)])
        if max_poles > 2 and rng.random() < 0.3:
            np_ = 3
        if prev is not None and rng.random() < 0.65:
            # provoke a meeting in the cache: same L / radius, a DIFFERENT object of the same family
            fam = prev["phsp"].split(":")[0]
            cands = [p for p in pool if p.split(":")[0] == fam and p != prev["phsp"]] or pool
            phsp, L, d = rng.choice(cands), prev["L"], prev["d"]
            if rng.random() < 0.5:
                nc, np_ = prev["nc"], prev["np"]
        else:
            phsp, L, d = rng.choice(pool), rng.choice(L_TABLE), rng.choice(D_TABLE)
        c = _call(cls, nc, np_, phsp, L=L, d=d, par=rng.random() < 0.88, hat=rng.random() < 0.4)
        calls.append(c)
        if cls.startswith("rel") and c["par"]:
            prev = c
    return calls


# --------------------------------------------------------------------------- parent side


def run_jobs(jobs: dict, max_parallel: int = 8, job_cap_s: int = 1200) -> dict:
    """jobs: name -> payload. Returns name -> list of per-call results, or {"infra": text}."""
    import tempfile

    pending = list(jobs.items())
    running, done = {}, {}
    while pending or running:
        while pending and len(running) < max_parallel:
            name, payload = pending.pop(0)
            # stdout / stderr go to unnamed temporary files so that a chatty worker can never block on a pipe
            fo, fe = tempfile.TemporaryFile(mode="w+"), tempfile.TemporaryFile(mode="w+")
            from tools.lib import common

            env = dict(os.environ)
            env["PYTHONPATH"] = str(common.ROOT) + os.pathsep + env.get("PYTHONPATH", "")
            p = subprocess.Popen([common.PY, "-m", "tools.corr.C10_history"], cwd=str(common.ROOT), env=env,
                                 stdin=subprocess.PIPE, stdout=fo, stderr=fe, text=True)
            p.stdin.write(json.dumps(payload))
            p.stdin.close()
            running[name] = (p, fo, fe, time.time())
        time.sleep(0.05)
        for name in list(running):
            p, fo, fe, t0 = running[name]
            code = p.poll()
            if code is None:
                if time.time() - t0 > job_cap_s:
                    p.kill()
                    p.wait()
                    done[name] = {"infra": f"worker exceeded {job_cap_s} s"}
                    fo.close()
                    fe.close()
                    del running[name]
                continue
            fo.seek(0)
            fe.seek(0)
            out, err = fo.read(), fe.read()
            fo.close()
            fe.close()
            del running[name]
            mark = out.rfind("@@C10HIST@@")
            if code != 0 or mark < 0:
                done[name] = {"infra": f"worker exit {code}: {err[-1500:]}"}
            else:
                done[name] = json.loads(out[mark + len("@@C10HIST@@"):])
    return done


RESID_TOL = 1e-8


def plan(rng, tier: str):
    hists = fixed_histories()
    n_rand, n_calls = (2, 9) if tier == "quick" else (10, 14)
    for i in range(n_rand):
        hists.append((f"random-{i}", random_history(rng, n_calls, max_poles=2 if tier == "quick" else 3)))
    return hists


def observation_history():
    """Inputs on which the UNCHANGED library violates the property (notes/findings_C10.md): two different
    CLASSES with one qualified name. Reported as observations, never part of the verdict."""
    return [_call("relP", 2, 2, "twinclass:0:a"), _call("relP", 2, 2, "twinclass:1:a")]


def run(chk, rng, tier: str, seed: int):  # noqa: C901, PLR0912, PLR0915
    """History correspondence (Lean state machine) + history oracle. Returns the failing inputs; broken
    correspondences are recorded on `chk`."""
    from tools.lib import common

    t0 = time.time()
    hists = plan(rng, tier)
    jobs = {}
    n_fresh = 10 if tier == "quick" else 40
    fresh_calls = []
    for name, calls in hists:
        base = {"seed": seed, "points": 1 if tier == "quick" else 2}
        jobs[f"fwd:{name}"] = {**base, "calls": calls, "numeric": True}
        jobs[f"rev:{name}"] = {**base, "calls": list(reversed(calls)), "numeric": False}
        # candidates for a fresh process: calls that meet an earlier call with the same family / L / radius
        seen = set()
        for c in calls:
            if not (c["cls"].startswith("rel") and c["par"]):
                continue
            k = (c["phsp"].split(":")[0], c["L"], c["d"])
            if k in seen:
                fresh_calls.append((name, c, True))
            seen.add(k)
        fresh_calls += [(name, c, False) for c in calls]
    chosen, keys = [], set()
    for name, c, _prio in sorted(fresh_calls, key=lambda x: not x[2]):
        if c["key"] not in keys and len(chosen) < n_fresh:
            keys.add(c["key"])
            chosen.append((name, c))
    for name, c in chosen:
        jobs[f"fresh:{c['key']}"] = {"seed": seed, "calls": [c], "numeric": False}
    jobs["obs:twin-classes"] = {"extra_factors": ["twinclass:0:a", "twinclass:1:a"], "seed": seed,
                                "calls": observation_history(), "numeric": True, "points": 1}
    done = run_jobs(jobs)
    infra = {k: v["infra"] for k, v in done.items() if isinstance(v, dict) and "infra" in v}
    if infra:
        raise common.InfraError("C10 history workers failed: " + json.dumps(infra)[:1500])
    trees = {v["ampform"] for v in done.values()}
    chk.info("history_workers", {"processes": len(jobs), "ampform_imported_from": sorted(trees),
                                 "seconds": round(time.time() - t0, 1)})

    bad: list = []
    dist: dict = {}
    reg = Registry()
    fresh_digest = {k[len("fresh:"):]: v["results"][0] for k, v in done.items() if k.startswith("fresh:")}
    lean_lines, expect_real = [], []
    n_calls = n_resid = n_cmp_rev = n_cmp_fresh = 0
    worst = 0.0
    for name, calls in hists:
        fwd = done[f"fwd:{name}"]["results"]
        rev = {r["key"]: r for r in done[f"rev:{name}"]["results"]}  # last occurrence of a repeated call
        lean_lines.append("process")
        first_digest: dict = {}
        for idx, (c, r) in enumerate(zip(calls, fwd)):
            n_calls += 1
            fam = c["phsp"].split(":")[0]
            dist[f"{c['cls']}:{fam}"] = dist.get(f"{c['cls']}:{fam}", 0) + 1
            ctx = {"history": name, "call_index": idx, "call": c, "class": CLS_NAMES[c["cls"]],
                   "history_payload": jobs[f"fwd:{name}"]}
            if r.get("error"):
                bad.append({"what": "formulate raised / did not return in a call history", **ctx, "error": r["error"]})
                lean_lines.append(reg.lean_call(c))
                expect_real.append((name, idx, c, "error"))
                continue
            lean_lines.append(reg.lean_call(c))
            expect_real.append((name, idx, c, r["line"]))
            chk.count(("history", name, idx, c["key"]))
            # (a) occurrences by identity
            if r["occ_bad"]:
                bad.append({"what": "an argument passed to formulate() is not the only one that occurs in the result "
                                    "(call history in one process)", **ctx, "found": r["occ_bad"][:6]})
            # (b) residual with the passed objects
            if r.get("eval_error"):
                bad.append({"what": "the result cannot be evaluated numerically with the arguments that were passed "
                                    "(call history in one process)", **ctx, "error": r["eval_error"]})
            for rr in r.get("residuals", []):
                if "deviation" not in rr:
                    continue
                n_resid += 1
                worst = max(worst, rr["deviation"])
                if rr["deviation"] > RESID_TOL:
                    bad.append({"what": "the result does not solve the K-matrix equation with the phase-space factor / L / "
                                        "radius that were passed (call history in one process)", **ctx, **rr})
            # (c) purity
            if c["key"] in first_digest and first_digest[c["key"]] != r["digest"]:
                bad.append({"what": "the same formulate() call returns a different expression later in the same process",
                            **ctx})
            first_digest.setdefault(c["key"], r["digest"])
            if c["key"] in rev and not rev[c["key"]].get("error"):
                n_cmp_rev += 1
                if rev[c["key"]]["digest"] != r["digest"]:
                    bad.append({"what": "formulate() depends on the calls made before it in the process "
                                        "(same call, history reversed: different expression)", **ctx,
                                "skeleton_here": r["line"], "skeleton_reversed_history": rev[c["key"]]["line"]})
            fr = fresh_digest.get(c["key"])
            if fr is not None and not fr.get("error"):
                n_cmp_fresh += 1
                if fr["digest"] != r["digest"]:
                    bad.append({"what": "formulate() depends on the calls made before it in the process "
                                        "(differs from the same call in a fresh process)", **ctx,
                                "skeleton_here": r["line"], "skeleton_fresh_process": fr["line"]})
    # fresh-process results against the model as well (each its own process)
    for name, c in chosen:
        fr = fresh_digest[c["key"]]
        lean_lines += ["process", reg.lean_call(c)]
        expect_real.append((f"fresh:{name}", 0, c, fr.get("line", "error")))
        if fr.get("occ_bad"):
            bad.append({"what": "an argument passed to formulate() is not the only one that occurs in the result",
                        "history": "fresh process", "call": c, "class": CLS_NAMES[c["cls"]], "found": fr["occ_bad"][:6]})
    # history correspondence with the Lean state machine
    try:
        out = common.lean_run("Ampverif/Drivers/C10History.lean", "\n".join(lean_lines) + "\n")
        model = [ln for ln in out.split("\n") if ln.strip()]
        if len(model) != len(expect_real):
            chk.broken_correspondence("history", f"driver returned {len(model)} lines for {len(expect_real)} calls")
        else:
            mism = 0
            for (name, idx, c, real), want in zip(expect_real, model):
                if real.strip() != want.strip():
                    mism += 1
                    if mism <= 3:
                        chk.broken_correspondence("history", {"history": name, "call_index": idx, "call": c,
                                                              "real": real, "model": want})
            chk.info("history_mismatches", mism)
            if expect_real:
                chk.sample({"history_call": expect_real[1][2]["key"], "real": expect_real[1][3], "model": model[1]})
    except common.LeanRunError as e:
        chk.broken_correspondence("history", f"Lean driver failed: {e}"[:600])
    # observations (unchanged-library finding, outside the verdict)
    obs = done["obs:twin-classes"]["results"]
    chk.info("observations", [{
        "input": "two different phase-space CLASSES with one qualified name, formulated one after the other "
                 "(notes/findings_C10.md)", "call": r["key"], "foreign_occurrences": len(r.get("occ_bad", [])),
        "max_deviation": max([x.get("deviation", 0) for x in r.get("residuals", [])] or [0]),
        "error": r.get("error")} for r in obs])
    # the unchanged library really violates "the factor passed by the caller is the only one that occurs" on this
    # history: a genuine defect, listed in known_findings.json (a different class of failing history still alarms)
    for r in obs:
        if r.get("occ_bad") or r.get("error"):
            chk.failing_input({"class": "two phase-space classes with one qualified name in one process"},
                              {"input": {"history": "obs:twin-classes", "call": r["key"]},
                               "observed": {"foreign_occurrences": r.get("occ_bad", [])[:4], "error": r.get("error")},
                               "expected": "every EnergyDependentWidth.phsp_factor is the class passed to THIS call",
                               "reproducer": "notes/findings_C10.md"})
    chk.info("history_oracle", {
        "histories": [{"name": n, "calls": len(h)} for n, h in hists], "calls": n_calls,
        "distribution_class_x_factor_kind": dist, "residual_points": n_resid, "worst_deviation": worst,
        "tolerance": RESID_TOL, "compared_with_reversed_history": n_cmp_rev,
        "compared_with_fresh_process": n_cmp_fresh, "fresh_processes": len(chosen),
        "seconds": round(time.time() - t0, 1)})
    chk.count(("history-oracle", n_calls, n_resid), n_resid + n_cmp_rev + n_cmp_fresh)
    return bad


def replay_history(case: dict) -> int:
    """Re-run the stored history in a new process and the failing call alone in a fresh one."""
    payload = dict(case["history_payload"])
    payload["numeric"] = True
    c = case["call"]
    done = run_jobs({"fwd": payload, "fresh": {**payload, "calls": [c]}})
    for v in done.values():
        if "infra" in v:
            print(v["infra"])
            return 2
    r = done["fwd"]["results"][case["call_index"]]
    fr = done["fresh"]["results"][0]
    devs = [x.get("deviation", 0) for x in r.get("residuals", [])]
    print(json.dumps({"call": c["key"], "in_history": r.get("line"), "fresh_process": fr.get("line"),
                      "foreign_occurrences": r.get("occ_bad"), "deviations": devs,
                      "same_as_fresh": r.get("digest") == fr.get("digest"), "error": r.get("error")}, indent=1))
    ok = (not r.get("error") and not r.get("eval_error") and not r.get("occ_bad") and all(d <= RESID_TOL for d in devs)
          and r.get("digest") == fr.get("digest"))
    if not ok:
        print("VIOLATION property=C10 replay=<given file>")
    return 0 if ok else 1


if __name__ == "__main__":
    # run inside the properly named module (one copy of the harness classes / functions per process)
    sys.path.insert(0, os.getcwd())
    from tools.corr import C10_history as _self

    _self._worker_main()
