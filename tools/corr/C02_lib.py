"""C02 correspondence helpers: protocol of `Drivers/C02.lean`, skeleton extraction from the REAL
sympy objects of a `HelicityModel`, canonical forms shared by both sides."""

from __future__ import annotations

from collections import Counter
from fractions import Fraction

from tools.corr.C03_lib import hx, unhx
from tools.lib import common

CORPUS = [common.ROOT / "corpus" / "C02", common.ROOT / "corpus" / "C03"]


def d2(x) -> int:
    f = Fraction(x).limit_denominator(4) * 2
    if f.denominator != 1:
        raise ValueError(f"{x} is not a multiple of 1/2")
    return int(f)


# ----------------------------------------------------------------------------- protocol (inputs)


def transition_line(t) -> str:
    topo = t.topology
    nodes = ",".join(str(n) for n in topo.nodes)

    def opt(x):
        return "-" if x is None else str(x)

    edges = ";".join(f"{e}:{opt(ed.originating_node_id)}:{opt(ed.ending_node_id)}" for e, ed in topo.edges.items())
    states = []
    for e, s in t.states.items():
        p = s.particle
        label = p.latex if p.latex is not None else p.name
        states.append(f"{e},{hx(p.name)},{hx(label)},{d2(p.spin)},{d2(s.spin_projection)}")
    inters = []
    for n, i in t.interactions.items():
        eta = "-" if i.parity_prefactor is None else str(int(i.parity_prefactor))
        if i.parity_prefactor is not None and float(i.parity_prefactor) not in (1.0, -1.0):
            raise ValueError("parity prefactor outside the modelled domain")
        ls = "-" if i.l_magnitude is None or i.s_magnitude is None else f"{2 * int(i.l_magnitude)}:{d2(i.s_magnitude)}"
        inters.append(f"{n},{eta},{ls}")
    return "t " + "|".join([nodes, edges, ";".join(states), ";".join(inters)])


def lean_block(canonical: bool, couplings: bool, flags, transitions, dyn=()) -> str:
    p, c, ls = flags
    d = ",".join(f"{hx(n)}={hx(b)}" for n, b in dyn) or "-"
    lines = [f"config {int(canonical)} {int(couplings)} {int(bool(p))} {int(bool(c))} {int(bool(ls))} {d}"]
    lines += [transition_line(t) for t in transitions]
    lines.append("end")
    return "\n".join(lines) + "\n"


# ----------------------------------------------------------------------------- lineshape builders


def marker_builder(particle, vs):
    """An opaque lineshape recording the particle and the complete variable set."""
    import sympy as sp

    ell = sp.Symbol("None") if vs.angular_momentum is None else sp.Integer(vs.angular_momentum)
    return sp.Function("Lineshape")(sp.Symbol(particle.name), vs.incoming_state_mass, vs.outgoing_state_mass1,
                                    vs.outgoing_state_mass2, ell, vs.helicity_phi, vs.helicity_theta), {}


def builders():
    from ampform.dynamics import builder as b

    return {
        "bw": b.create_relativistic_breit_wigner,
        "bwff": b.create_relativistic_breit_wigner_with_ff,
        "ff": b.create_non_dynamic_with_ff,
        "marker": marker_builder,
    }


def particles_of(reaction) -> dict:
    return {s.particle.name: s.particle for t in reaction.transitions for s in t.states.values()}


def reconstruct_lineshape(dyn_tuple, particles):
    """Call the library's own builder with the variable set the MODEL predicts."""
    import sympy as sp

    from ampform.dynamics.builder import TwoBodyKinematicVariableSet

    bid, pname, m_p, m1, m2, ell, phi, theta = dyn_tuple
    vs = TwoBodyKinematicVariableSet(
        incoming_state_mass=sp.Symbol(m_p, nonnegative=True),
        outgoing_state_mass1=sp.Symbol(m1, nonnegative=True),
        outgoing_state_mass2=sp.Symbol(m2, nonnegative=True),
        helicity_theta=sp.Symbol(theta, real=True),
        helicity_phi=sp.Symbol(phi, real=True),
        angular_momentum=ell,
    )
    expr, _ = builders()[bid](particles[pname], vs)
    return expr


# ----------------------------------------------------------------------------- canonical terms

# a term is (params sorted, D tuples sorted, CG tuples sorted, other factors sorted); an amplitude
# is a Counter {term: integer coefficient} (SymPy merges equal terms of an Add, so do we).


def parse_model_term(s: str):
    fields = dict(f.split("=", 1) for f in s.split("|"))
    pre = int(fields["P"])
    params = tuple(sorted(unhx(x) for x in fields["C"].split(",") if x))
    ds = []
    for d in fields["D"].split(";"):
        if not d:
            continue
        j, m, mu, phi, theta = d.split(",")
        ds.append((int(j), int(m), int(mu), unhx(phi), unhx(theta)))
    gs = []
    for g in fields["G"].split(";"):
        if not g:
            continue
        gs.append(tuple(int(x) for x in g.split(",")))
    dyn = []
    for d in fields.get("L", "").split(";"):
        if not d:
            continue
        b, pn, mp_, m1, m2, ell, phi, theta = d.split(",")
        dyn.append((unhx(b), unhx(pn), unhx(mp_), unhx(m1), unhx(m2), None if ell == "-" else int(ell), unhx(phi),
                    unhx(theta)))
    others = ()
    if dyn:
        if RECON["particles"] is None:
            raise ValueError("model term with lineshapes but no reconstruction context")
        import sympy as sp

        expr = sp.Mul(*[reconstruct_lineshape(d, RECON["particles"]) for d in dyn])
        c2, (_, ds2, gs2, others) = parse_real_mul(expr)
        pre = pre * c2
        ds += list(ds2)
        gs += list(gs2)
        RECON["dyn_tuples"].update(dyn)
    return pre, (params, tuple(sorted(ds)), tuple(sorted(gs)), tuple(others))


# context for the reconstruction of lineshape sub-trees from the model's (builder, variable set)
RECON = {"particles": None, "dyn_tuples": set()}


def model_terms(field: str) -> Counter:
    c: Counter = Counter()
    if field == "-":
        return c
    for s in field.split("#"):
        pre, key = parse_model_term(s)
        c[key] += pre
    return Counter({k: v for k, v in c.items() if v != 0})


def parse_real_mul(expr):
    import sympy as sp
    from sympy.physics.quantum.cg import CG
    from sympy.physics.quantum.spin import WignerD

    coeff = sp.Integer(1)
    params, ds, gs, others = [], [], [], []
    for f in sp.Mul.make_args(expr):
        base, n = f, 1
        if isinstance(f, sp.Pow) and f.exp.is_Integer and f.exp > 0 and not f.base.is_Number:
            base, n = f.base, int(f.exp)
        for _ in range(n):
            if base.is_Number:
                coeff *= base
            elif isinstance(base, sp.Symbol) and (base.name.startswith("C_{") or base.name.startswith("H_{")):
                params.append(base.name)
            elif isinstance(base, WignerD):
                j, m, mp, alpha, beta, gamma = base.args
                phi = -alpha
                if gamma != 0 or not isinstance(phi, sp.Symbol) or not isinstance(beta, sp.Symbol):
                    others.append(sp.srepr(base))
                else:
                    ds.append((d2(j), d2(m), d2(mp), phi.name, beta.name))
            elif isinstance(base, CG):
                gs.append(tuple(d2(a) for a in base.args))
            else:
                others.append(sp.srepr(base))
    if coeff.is_Integer:
        coeff = int(coeff)
    return coeff, (tuple(sorted(params)), tuple(sorted(ds)), tuple(sorted(gs)), tuple(sorted(others)))


def real_terms(expr) -> Counter:
    import sympy as sp

    c: Counter = Counter()
    if expr == 0:
        return c
    for term in sp.Add.make_args(expr):
        pre, key = parse_real_mul(term)
        c[key] += pre
    return Counter({k: v for k, v in c.items() if v != 0})


def _canon_sign(c: Counter):
    """Abs(...) may extract a global sign: canonical representative of {c, -c}."""
    items = sorted(c.items(), key=str)
    neg = sorted(((k, -v) for k, v in c.items()), key=str)
    return tuple(min(items, neg, key=str))


def real_incoherent(expr):
    """`Σ_k |X_k|²` -> sorted list of canonical coherent sums; anything else is flagged."""
    import sympy as sp
    from sympy.physics.quantum.cg import CG
    from sympy.physics.quantum.spin import WignerD

    out = []
    if expr.has(sp.re) or expr.has(sp.im):
        # SymPy rewrote Abs(x**3 ...) into re/im form (repeated CG(0,0,0,0,0,0) factors): not a
        # structure of ampform; the component is then only covered by the numeric oracle
        return None
    for term in sp.Add.make_args(expr):
        n = 1
        inners = []
        ok = True
        # SymPy's Abs may pull factors of known sign out of the modulus: |a b|^2 -> |a|^2 b^2
        for f in sp.Mul.make_args(term):
            if f.is_Integer and f > 0:
                n *= int(f)
            elif isinstance(f, sp.Pow) and f.exp.is_Integer and f.exp % 2 == 0:
                b = f.base.args[0] if isinstance(f.base, sp.Abs) else f.base
                inners.append(b if f.exp == 2 else sp.Pow(b, f.exp // 2))
            elif not (f.has(WignerD) or f.has(CG)
                      or any(x.name.startswith(("C_{", "H_{")) for x in f.free_symbols)):
                inners.append(f)  # remnant of a lineshape that SymPy pulled out of / evaluated in |.|^2
            else:
                ok = False
        if ok and inners:
            inner = inners[0] if len(inners) == 1 else sp.expand_mul(sp.Mul(*inners))
            out += [real_terms(inner)] * n
        else:
            out.append(Counter({((), (), (), ("unexpected " + sp.srepr(term)[:200],)): 1}))
    return out


def graph_string(g) -> str:
    topo = g.topology

    def opt(x):
        return "-" if x is None else str(x)

    es = ",".join(f"{e}:{opt(ed.originating_node_id)}:{opt(ed.ending_node_id)}" for e, ed in sorted(topo.edges.items()))
    ss = ",".join(f"{e}:{hx(s.particle.name)}:{d2(s.spin_projection)}" for e, s in sorted(g.states.items()))
    return es + "/" + ss


# ----------------------------------------------------------------------------- observation of the real model


def observe(reaction, couplings: bool, flags, dyn=()) -> dict:
    import sympy as sp

    from ampform.helicity import _freeze, _perform_combinatorics
    from ampform.sympy import PoolSum
    from tools.corr.C03_lib import make_builder

    builder = make_builder(reaction, flags, use_helicity_couplings=couplings)
    for name, bid in dyn:
        builder.dynamics.assign(name, builders()[bid])
    model = builder.formulate()
    return extract(model, builder, reaction)


def observe_after_history(reaction, couplings: bool, flags, rng) -> dict:
    """The same configuration reached through a HISTORY on one builder object: formulate, toggle
    use_helicity_couplings / naming flags / lineshapes back and forth with formulate() calls in between, return to the
    configuration, formulate again. `history_equal` tells whether the last model equals the first one and a fresh one."""
    import ampform
    from ampform.dynamics.builder import create_non_dynamic
    from tools.corr.C03_lib import make_builder

    def snapshot(m):
        return (list(m.amplitudes.items()), list(m.components.items()), m.intensity,
                [(k, v) for k, v in m.parameter_defaults.items()])

    builder = make_builder(reaction, flags, use_helicity_couplings=couplings)
    naming = builder.naming
    first = builder.formulate()
    snap_first = snapshot(first)
    names = sorted({t.states[e].particle.name for t in reaction.transitions for e in t.topology.intermediate_edge_ids})
    steps = []
    for _ in range(3):
        op = rng.choice(["couplings", "parent", "child", "lineshape", "again"])
        steps.append(op)
        if op == "couplings":
            builder.config.use_helicity_couplings = not builder.config.use_helicity_couplings
        elif op == "parent":
            naming.insert_parent_helicities = not naming.insert_parent_helicities
        elif op == "child":
            naming.insert_child_helicities = not naming.insert_child_helicities
        elif op == "lineshape" and names:
            builder.dynamics.assign(rng.choice(names), builders()["bw"])
        builder.formulate()
    # back to the configuration
    builder.config.use_helicity_couplings = couplings
    naming.insert_parent_helicities = flags[0]
    naming.insert_child_helicities = flags[1]
    for n in names:
        builder.dynamics.assign(n, create_non_dynamic)
    last = builder.formulate()
    fresh = make_builder(reaction, flags, use_helicity_couplings=couplings).formulate()
    obs = extract(last, builder, reaction)
    obs["history"] = steps
    obs["history_equal"] = {
        "first_model_unchanged": snapshot(first) == snap_first,
        "last_equals_first": snapshot(last) == snap_first,
        "last_equals_fresh": snapshot(last) == snapshot(fresh),
    }
    return obs


def extract(model, builder, reaction) -> dict:
    import sympy as sp

    from ampform.helicity import _freeze, _perform_combinatorics
    from ampform.sympy import PoolSum

    obs = {"model": model, "builder": builder}
    obs["sym"] = [sorted(graph_string(_freeze(g)) for g in _perform_combinatorics(t)) for t in reaction.transitions]
    amps = {}
    for sym_, expr in model.amplitudes.items():
        base = sym_.base.name if hasattr(sym_.base, "name") else str(sym_.base)
        idx = tuple(d2(i) for i in sym_.indices)
        amps[(str(base), idx)] = real_terms(expr)
    obs["amplitudes"] = amps
    comp_a, comp_i = {}, {}
    for name, expr in model.components.items():
        if name.startswith("A_{"):
            comp_a[name] = real_terms(expr)
        elif name.startswith("I_{"):
            comp_i[name] = real_incoherent(expr)
        else:
            comp_a[name] = Counter({((), (), (), ("unexpected component",)): 1})
    obs["compA"], obs["compI"] = comp_a, comp_i
    inten = model.intensity
    ok = isinstance(inten, PoolSum)
    obs["intensity_shape_ok"] = ok
    bases, pools = [], []
    if ok:
        body = inten.expression
        if isinstance(body, sp.Pow) and body.exp == 2 and isinstance(body.base, sp.Abs):
            inner = body.base.args[0]
            for a in sp.Add.make_args(inner):
                if isinstance(a, sp.Indexed):
                    bases.append((str(a.base), tuple(str(i) for i in a.indices)))
                else:
                    obs["intensity_shape_ok"] = False
        else:
            obs["intensity_shape_ok"] = False
        for sym_, vals in inten.indices:
            pools.append((sym_.name, tuple(d2(v) for v in vals)))
    obs["bases"] = bases
    obs["pools"] = pools
    return obs


def parse_lean_blocks(out: str, particles_per_block=None) -> list[dict]:
    blocks = []
    cur = None
    RECON["particles"] = particles_per_block[0] if particles_per_block else None

    def new():
        return {"sym": [], "amp": [], "compA": [], "compI": [], "bases": [], "pools": [], "wf": None, "agree": None}

    for line in out.splitlines():
        if not line.strip():
            continue
        if cur is None:
            cur = new()
        tok = line.split(" ")
        if tok[0] == "sym":
            cur["sym"].append(sorted(tok[1].split("#")))
        elif tok[0] == "amp":
            idx = () if tok[2] == "-" else tuple(int(x) for x in tok[2].split(","))
            cur["amp"].append(((unhx(tok[1]), idx), model_terms(tok[3])))
        elif tok[0] == "compA":
            cur["compA"].append((unhx(tok[1]), model_terms(tok[2])))
        elif tok[0] == "compI":
            cur["compI"].append((unhx(tok[1]), [model_terms(x) for x in tok[2].split("@")]))
        elif tok[0] == "grouped":
            cur["grouped"] = tok[1] == "1"
        elif tok[0] == "bases":
            cur["bases"] = [unhx(x) for x in tok[1:] if x]
        elif tok[0] == "pool":
            cur["pools"].append((tok[1], () if tok[2] == "-" else tuple(int(x) for x in tok[2].split(","))))
        elif tok[0] == "wf":
            cur["wf"] = tok[1] == "1"
        elif tok[0] == "agree":
            cur["agree"] = tok[1] == "1"
        elif tok[0] == "done":
            blocks.append(cur)
            cur = None
            if particles_per_block and len(blocks) < len(particles_per_block):
                RECON["particles"] = particles_per_block[len(blocks)]
        else:
            raise common.LeanRunError(f"unexpected driver output: {line[:200]}")
    return blocks


def _first_term_diff(a: Counter, b: Counter):
    for k in a:
        if a[k] != b.get(k, 0):
            return {"term": k, "real_coefficient": a[k], "model_coefficient": b.get(k, 0)}
    for k in b:
        if k not in a:
            return {"term": k, "real_coefficient": 0, "model_coefficient": b[k]}
    return None


def diff(obs, blk):
    """First difference between the real skeleton and the model skeleton, or None."""
    if obs["sym"] != blk["sym"]:
        for i, (x, y) in enumerate(zip(obs["sym"], blk["sym"])):
            if x != y:
                return {"what": "identical-particle combinatorics", "transition": i, "real": x, "model": y}
        return {"what": "identical-particle combinatorics", "real_len": len(obs["sym"]), "model_len": len(blk["sym"])}
    # amplitudes: the model's writes resolved with last-writer-wins; real zeros are 'missing amplitude' definitions
    model_amp = {}
    for key, terms in blk["amp"]:
        model_amp[key] = terms
    real_amp = {k: v for k, v in obs["amplitudes"].items() if v}
    model_nz = {k: v for k, v in model_amp.items() if v}
    for k in sorted(set(real_amp) | set(model_nz), key=str):
        a, b = real_amp.get(k, Counter()), model_nz.get(k, Counter())
        if a != b:
            return {"what": "amplitude definition", "symbol": k, **(_first_term_diff(a, b) or {})}
    missing = [k for k in model_amp if k not in obs["amplitudes"]]
    if missing:
        return {"what": "amplitude symbol not defined by the real model", "symbol": missing[0]}
    ma = {}
    for n, t in blk["compA"]:
        ma[n] = t
    if set(ma) != set(obs["compA"]):
        only_r = sorted(set(obs["compA"]) - set(ma))[:1]
        only_m = sorted(set(ma) - set(obs["compA"]))[:1]
        return {"what": "component names (A)", "only_real": only_r, "only_model": only_m}
    for n in ma:
        if ma[n] != obs["compA"][n]:
            return {"what": "component A", "name": n, **(_first_term_diff(obs["compA"][n], ma[n]) or {})}
    mi = {}
    for n, t in blk["compI"]:
        mi[n] = t
    if set(mi) != set(obs["compI"]):
        return {"what": "component names (I)", "only_real": sorted(set(obs["compI"]) - set(mi))[:1],
                "only_model": sorted(set(mi) - set(obs["compI"]))[:1]}
    for n in mi:
        if obs["compI"][n] is None:
            obs["unparsed_I"] = obs.get("unparsed_I", 0) + 1
            continue
        has_ls = any(k[3] for c in mi[n] for k in c)

        def canon(counters):
            # with lineshapes SymPy's Abs re-normalises the lineshape factors (signs, known-positive
            # symbols pulled out): the I components are then compared modulo the lineshape factors;
            # amplitudes and A components are compared in full
            out = []
            for c in counters:
                if has_ls:
                    d = Counter()
                    for k, v in c.items():
                        d[(k[0], k[1], k[2], ())] += 1 if has_ls else v
                    c = d
                if c:
                    out.append(_canon_sign(c))
            return sorted(out, key=str)

        real_i, model_i = canon(obs["compI"][n]), canon(mi[n])
        if has_ls:
            obs["I_modulo_lineshapes"] = obs.get("I_modulo_lineshapes", 0) + 1
        if model_i != real_i:
            return {"what": "component I", "name": n, "real": str(real_i)[:300], "model": str(model_i)[:300]}
    if not obs["intensity_shape_ok"]:
        return {"what": "intensity is not PoolSum(Abs(sum of indexed amplitudes)**2, pools)"}
    real_bases = [b for b, _ in obs["bases"]]
    if sorted(real_bases) != sorted(blk["bases"]):
        return {"what": "amplitude bases in the intensity", "real": real_bases, "model": blk["bases"]}
    pool_names = tuple(n for n, _ in blk["pools"])
    for b, idx in obs["bases"]:
        if idx != pool_names:
            return {"what": "indices of an amplitude symbol in the intensity", "real": idx, "model": pool_names}
    if obs["pools"] != blk["pools"]:
        return {"what": "pools of the outer PoolSum", "real": obs["pools"], "model": blk["pools"]}
    return None
