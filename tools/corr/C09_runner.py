"""Runner shared by C09 and C10: regenerate the Lean model of dynamics/kmatrix.py, re-check the
theorems, validate the translation against the real lambdified code, run the property oracle.

The structure follows tools/lib/t1.py (T1Property.run); it differs in
  * the float twin (complex definitions with leaves: the leaf values are computed by the REAL
    code at every validation point and handed to the Lean twin);
  * condition-aware tolerances (the reference is re-evaluated at inputs perturbed by 1e-12 and
    the observed sensitivity widens the tolerance).
"""

from __future__ import annotations

import math
import traceback
from dataclasses import dataclass, field
from typing import Callable

from tools.lib import common
from tools.translate import c09_ext as X
from tools.translate import core


# --------------------------------------------------------------------------- points


def physical_point(rng, nc: int, np_: int, sub_threshold: bool = False) -> dict:
    """Real parameter point: s above every threshold and away from the poles; pole masses above
    all thresholds, or (sub_threshold) at least one of them below a threshold."""
    m_a = [rng.uniform(0.1, 0.8) for _ in range(nc)]
    m_b = [rng.uniform(0.1, 0.8) for _ in range(nc)]
    thr = [a + b for a, b in zip(m_a, m_b)]
    top = max(thr)
    for _ in range(1000):
        s = rng.uniform((top * 1.05) ** 2, top**2 + 6.0)
        poles = []
        for r in range(np_):
            if sub_threshold and (r == 0 or rng.random() < 0.4):
                # strictly below the highest threshold, above zero
                poles.append(rng.uniform(0.25 * top, 0.97 * top))
            else:
                poles.append(rng.uniform(top * 1.03, top + 2.5))
        if all(abs(m * m - s) > 0.2 for m in poles) and all(
                abs(poles[a] - poles[b]) > 0.1 for a in range(np_) for b in range(a)):
            break
    else:  # pragma: no cover
        raise common.InfraError("could not draw a parameter point")
    v = {"s": s}
    for i in range(nc):
        v[f"m_a_{i}"] = m_a[i]
        v[f"m_b_{i}"] = m_b[i]
    for r in range(1, np_ + 1):
        v[f"m_{r}"] = poles[r - 1]
        v[f"beta_{r}"] = rng.uniform(0.2, 1.5)
        for i in range(nc):
            v[f"Gamma_{r}_{i}"] = rng.uniform(0.05, 0.6)
            v[f"gamma_{r}_{i}"] = rng.uniform(0.3, 1.5)
    return v


def is_sub_threshold(v: dict, nc: int, np_: int) -> bool:
    return any(v[f"m_{r}"] < v[f"m_a_{i}"] + v[f"m_b_{i}"] for r in range(1, np_ + 1) for i in range(nc))


# --------------------------------------------------------------------------- real-code evaluation


def unroll_sums(e):
    """Replace every `Sum(f, (R, a, b))` with integer bounds by the explicit sum of its terms.
    (`Sum.doit()` expands the summand, which does not terminate in reasonable time for the
    relativistic widths with L >= 3.)"""
    import sympy as sp

    def expand(sm):
        f = sm.function
        for var, lo, hi in reversed(sm.limits):
            f = sp.Add(*[f.xreplace({var: sp.Integer(k)}) for k in range(int(lo), int(hi) + 1)])
        return f

    return e.replace(lambda x: isinstance(x, sp.Sum) and all(
        isinstance(l[1], sp.Integer) and isinstance(l[2], sp.Integer) for l in x.limits), expand)


class RealEvaluator:
    """Numeric evaluation of real ampform expressions (with Indexed / Sum / unevaluated nodes)
    through `doit()` + `lambdify(..., "numpy")`, keyed by Lean-style variable names."""

    def __init__(self, exprs: list, subs: dict | None = None):
        import sympy as sp

        self.sp = sp
        done = []
        for e in exprs:
            e = sp.sympify(e)
            if subs:
                e = e.xreplace(subs)
            done.append(unroll_sums(e).doit())
        indexed = set()
        for e in done:
            indexed |= e.atoms(sp.Indexed)
        labels = {ix.base.label for ix in indexed}
        repl = {}
        for ix in indexed:
            repl[ix] = sp.Symbol(X.LeafTranslator.indexed_name(ix))
        done = [e.xreplace(repl) for e in done]
        syms = set()
        for e in done:
            syms |= {x for x in e.free_symbols if x not in labels}
        self.names = sorted({core.lean_name(x.name) for x in syms})
        by_name = {core.lean_name(x.name): x for x in syms}
        self.args = [by_name[n] for n in self.names]
        self.f = sp.lambdify(self.args, done, "numpy")

    def __call__(self, values: dict) -> list[complex]:
        import numpy as np

        with np.errstate(all="ignore"):
            out = self.f(*[complex(values[n]) for n in self.names])
        return [complex(o) for o in out]


# --------------------------------------------------------------------------- the property object


@dataclass
class KProperty:
    prop_id: str
    sources: list[str]
    namespace: str
    build: Callable  # () -> (list[KDef], facts: dict, info: dict)
    search: Callable  # (chk, rng, n, tier) -> list[dict] failing inputs
    prop_modules: list[str]
    signature_of: Callable
    n_points: dict = field(default_factory=lambda: {"quick": 6, "thorough": 40})
    n_search: dict = field(default_factory=lambda: {"quick": 40, "thorough": 400})
    expected_facts: dict | None = None
    trusted: tuple = ()
    rule: str = ""
    post: Callable | None = None
    ld_symbols: tuple | None = None  # (angular momentum symbol, meson radius symbol) used by build()
    extra_modules: Callable | None = None  # (chk, tier, seed) -> further Lean modules to prove (regenerates them)
    extra_regenerate: Callable | None = None

    # ---- generated files
    def _paths(self):
        gen_mod = f"Ampverif.Gen.{self.namespace}"
        flt_mod = f"Ampverif.GenFloat.{self.namespace}"
        return gen_mod, flt_mod

    def _header(self):
        hashes = common.source_blob_hashes(self.sources)
        return hashes, "sources: " + ", ".join(f"{k}@{v[:10]}" for k, v in hashes.items())

    def _write(self, kdefs, header, extra_text=""):
        gen_mod, flt_mod = self._paths()
        defs = [k.definition for k in kdefs]
        gen = X.render_gen(gen_mod, defs, header)
        if extra_text:
            gen = gen.replace(f"end {gen_mod}\n", extra_text + f"\nend {gen_mod}\n")
        common.write_if_changed(common.LEAN / (gen_mod.replace(".", "/") + ".lean"), gen)
        common.write_if_changed(common.LEAN / (flt_mod.replace(".", "/") + ".lean"),
                                X.render_float_inline(flt_mod, defs, header))

    def regenerate(self):
        common.use_repo_source()
        _, header = self._header()
        kdefs, _, info = self.build()
        self._write(kdefs, header, info.get("gen_extra", ""))
        if self.extra_regenerate is not None:
            self.extra_regenerate()

    # ---- run
    def run(self, tier: str, seed: int) -> int:  # noqa: C901, PLR0912, PLR0915
        chk = common.Check(self.prop_id, tier, seed)
        common.use_repo_source()
        rng = common.rng_for(self.prop_id, seed)
        hashes, header = self._header()
        chk.info("source_blobs", hashes)
        translated = False
        kdefs = facts = None
        info: dict = {}
        try:
            kdefs, facts, info = self.build()
            self._write(kdefs, header, info.get("gen_extra", ""))
            translated = True
            chk.info("generated_definitions", len(kdefs))
            for k, v in info.items():
                if k != "gen_extra":
                    chk.info(k, v)
        except core.Untranslatable as e:
            chk.broken_correspondence("translator", f"source no longer translatable: {e}")
        except Exception as e:  # noqa: BLE001  the library itself failed while being unfolded
            chk.broken_correspondence("translator", "".join(traceback.format_exception_only(type(e), e))[-600:])

        if translated and self.expected_facts:
            for k, v in self.expected_facts.items():
                chk.coverage["obligations"] += 1
                if facts.get(k) == v:
                    chk.coverage["discharged"] += 1
                else:
                    chk.broken_correspondence("fact", f"{k}: expected {v!r}, source gives {facts.get(k)!r}")
            chk.info("facts", facts)

        if translated:
            modules = list(self.prop_modules)
            if self.extra_modules is not None:
                modules += self.extra_modules(chk, tier, seed)
            res = common.prove(self.prop_id, modules)
            chk.record_proof(res, "cd lean && lake build " + " ".join(modules)
                             + f" && lake env lean Ampverif/Audit/{self.prop_id}.lean")
            if res["failed"]:
                chk.note("proof obligations not discharged: "
                         + "; ".join(f"{k}: {v[:160]}" for k, v in list(res["failed"].items())[:5]))

        if translated:
            try:
                self.validate(chk, kdefs, rng, self.n_points[tier])
            except common.LeanRunError as e:
                chk.broken_correspondence("float-twin", f"Lean driver failed: {e}"[:800])
            except common.InfraError:
                raise
            except Exception as e:  # noqa: BLE001
                chk.broken_correspondence("float-twin", "".join(traceback.format_exception(type(e), e, e.__traceback__))[-900:])

        if self.post is not None:
            self.post(chk, {"tier": tier, "seed": seed, "rng": rng, "kdefs": kdefs, "facts": facts})

        n = self.n_search[tier] * (3 if chk.broken else 1)
        found = []
        try:
            found = self.search(chk, common.rng_for(self.prop_id, seed, "search"), n, tier)
        except common.InfraError:
            raise
        except Exception as e:  # noqa: BLE001
            found = [{"what": "the real code raised while the property was evaluated",
                      "error": "".join(traceback.format_exception(type(e), e, e.__traceback__))[-1500:]}]
        seen = set()
        uniq = []
        for f in found:
            key = (f.get("what"), str(self.signature_of(f)))
            if key not in seen:
                seen.add(key)
                uniq.append(f)
        for f in uniq[:4]:
            chk.failing_input(self.signature_of(f), {"input": f, "broken": chk.broken})
        if chk.broken and not chk.violations:
            for b in chk.broken:
                chk.unexplained(b.get("theorem") or b.get("what"), b)
        chk.coverage["rule"] = self.rule or (
            "evaluations = translator-validation points (Lean Float twin vs numpy on the real lambdified "
            "expression) + independent-oracle cases on the real code; distinct_nontrivial counts distinct "
            "(definition, point) / (oracle configuration, point) pairs with finite, well-conditioned values")
        chk.coverage["trusted_base"] = [
            "Lean 4.33 kernel + Mathlib v4.33 (axioms: see axioms_reported)",
            "tools/translate/core.py + c09_ext.py (sympy tree -> Lean), validated on this run by the Float twin",
            "sympy doit/xreplace/lambdify + numpy used to execute the real expressions",
            *self.trusted,
        ]
        return chk.finish()

    # ---- translator validation
    def validate(self, chk, kdefs, rng, n):  # noqa: C901, PLR0912, PLR0915
        import sympy as sp

        lines, plan = [], []
        L, d = self.ld_symbols or (sp.Symbol("L", integer=True, nonnegative=True), sp.Symbol("d", positive=True))
        skipped = 0
        for k in kdefs:
            df = k.definition
            if k.full is None:
                continue
            Lv, dv = rng.randrange(0, 5), round(rng.uniform(0.5, 3.0), 3)
            leaf_names = [p for p in df.params if k.meaning.get(p) is not None
                          and not isinstance(k.meaning[p], (sp.Symbol, sp.Indexed))]
            ev = RealEvaluator([k.full, *[k.meaning[p] for p in leaf_names]],
                               subs={L: sp.Integer(Lv), d: sp.Float(dv)})
            nc = 1 + max([int(p.split("_")[-1]) for p in df.params if p.startswith(("Gamma_", "gamma_"))] or
                         [int(p[3:]) for p in df.params if p.startswith("rho") and p[3:].isdigit()] or [0])
            np_ = max([int(p.split("_")[1]) for p in df.params if p.startswith("m_") and p.split("_")[1].isdigit()] or [1])
            for j in range(n):
                if k.free:
                    vals = {p: complex(rng.uniform(-2, 2), rng.uniform(-2, 2)) for p in ev.names}
                    vals.update({p: complex(rng.uniform(-2, 2), rng.uniform(-2, 2)) for p in df.params})
                else:
                    vals = dict(physical_point(rng, nc, np_, sub_threshold=(j % 3 == 2)))
                missing = [nm for nm in ev.names if nm not in vals]
                if missing:
                    raise core.Untranslatable(f"{df.name}: the real expression depends on {missing}, which the model does not know")
                out = ev(vals)
                pert = {kk: vv * (1 + 1e-12 * rng.choice([-1, 1])) for kk, vv in vals.items()}
                out2 = ev(pert)
                ref = out[0]
                sens = abs(out2[0] - ref)
                leafv = dict(zip(leaf_names, out[1:]))
                args = []
                ok_point = math.isfinite(ref.real) and math.isfinite(ref.imag) and abs(ref) < 1e6
                for p in df.params:
                    if p in leafv:
                        val = leafv[p]
                    elif p in vals:
                        val = vals[p]
                    else:
                        val = complex(1.0)  # parameter of the family that this entry does not use
                    if not (math.isfinite(complex(val).real) and math.isfinite(complex(val).imag)):
                        ok_point = False
                    if p in df.real_params:
                        args.append(core.float_bits(complex(val).real))
                    else:
                        args += [core.float_bits(complex(val).real), core.float_bits(complex(val).imag)]
                if not ok_point:
                    skipped += 1
                    continue
                lines.append(" ".join([df.name, *map(str, args)]))
                plan.append((df.name, vals, ref, sens, (Lv, dv)))
        out = common.lean_run(f"Ampverif/GenFloat/{self.namespace}.lean", "\n".join(lines) + "\n")
        outs = out.strip().split("\n") if out.strip() else []
        if len(outs) != len(plan):
            chk.broken_correspondence("float-twin", f"driver returned {len(outs)} lines for {len(plan)} requests")
            return
        mism = 0
        for (name, vals, ref, sens, ld), o in zip(plan, outs):
            if o == "bad-op":
                chk.broken_correspondence("float-twin", f"driver rejected {name}")
                return
            a, b = [core.bits_float(int(t)) for t in o.split()]
            got = complex(a, b)
            scale = max(1.0, abs(ref))
            tol = 1e-9 * scale + 200 * sens
            chk.count((name, round(abs(ref), 12), ld))
            if not (abs(got - ref) <= tol):
                mism += 1
                if mism <= 3:
                    chk.broken_correspondence("float-twin", {
                        "definition": name, "L_d": ld, "lean": [a, b], "numpy": [ref.real, ref.imag],
                        "tolerance": tol, "point": {kk: (vv.real if isinstance(vv, complex) and vv.imag == 0 else str(vv)) for kk, vv in vals.items()}})
        chk.info("translator_validation_points", len(plan))
        chk.info("translator_validation_skipped_nonfinite", skipped)
        chk.info("translator_validation_mismatches", mism)
        if plan:
            chk.sample({"translator_validation": plan[0][0], "L_d": plan[0][4], "numpy": [plan[0][2].real, plan[0][2].imag], "lean_float_bits": outs[0]})
