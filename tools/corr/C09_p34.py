"""Three- and four-pole part of C09 (thorough tier / setup): regenerate Gen/C09P34.lean + Float twin
from `parametrization` and `formulate(n, n_R)` for n in {1,2}, n_R in {3,4} and validate them."""

from __future__ import annotations

from tools.lib import common

SOURCES = ["src/ampform/dynamics/kmatrix.py", "src/ampform/dynamics/__init__.py"]
COMBOS = [(1, 3), (1, 4), (2, 3), (2, 4)]


def build():
    from tools.corr import C09_occ
    from tools.corr.C09_defs import Builder

    # marker phase-space implementation + checked L / d, as in tools/props/C09.py build(): a formulate()
    # that does not forward an argument is untranslatable
    b = Builder(C09_occ.marker_phsp(), check_markers=True)
    b.parametrisations_kmatrix(combos=COMBOS)
    b.formulated_kmatrix(combos=COMBOS)
    return b.out, {}, {}


def prop():
    from tools.corr.C09_runner import KProperty

    return KProperty(prop_id="C09", sources=SOURCES, namespace="C09P34", build=build, search=None,
                     prop_modules=[], signature_of=None)


def regenerate():
    common.use_repo_source()
    p = prop()
    _, header = p._header()  # noqa: SLF001
    kdefs, _, _ = build()
    p._write(kdefs, header)  # noqa: SLF001
    return p, kdefs


def regenerate_and_validate(chk, seed: int, n_points: int) -> None:
    p, kdefs = regenerate()
    p.validate(chk, kdefs, common.rng_for("C09P34", seed), n_points)
