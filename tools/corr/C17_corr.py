"""C17 — correspondence harness between the real `HelicityModel.rename_symbols` and the Lean model
`lean/Ampverif/Model/C17Rename.lean`.

* `Conv` prints real SymPy objects as the S-expressions of the line protocol (closed node set;
  anything else raises `Unprintable` = correspondence failure) and rebuilds SymPy objects from
  the S-expressions the Lean driver answers with (bottom-up through the real constructors, i.e.
  exactly what `Basic.xreplace` does on a changed path);
  a symbol crosses the protocol as `name/declaration`, the declaration being its complete `assumptions0`
  dict (True- and False-valued facts) as the ternary numeral of the Lean model;
* `load_real_models` builds the corpus models (qrules reactions stored as JSON under corpus/C17),
  `synthetic_model` draws small random `HelicityModel`s, `gen_sequence` draws rename maps — all
  from the PRNG handed in;
* `run_cases` runs the real code, drives the Lean model over the same inputs and compares.
"""

from __future__ import annotations

import re
from dataclasses import dataclass, field

from tools.lib import common

MODEL_FILE = "Ampverif/Drivers/C17Rename.lean"
NAT_RE = r"[+-]?([0-9]+(?:[.][0-9]*)?|[.][0-9]+)"  # the regex of naming.natural_sorting

# closed node set (surveyed on the corpus models + the synthetic generator); all of these are
# rebuilt by `cls(*args)` and have free_symbols = union of their arguments' (except PoolSum and
# Indexed, which only occur in `intensity` / amplitude keys, never in what is collected)
ALLOWED_CLASSES = {
    "ampform.dynamics.EnergyDependentWidth",
    "ampform.dynamics.form_factor.FormFactor",
    "ampform.dynamics.form_factor.BlattWeisskopfSquared",
    "ampform.dynamics.phasespace.BreakupMomentumSquared",
    "ampform.dynamics.phasespace.PhaseSpaceFactor",
    "ampform.kinematics.angles.Phi",
    "ampform.kinematics.angles.Theta",
    "ampform.kinematics.lorentz.ArraySize",
    "ampform.kinematics.lorentz.BoostMatrix",
    "ampform.kinematics.lorentz.NegativeMomentum",
    "ampform.kinematics.phasespace.Kallen",
    "ampform.sympy._array_expressions.ArraySlice",
    "ampform.sympy._array_expressions.MatrixMultiplication",
    "sympy.codegen.ast.NoneToken",
    "sympy.functions.elementary.trigonometric.acos",
    "ampform.kinematics.lorentz.BoostZMatrix",
    "ampform.kinematics.lorentz.Energy",
    "ampform.kinematics.lorentz.EuclideanNorm",
    "ampform.kinematics.lorentz.InvariantMass",
    "ampform.kinematics.lorentz.RotationYMatrix",
    "ampform.kinematics.lorentz.RotationZMatrix",
    "ampform.kinematics.lorentz.ThreeMomentum",
    "ampform.sympy.PoolSum",
    "ampform.sympy._array_expressions.ArrayMultiplication",
    "ampform.sympy._array_expressions.ArraySum",
    "sympy.core.add.Add",
    "sympy.core.containers.Tuple",
    "sympy.core.mul.Mul",
    "sympy.core.power.Pow",
    "sympy.functions.elementary.complexes.Abs",
    "sympy.functions.elementary.complexes.conjugate",
    "sympy.functions.elementary.complexes.re",
    "sympy.functions.elementary.complexes.im",
    "sympy.functions.elementary.complexes.arg",
    "sympy.functions.elementary.complexes.sign",
    "sympy.functions.elementary.trigonometric.atan2",
    "sympy.functions.elementary.exponential.log",
    "sympy.functions.elementary.trigonometric.cos",
    "sympy.functions.elementary.trigonometric.sin",
    "sympy.functions.elementary.exponential.exp",
    "sympy.physics.quantum.cg.CG",
    "sympy.physics.quantum.spin.WignerD",
    "sympy.tensor.array.expressions.array_expressions.ArraySymbol",
    "sympy.tensor.indexed.Indexed",
    "sympy.tensor.indexed.IndexedBase",
}


class Unprintable(Exception):
    """The real object is outside the node set / name set the model covers."""


class Skip(Exception):
    """The case is outside the stated domain of the correspondence (counted, not compared)."""


# --------------------------------------------------------------------------- names


def enc_name(name: str) -> str:
    if not name:
        return "-"
    if not name.isascii():
        raise Unprintable(f"non-ASCII name {name!r}")
    return ".".join(str(ord(c)) for c in name)


def dec_name(tok: str) -> str:
    return "" if tok == "-" else "".join(chr(int(t)) for t in tok.split("."))


def name_in_sort_domain(name: str) -> bool:
    """natural_sorting(name) is modelled exactly: ASCII, numbers of <= 15 digits, no text chunk
    that float() accepts (inf, nan, …)."""
    if not name.isascii():
        return False
    chunks = re.split(NAT_RE, name)
    for i, c in enumerate(chunks):
        if i % 2 == 1:
            if len(c.replace(".", "")) > 15:
                return False
        else:
            try:
                float(c)
            except ValueError:
                continue
            return False
    return True


def py_key_canonical(name: str) -> str:
    """The real natural_sorting key printed like the Lean driver prints `naturalKey`."""
    from fractions import Fraction

    from ampform.helicity.naming import natural_sorting

    out = []
    for c in natural_sorting(name):
        if isinstance(c, str):
            out.append("t:" + enc_name(c))
        else:
            out.append("n:" + str(Fraction(c)))  # exact value of the float
    return " ".join(out)


def lean_key_canonical(reply: str) -> str:
    from fractions import Fraction

    assert reply.startswith("key")
    out = []
    for t in reply.split()[1:]:
        if t.startswith("t:"):
            out.append(t)
        else:
            n, k = t[2:].split("e-")
            out.append("n:" + str(Fraction(float(Fraction(int(n), 10 ** int(k))))))
    return " ".join(out)


# --------------------------------------------------------------------------- assumption declarations

FACT_WIDTH = 31  # `factWidth` of Model/C17Rename.lean


def fact_universe() -> list[str]:
    """SymPy's fact names in alphabetical order: digit i of a declaration belongs to the i-th of them."""
    from sympy.core.assumptions import _assume_defined

    facts = sorted(_assume_defined)
    if len(facts) != FACT_WIDTH:
        raise common.InfraError(f"SymPy defines {len(facts)} assumption facts, the Lean model is written for {FACT_WIDTH}")
    return facts


def enc_decl(assumptions0: dict) -> int:
    """The complete `assumptions0` dict as the ternary numeral of the Lean model (`Sym.asm`): digit 0 = fact is
    False, 1 = fact is True, 2 = fact not in the dict; most significant digit = alphabetically first fact."""
    facts = fact_universe()
    idx = {f: i for i, f in enumerate(facts)}
    n = 3**FACT_WIDTH - 1
    for f, v in assumptions0.items():
        if f not in idx or not isinstance(v, bool):
            raise Unprintable(f"assumption outside SymPy's fact set: {f}={v!r}")
        n -= (1 if v else 2) * 3 ** (FACT_WIDTH - 1 - idx[f])
    return n


def dec_decl(n: int) -> dict:
    facts = fact_universe()
    if not 0 <= n < 3**FACT_WIDTH:
        raise ValueError(f"not a declaration: {n}")
    out = {}
    for i, f in enumerate(facts):
        d = (n // 3 ** (FACT_WIDTH - 1 - i)) % 3
        if d != 2:
            out[f] = d == 1
    return out


def truthy_only(assumptions0: dict) -> dict:
    return {k: v for k, v in assumptions0.items() if v}


def loses_facts_if_rebuilt_from_true_facts(s) -> bool:
    """Is `s` declared through a fact that its True facts do not imply (zero=False, real=False, commutative=False …)?"""
    import sympy as sp

    return sp.Symbol(s.name, **truthy_only(s.assumptions0)) != s


# --------------------------------------------------------------------------- conversion


class Conv:
    """Tables shared by all models of one run (class ids, constant ids, assumption declarations, values)."""

    def __init__(self):
        self.cls_ids: dict[str, int] = {}
        self.cls_funcs: list = []
        self.const_ids: dict[str, int] = {}
        self.consts: list = []
        self.decl_codes: dict[tuple, int] = {}  # sorted(assumptions0.items()) -> ternary numeral
        self.decls: dict[int, dict] = {}  # ternary numeral -> assumptions0
        self.val_ids: dict[tuple, int] = {}
        self.vals: list = []
        self._memo: dict = {}
        self._rmemo: dict = {}
        self.preregistered = False

    # ---- printing
    def sym(self, s) -> str:
        import sympy as sp

        if type(s) is not sp.Symbol:
            raise Unprintable(f"symbol of type {type(s).__name__}: {s!r}")
        key = tuple(sorted(s.assumptions0.items()))
        code = self.decl_codes.get(key)
        if code is None:
            a0 = dict(key)
            # `Symbol(name, **assumptions0)` is the symbol again, with the same assumptions0: the declaration is a
            # fixed point of SymPy's fact closure (what the model's `⟨new name, source declaration⟩` stands for)
            again = sp.Symbol(s.name, **a0)
            if again != s or again.assumptions0 != a0:
                raise Unprintable(f"assumptions0 is not a fixed point of Symbol(**assumptions0): {a0}")
            code = enc_decl(a0)
            if dec_decl(code) != a0:
                raise Unprintable(f"declaration does not survive the ternary encoding: {a0}")
            self.decl_codes[key] = code
            self.decls[code] = a0
        return f"{enc_name(s.name)}/{code}"

    def preregister(self, symbols) -> None:
        """Register the declarations of the symbols of a run (anything that is not a plain Symbol is left to
        `model_lines`, which refuses it)."""
        import sympy as sp

        for s in symbols:
            if type(s) is sp.Symbol:
                self.sym(s)
        self.preregistered = True

    def order_disagreements_now(self) -> list:
        """Re-check on ALL pairs of declarations seen so far that the numeric order of the ternary numerals is the order
        of `str(sorted(s.assumptions0.items()))` — the second component of the sort key of rename_symbols (c9b6eb9),
        which the Lean model compares as numbers."""
        keyed = [(code, str(sorted(a0.items()))) for code, a0 in self.decls.items()]
        bad = []
        for ca, sa in keyed:
            for cb, sb in keyed:
                if (ca < cb) != (sa < sb) or (ca == cb) != (sa == sb):
                    bad.append((sa, sb))
        return bad

    def decl_of(self, code: int) -> dict:
        hit = self.decls.get(code)
        return hit if hit is not None else dec_decl(code)

    def expr(self, e) -> str:
        import sympy as sp

        try:
            hit = self._memo.get(e)
        except TypeError:
            hit = None
        if hit is not None:
            return hit
        if isinstance(e, sp.Symbol):
            out = f"(s {self.sym(e)})"
        elif not e.args and isinstance(e, sp.Atom):
            if not (e.is_Number or e.is_NumberSymbol or e is sp.I):
                raise Unprintable(f"atom of type {type(e).__name__}: {e!r}")
            key = sp.srepr(e)
            if key not in self.const_ids:
                self.const_ids[key] = len(self.consts)
                self.consts.append(e)
            out = f"(c {self.const_ids[key]})"
        else:
            q = type(e).__module__ + "." + type(e).__qualname__
            if q not in ALLOWED_CLASSES:
                raise Unprintable(f"node class outside the modelled set: {q}")
            if q not in self.cls_ids:
                self.cls_ids[q] = len(self.cls_funcs)
                self.cls_funcs.append(e.func)
            out = "(a " + " ".join([str(self.cls_ids[q]), *[self.expr(a) for a in e.args]]) + ")"
        self._memo[e] = out
        return out

    def value(self, v) -> int:
        key = (type(v).__name__, repr(v))
        if key not in self.val_ids:
            self.val_ids[key] = len(self.vals)
            self.vals.append(v)
        return self.val_ids[key]

    # ---- parsing / rebuilding
    def symbol_of(self, tok: str):
        import sympy as sp

        n, a = tok.rsplit("/", 1)
        return sp.Symbol(dec_name(n), **self.decl_of(int(a)))

    def rebuild(self, text: str):
        """SymPy object for an S-expression: every node through its real constructor."""
        hit = self._rmemo.get(text)
        if hit is not None:
            return hit
        toks = re.findall(r"\(|\)|[^\s()]+", text)
        pos = 0
        stack: list[list] = []
        result = None
        while pos < len(toks):
            t = toks[pos]
            if t == "(":
                head = toks[pos + 1]
                if head == "s":
                    val = self.symbol_of(toks[pos + 2])
                    pos += 4
                elif head == "c":
                    val = self.consts[int(toks[pos + 2])]
                    pos += 4
                elif head == "a":
                    stack.append([int(toks[pos + 2])])
                    pos += 3
                    continue
                else:
                    raise ValueError(f"bad S-expression head {head!r}")
            elif t == ")":
                frame = stack.pop()
                val = self.cls_funcs[frame[0]](*frame[1:])
                pos += 1
            else:
                raise ValueError(f"stray token {t!r}")
            if stack:
                stack[-1].append(val)
            else:
                result = val
        if stack or result is None:
            raise ValueError("unbalanced S-expression")
        self._rmemo[text] = result
        return result


@dataclass
class ModelText:
    lines: list[str]
    amp_keys: dict[str, object]  # str(key) -> key


def model_lines(conv: Conv, m, check_roundtrip: bool = True) -> ModelText:
    """The protocol lines that define `m` in the Lean driver (after `reset`)."""
    import sympy as sp

    expression = m.expression
    lines = ["reset", "expr " + conv.expr(expression), "intensity " + conv.expr(m.intensity)]
    amp_keys = {}
    for k, v in m.amplitudes.items():
        ks = str(k)
        if ks in amp_keys:
            raise Unprintable(f"two amplitude keys print as {ks!r}")
        amp_keys[ks] = k
        lines.append(f"amp {enc_name(ks)} {conv.expr(k)} {conv.expr(v)}")
    for k, v in m.parameter_defaults.items():
        lines.append(f"param {conv.sym(k)} {conv.value(v)}")
    for k, v in m.kinematic_variables.items():
        lines.append(f"kin {conv.sym(k)} {conv.expr(v)}")
    for k, v in m.components.items():
        lines.append(f"comp {enc_name(k)} {conv.expr(v)}")
    if check_roundtrip:
        # (1) the printed tree denotes the object: rebuilding through the constructors gives it back
        # (2) what the model collects from a tree (all symbol leaves) is `free_symbols`
        for e in [expression, m.intensity, *m.amplitudes.values(), *m.kinematic_variables.values(), *m.components.values()]:
            if conv.rebuild(conv.expr(e)) != e:
                raise Unprintable(f"constructor round trip changes {str(e)[:80]}")
        for e in [expression, *m.kinematic_variables.values()]:
            leaves = {s for s in e.atoms(sp.Symbol)}
            if leaves != e.free_symbols:
                raise Unprintable(f"free_symbols is not the set of symbol leaves in {str(e)[:80]}")
    for nm in [s.name for s in m.kinematic_variables] + list(m.components) + list(amp_keys):
        if not name_in_sort_domain(nm):
            raise Skip(f"name outside the modelled natural_sorting domain: {nm!r}")
    return ModelText(lines, amp_keys)


def bound_symbols(m) -> set:
    import sympy as sp
    from ampform.sympy import PoolSum

    out = set()
    for e in [m.intensity, *m.amplitudes.values(), *m.components.values(), *m.kinematic_variables.values()]:
        for n in sp.preorder_traversal(e):
            if isinstance(n, PoolSum):
                out |= {s for s, _ in n.indices}
    return out


@dataclass
class LeanReply:
    collect: list[str] = field(default_factory=list)
    mapping: list[tuple[str, str]] = field(default_factory=list)
    closed: tuple[bool, bool] = (True, True)
    expr: str = ""
    intensity: str = ""
    amps: list[tuple[str, str, str]] = field(default_factory=list)
    params: list[tuple[str, int]] = field(default_factory=list)
    kin: list[tuple[str, str]] = field(default_factory=list)
    comps: list[tuple[str, str]] = field(default_factory=list)


def split_sexprs(text: str) -> list[str]:
    out, depth, start = [], 0, None
    for i, ch in enumerate(text):
        if ch == "(":
            if depth == 0:
                start = i
            depth += 1
        elif ch == ")":
            depth -= 1
            if depth == 0:
                out.append(text[start : i + 1])
    return out


def parse_reply(lines: list[str]) -> LeanReply:
    r = LeanReply()
    for ln in lines:
        head, _, rest = ln.partition(" ")
        if head == "collect":
            r.collect = rest.split()
        elif head == "map":
            r.mapping = [tuple(t.split(">")) for t in rest.split()]
        elif head == "closed":
            a, b = rest.split()
            r.closed = (a == "1", b == "1")
        elif head == "expr":
            r.expr = rest
        elif head == "intensity":
            r.intensity = rest
        elif head == "amp":
            ks, _, tail = rest.partition(" ")
            k, d = split_sexprs(tail)
            r.amps.append((dec_name(ks), k, d))
        elif head == "param":
            s, v = rest.split()
            r.params.append((s, int(v)))
        elif head == "kin":
            s, _, e = rest.partition(" ")
            r.kin.append((s, e))
        elif head == "comp":
            n, _, e = rest.partition(" ")
            r.comps.append((dec_name(n), e))
        elif head == "error":
            raise common.LeanRunError("driver: " + rest)
        else:
            raise common.LeanRunError(f"unexpected reply line {ln[:80]!r}")
    return r


def compare(conv: Conv, real, reply: LeanReply, with_expression: bool = True, expression_inclusion: bool = True) -> list[str]:
    """Attribute by attribute (key order included); returns the list of differences. `with_expression`: the free
    symbols of the derived `expression` must be exactly the model's; `expression_inclusion`: at least contained in them
    (not claimed when a symbol changes its declaration: SymPy may then undo a simplification of the original, e.g.
    bring back a term that vanished because a factor was declared zero)."""
    diffs = []

    def same(a, b):
        return a == b

    try:
        if not same(conv.rebuild(reply.intensity), real.intensity):
            diffs.append("intensity")
        # the derived `expression` enters the model only through its free symbols (its tree is re-derived and
        # re-evaluated by SymPy, e.g. Abs(conjugate(x)) left by a substitution collapses when rebuilt, so
        # structural equality of that tree is not a property of rename_symbols)
        import sympy as sp

        lean_free = {conv.symbol_of(t) for t in re.findall(r"\(s ([^\s()]+)\)", reply.expr)}
        real_free = {x for x in real.expression.free_symbols if isinstance(x, sp.Symbol)}
        if (with_expression and lean_free != real_free) or (expression_inclusion and not real_free <= lean_free):
            diffs.append(f"expression free symbols: only real {sorted(map(str, real_free - lean_free))[:4]} "
                         f"only model {sorted(map(str, lean_free - real_free))[:4]}")
        ra = list(real.amplitudes.items())
        if [str(k) for k, _ in ra] != [ks for ks, _, _ in reply.amps]:
            diffs.append("amplitudes: key order")
        else:
            for (k, v), (_, lk, ld) in zip(ra, reply.amps):
                if not same(conv.rebuild(lk), k) or not same(conv.rebuild(ld), v):
                    diffs.append(f"amplitudes[{k}]")
                    break
        rp = [(k, (type(v).__name__, repr(v))) for k, v in real.parameter_defaults.items()]
        lp = [(conv.symbol_of(s), (type(conv.vals[i]).__name__, repr(conv.vals[i]))) for s, i in reply.params]
        if rp != lp:
            diffs.append(f"parameter_defaults: real {[(str(k), v[1]) for k, v in rp]} model {[(str(k), v[1]) for k, v in lp]}")
        rk = list(real.kinematic_variables.items())
        lk_ = [(conv.symbol_of(s), e) for s, e in reply.kin]
        if [k for k, _ in rk] != [k for k, _ in lk_]:
            diffs.append(f"kinematic_variables: keys real {[str(k) for k, _ in rk]} model {[str(k) for k, _ in lk_]}")
        else:
            for (k, v), (_, le) in zip(rk, lk_):
                if not same(conv.rebuild(le), v):
                    diffs.append(f"kinematic_variables[{k}]")
                    break
        rc = list(real.components.items())
        if [k for k, _ in rc] != [k for k, _ in reply.comps]:
            diffs.append("components: key order")
        else:
            for (k, v), (_, le) in zip(rc, reply.comps):
                if not same(conv.rebuild(le), v):
                    diffs.append(f"components[{k}]")
                    break
    except Exception as e:  # noqa: BLE001  a constructor refused the model's tree
        diffs.append(f"rebuild failed: {type(e).__name__}: {e}"[:300])
    return diffs


# --------------------------------------------------------------------------- real models


CORPUS = common.ROOT / "corpus" / "C17"


def _configs():
    from ampform.dynamics.builder import (
        RelativisticBreitWignerBuilder,
        create_relativistic_breit_wigner,
        create_relativistic_breit_wigner_with_ff,
    )

    plain_bw = RelativisticBreitWignerBuilder(energy_dependent_width=False, form_factor=False)
    return [
        ("jpsi_gpp_hel/default", "jpsi_gpp_hel", {}),
        ("jpsi_gpp_hel/stable012", "jpsi_gpp_hel", {"stable": [0, 1, 2]}),
        ("jpsi_gpp_can/bw_ff+stable12", "jpsi_gpp_can", {"dyn": create_relativistic_breit_wigner_with_ff, "stable": [1, 2]}),
        ("jpsi_3pi_hel/bw", "jpsi_3pi_hel", {"dyn": create_relativistic_breit_wigner}),
        ("lc_pkpi_hel/scalar+stable+bw", "lc_pkpi_hel", {"scalar": True, "stable": [0, 1, 2], "dyn": plain_bw}),
        ("d0_kkk_can/bw_ff", "d0_kkk_can", {"dyn": create_relativistic_breit_wigner_with_ff}),
        ("lc_pkpi_hel/couplings", "lc_pkpi_hel", {"couplings": True}),
        # aligned models: the intensity itself contains Wigner functions of kinematic variables; with the
        # Dalitz-plot decomposition + stable ids + scalar initial mass the kinematic-variable DEFINITIONS
        # (zeta angles) contain the mass parameters
        ("lc_pkpi_hel/dpd+stable123+scalar", "lc_pkpi_hel", {"align": "dpd", "stable": [1, 2, 3], "scalar": True}),
        ("lc_pkpi_hel/axisangle", "lc_pkpi_hel", {"align": "axisangle"}),
        ("jpsi_3pi_hel/dpd+stable123+scalar+bw+couplings", "jpsi_3pi_hel",
         {"align": "dpd", "stable": [1, 2, 3], "scalar": True, "dyn": plain_bw, "couplings": True}),
        ("jpsi_3pi_hel/axisangle", "jpsi_3pi_hel", {"align": "axisangle"}),
        # symbols with EVERY kind of assumption declaration (round 5, seed C17_5): custom dynamics whose couplings are
        # declared through each single fact of SymPy, True and False (zero=False, real=False, integer=False,
        # positive=False, … — False-valued facts that no True fact of the symbol implies) and through mixed True/False
        # sets (a coupling with commutative=False cannot be formulated: SymPy's Abs recurses without end on the
        # amplitude; non-commutative symbols are in the evolved model below and in the synthetic models) …
        ("jpsi_gpp_hel/custom-dynamics:every-declaration", "jpsi_gpp_hel", {"dyn": "declared-couplings", "decls": "all"}),
        ("d0_kkk_can/custom-dynamics:false-facts+mixed", "d0_kkk_can", {"dyn": "declared-couplings", "decls": "false+mixed"}),
        # … and a library model changed with attrs.evolve: library symbols re-declared (mass with positive=False, width
        # with zero=False, a kinematic variable with negative=False …), extra parameter_defaults keys and extra
        # kinematic variables with such declarations
        ("jpsi_gpp_can/bw_ff+evolved-declarations", "jpsi_gpp_can",
         {"dyn": create_relativistic_breit_wigner_with_ff, "stable": [1, 2], "evolve": True}),
    ]


DECL_MODEL_LABELS = ("jpsi_gpp_hel/custom-dynamics:every-declaration", "d0_kkk_can/custom-dynamics:false-facts+mixed",
                     "jpsi_gpp_can/bw_ff+evolved-declarations")


def declaration_corpus() -> list[dict]:
    """Keyword arguments for `Symbol(name, **kw)`: every single fact of SymPy with value True and with value False, and
    mixed True/False sets (consistent ones only; several give the same `assumptions0`)."""
    import sympy as sp

    out = []
    for f in fact_universe():
        for v in (False, True):
            out.append({f: v})
    out += [
        {"real": True, "positive": False}, {"complex": True, "zero": False}, {"real": True, "integer": False},
        {"positive": True, "integer": False}, {"finite": True, "real": False}, {"real": True, "zero": False},
        {"integer": True, "positive": False, "zero": False}, {"rational": False, "real": True},
        {"nonnegative": True, "zero": False}, {"imaginary": False, "real": False}, {"extended_real": True, "finite": False},
        {"nonzero": False, "real": True}, {"complex": True, "real": False, "imaginary": False},
        {"algebraic": False, "positive": True}, {"even": False, "integer": True}, {"hermitian": False, "finite": True},
        {"commutative": False, "zero": False}, {"commutative": False, "finite": True}, {"commutative": False, "complex": False},
    ]
    ok = []
    for kw in out:
        try:
            sp.Symbol("x", **kw)
        except Exception:  # noqa: BLE001  inconsistent combination
            continue
        ok.append(kw)
    return ok


def decl_tag(kw: dict) -> str:
    return ",".join(f"{k}={'T' if v else 'F'}" for k, v in sorted(kw.items()))


def value_contradicts(sym, value) -> bool:
    """Does a numeric parameter value contradict a fact of the symbol's declaration?"""
    import sympy as sp

    if isinstance(value, complex) and (sym.is_real or sym.is_extended_real):
        return True
    try:
        z = sp.sympify(value)
    except Exception:  # noqa: BLE001
        return True
    for f, want in sym.assumptions0.items():
        if f == "commutative":
            continue
        got = getattr(z, "is_" + f, None)
        if got is not None and got != want:
            return True
    return False


VALUE_CANDIDATES = [1.0 + 0.5j, 0.75, -1.25, 2, -3, 0, 1.5j, 7, 4, 2.5 - 1j]


def value_satisfying(sym):
    for v in VALUE_CANDIDATES:
        if not value_contradicts(sym, v):
            return v
    return 1.0  # (infinite=True …: no finite value; such symbols are outside the numeric clause of merging maps)


class DeclaredCouplings:
    """Custom dynamics (assigned with `builder.dynamics.assign`): a relativistic Breit-Wigner times a sum of couplings, each
    declared through another entry of `declaration_corpus()`; the builder object walks through the corpus so that
    the resonances of a model share it out."""

    def __init__(self, which: str):
        corpus = [kw for kw in declaration_corpus() if kw.get("commutative") is not False]
        if which == "false+mixed":  # mixed sets and every False-valued single fact (in the canonical formalism)
            corpus = [kw for kw in corpus if len(kw) > 1 or not next(iter(kw.values()))]
        self.corpus = corpus
        self.shares: dict[str, int] = {}  # resonance name -> which share of the corpus (the builder calls once per decay node)
        self.n_resonances = None

    def __call__(self, resonance, variable_pool):
        import sympy as sp

        from ampform.dynamics import relativistic_breit_wigner

        identifier = resonance.latex or resonance.name
        mass = sp.Symbol(f"m_{{{identifier}}}", nonnegative=True)
        width = sp.Symbol(Rf"\Gamma_{{{identifier}}}", nonnegative=True)
        n = self.n_resonances or 1
        share = self.corpus[self.shares.setdefault(resonance.name, len(self.shares)) % n :: n]
        couplings = [sp.Symbol(f"g^{{{decl_tag(kw)}}}_{{{identifier}}}", **kw) for kw in share]
        s = variable_pool.incoming_state_mass**2
        expr = sp.Add(*couplings) * relativistic_breit_wigner(s, mass, width)
        pars = {mass: resonance.mass, width: resonance.width}
        pars.update({g: value_satisfying(g) for g in couplings})
        return expr, pars


def evolve_declarations(model):
    """What a user does with `attrs.evolve`: re-declare library symbols (same names, other assumption declarations) in all
    attributes, add parameter_defaults keys and kinematic variables that carry such declarations."""
    import attrs
    import sympy as sp

    from ampform.kinematics.lorentz import InvariantMass, create_four_momentum_symbol

    pars = [s for s in model.parameter_defaults if isinstance(s, sp.Symbol)]
    kins = list(model.kinematic_variables)
    redecl = [{"positive": False}, {"zero": False}, {"real": True, "integer": False}, {"negative": False},
              {"rational": False, "real": True}, {"nonnegative": True, "zero": False}, {"imaginary": False}, {"integer": False}]
    mp = {}
    for i, s in enumerate(pars[: len(redecl)]):
        mp[s] = sp.Symbol(s.name, **redecl[i])
    for i, s in enumerate(kins[:3]):
        mp[s] = sp.Symbol(s.name, **[{"negative": False}, {"real": True, "zero": False}, {"extended_real": True, "infinite": False}][i])
    extra_pars = {sp.Symbol("c_{extra}^{zero=F}", zero=False): 1.0 + 0.5j, sp.Symbol("c_{extra}^{real=F}", real=False): 2j,
                  sp.Symbol("c_{extra}^{commutative=F}", commutative=False): 1.0,
                  sp.Symbol("c_{extra}^{commutative=F,zero=F}", commutative=False, zero=False): -2.5,
                  sp.Symbol("c_{extra}^{odd=T}", odd=True): 3}
    extra_kins = {sp.Symbol("u_0^{integer=F}", integer=False): InvariantMass(create_four_momentum_symbol(0)),
                  sp.Symbol("u_1^{positive=F,real=T}", real=True, positive=False): InvariantMass(create_four_momentum_symbol(1))}
    return attrs.evolve(
        model,
        intensity=model.intensity.xreplace(mp),
        amplitudes={k: v.xreplace(mp) for k, v in model.amplitudes.items()},
        parameter_defaults={**{mp.get(k, k): v for k, v in model.parameter_defaults.items()}, **extra_pars},
        kinematic_variables={**{mp.get(k, k): v.xreplace(mp) for k, v in model.kinematic_variables.items()}, **extra_kins},
        components={k: v.xreplace(mp) for k, v in model.components.items()},
    )


def load_reaction(name: str):
    import qrules

    return qrules.io.load(str(CORPUS / f"{name}.json"))


def load_real_models(only=None) -> list[tuple[str, object]]:
    import ampform

    out = []
    for label, rname, kw in _configs():
        if only is not None and label not in only:
            continue
        r = load_reaction(rname)
        if kw.get("align") == "dpd":
            from ampform.helicity.align.dpd import DalitzPlotDecomposition, relabel_edge_ids

            r = relabel_edge_ids(r)
        b = ampform.get_builder(r)
        if kw.get("align") == "dpd":
            b.config.spin_alignment = DalitzPlotDecomposition(1)
        elif kw.get("align") == "axisangle":
            from ampform.helicity.align.axisangle import AxisAngleAlignment

            b.config.spin_alignment = AxisAngleAlignment()
        if kw.get("stable") is not None:
            b.config.stable_final_state_ids = kw["stable"]
        if kw.get("scalar"):
            b.config.scalar_initial_state_mass = True
        if kw.get("couplings"):
            b.config.use_helicity_couplings = True
        if kw.get("dyn"):
            dyn = kw["dyn"]
            names = r.get_intermediate_particles().names
            if dyn == "declared-couplings":
                dyn = DeclaredCouplings(kw["decls"])
                dyn.n_resonances = len(names)
            for p in names:
                b.dynamics.assign(p, dyn)
        model = b.formulate()
        if kw.get("evolve"):
            model = evolve_declarations(model)
        out.append((label, model))
    return out


# --------------------------------------------------------------------------- synthetic models

ASSUMPTIONS = [{}, {"real": True}, {"positive": True}, {"nonnegative": True}, {"complex": True}]  # what the library declares
_LIBRARY_DECLS: set = set()


def is_library_declaration(s) -> bool:
    import sympy as sp

    if not _LIBRARY_DECLS:
        for kw in [*ASSUMPTIONS, {"rational": True}]:
            _LIBRARY_DECLS.add(tuple(sorted(sp.Symbol("x", **kw).assumptions0.items())))
    return tuple(sorted(s.assumptions0.items())) in _LIBRARY_DECLS


def draw_declaration(rng, p_other: float = 0.4) -> dict:
    """Keyword arguments of a synthetic symbol: a library-style declaration, or (with probability `p_other`) any entry of
    `declaration_corpus()` — single True/False facts, mixed sets, commutative=False."""
    if rng.random() < p_other:
        return dict(rng.choice(declaration_corpus()))
    return dict(rng.choice(ASSUMPTIONS))

PARAM_NAMES = ["a", "b", "c1", "c2", "c10", "C_{x}", "C_{y;z}", "m_{f_0}", "Gamma_{f_0}", "d_{f_0}",
               "g+1", "g-1", "w1.5", "w1.25", "m_0", "m_1", "B12", "b12", "k_{+1/2}", "k_{-1/2}",
               # names as the builders make them: backslashes, nested braces, commas, parentheses, arrows, blanks
               "\\Gamma_{f_{0}(980)}", "m_{K^{*}(892)^{0}}", "C_{a, b}", "H_{D^{0} \\to K^{0} \\phi(1020), 0, -1/2}",
               "C_{J/\\psi(1S) \\xrightarrow[S=1]{L=0} f_{0}(980) \\gamma; f_{0}(980) \\to \\pi^{0} \\pi^{0}}", "g [1]", "x'"]
KIN_NAMES = ["m_12", "m_012", "theta_0", "phi_0", "theta_1^12", "phi_1^12", "s", "t2", "t10", "m_02",
             "\\zeta^0_{1(2)}", "\\zeta^0_{2(1)}", "alpha_0^01", "beta_0^01"]
FRESH_NAMES = ["k", "q7", "z_{new}", "x10", "x9", "x09", "w+2", "M1.50", "M1.5", "alpha_3^12", "Z", "z", "r_{0}", "r_{00}",
               "u.5", "u0.5", "n-1", "n+1", "beta", "G_{f_2}", "y2", "y10", "y1e3",
               "\\beta_{1,2}", "a b", "c(1)", "\\zeta^3_{2(1)}", "m_{\\rho(770)^{+}}", "q:r", "u/v>w", "(", "{}"]
VALUES = [1, 0, 0.5, 2.5, 1 + 0j, complex(0.3, -0.2), 0.1349768, -1.25, -0.0, 1e-300, 10**20, 1j, complex(-2, 0.0), -3, 7.0]


class _wall_cap:  # noqa: N801
    """Wall-clock cap (main thread only; a no-op elsewhere)."""

    def __init__(self, seconds: int):
        self.seconds, self.armed = seconds, False

    def _fire(self, *_):
        raise TimeoutError("time cap")

    def __enter__(self):
        import signal
        import threading

        if threading.current_thread() is threading.main_thread():
            self.old = signal.signal(signal.SIGALRM, self._fire)
            signal.alarm(self.seconds)
            self.armed = True
        return self

    def __exit__(self, *exc):
        import signal

        if self.armed:
            signal.alarm(0)
            signal.signal(signal.SIGALRM, self.old)
        return False


SYNTH_REFUSED = [0]  # models SymPy's constructors refused (RecursionError of Abs on non-commutative arguments, …) or that took too long


def synthetic_model(rng, reaction, idx: int = 0):
    """A small random HelicityModel; draws again (same PRNG stream, so still determined by the seed) when SymPy's own
    constructors refuse the drawn trees (e.g. Abs of some non-commutative products recurses without end) or exceed 20 s."""
    last = None
    for _ in range(40):
        try:
            with _wall_cap(20):
                return _synthetic_model(rng, reaction, idx)
        except (RecursionError, TimeoutError, TypeError, ValueError, AttributeError, NotImplementedError, ZeroDivisionError) as e:
            SYNTH_REFUSED[0] += 1
            last = e
    raise common.InfraError(f"no synthetic model could be built: {type(last).__name__}: {last}")


def _synthetic_model(rng, reaction, idx: int = 0):
    """A small random HelicityModel (real class, real converters) around a stored reaction."""
    import sympy as sp

    from ampform.helicity import HelicityModel
    from ampform.kinematics.angles import Phi, Theta
    from ampform.kinematics.lorentz import Energy, InvariantMass, create_four_momentum_symbol
    from ampform.sympy import PoolSum
    from ampform.sympy._array_expressions import ArraySum

    n_par = rng.randint(2, 6)
    n_kin = rng.randint(1, 4)
    n_mom = rng.randint(1, 3)
    pnames = rng.sample(PARAM_NAMES, n_par)
    params = [sp.Symbol(n, **draw_declaration(rng)) for n in pnames]
    if rng.random() < 0.15:  # a second symbol of an existing name with other assumptions
        s = rng.choice(params)
        other = [a for a in [*ASSUMPTIONS, {"zero": False}, {"real": False}, {"positive": False}, {"real": True, "integer": False}]
                 if sp.Symbol(s.name, **a) != s]
        params.append(sp.Symbol(s.name, **rng.choice(other)))
    kin_decls = [{"real": True}, {"nonnegative": True}, {"real": True}, {"nonnegative": True}, {"negative": False},
                 {"real": True, "zero": False}, {"integer": False}, {"extended_real": True, "infinite": False}, {"imaginary": False}]
    kins = [sp.Symbol(n, **rng.choice(kin_decls)) for n in rng.sample(KIN_NAMES, n_kin)]
    moms = [create_four_momentum_symbol(i) for i in range(n_mom)]

    def mom_expr():
        chosen = rng.sample(moms, rng.randint(1, len(moms)))
        return chosen[0] if len(chosen) == 1 else ArraySum(*chosen)

    kin_defs = {k: rng.choice([InvariantMass, Phi, Theta, Energy])(mom_expr()) for k in kins}
    for k in kins:  # definitions that contain parameters (as the zeta angles of an aligned model with stable masses)
        if rng.random() < 0.3:
            kin_defs[k] = sp.acos(rng.choice(params) * kin_defs[k] / (rng.choice(params) ** 2 + 1)) if rng.random() < 0.5 \
                else kin_defs[k] * rng.choice(params) + rng.choice(params)
    if rng.random() < 0.3:  # a kinematic variable defined but not used
        kin_defs[sp.Symbol("unused_kin", real=True)] = InvariantMass(mom_expr())
    leaves = params + kins

    def tree(depth):
        if depth == 0 or rng.random() < 0.25:
            return rng.choice(leaves) if rng.random() < 0.85 else sp.Rational(rng.randint(-3, 3), rng.randint(1, 3))
        op = rng.choice(["add", "mul", "mul", "pow", "abs", "cos", "conj", "exp"])
        if op == "add":
            return sp.Add(*[tree(depth - 1) for _ in range(rng.randint(2, 3))])
        if op == "mul":
            return sp.Mul(*[tree(depth - 1) for _ in range(rng.randint(2, 3))])
        if op == "pow":
            return sp.Pow(tree(depth - 1), rng.choice([2, -1, sp.Rational(1, 2)]))
        if op == "abs":
            return sp.Abs(tree(depth - 1))
        if op == "cos":
            return sp.cos(tree(depth - 1))
        if op == "exp":
            return sp.exp(tree(depth - 1))
        return sp.conjugate(tree(depth - 1))

    A = sp.IndexedBase("A^" + str(idx % 7), complex=True)
    pool = rng.choice([(-1, 1), (0, 1), (sp.Rational(-1, 2), sp.Rational(1, 2)), (-1, 0, 1)])
    lam = sp.Symbol("m_A", rational=True)
    amps = {A[v]: tree(rng.randint(1, 3)) for v in pool}
    if rng.random() < 0.2:  # an amplitude that is defined but not summed over
        amps[A[7]] = tree(2)
    body = sp.Abs(A[lam]) ** 2
    if rng.random() < 0.5:  # an intensity that mentions parameters itself (allowed by the class)
        body = rng.choice(params) * body + (rng.choice(leaves) if rng.random() < 0.5 else 0)
    if rng.random() < 0.2:  # … or Wigner functions of kinematic variables, as the aligned models do
        from sympy.physics.quantum.spin import Rotation

        j = sp.Rational(1, 2)  # (j = 1 costs seconds per numeric evaluation: SymPy simplifies every d-function)
        body = body * sp.Abs(Rotation.D(j, j, rng.choice([j, -j]), rng.choice(kins), rng.choice(kins), rng.choice([0, rng.choice(kins)]))) ** 2
    intensity = PoolSum(body, (lam, pool))
    def value_for(sym):
        """mostly a default value that satisfies the symbol's assumptions (as ampform's own defaults do),
        sometimes any value (the attribute accepts it; merges are then outside the numeric clause)"""
        if rng.random() < 0.15:
            return rng.choice(VALUES)
        ok = [v for v in VALUES if not (
            (sym.is_real and isinstance(v, complex)) or (sym.is_positive and not isinstance(v, complex) and v <= 0)
            or (sym.is_nonnegative and not isinstance(v, complex) and v < 0))]
        if not is_library_declaration(sym):
            ok = [v for v in ok if not value_contradicts(sym, v)] or [value_satisfying(sym)]
        return rng.choice(ok)

    pvals = {p: value_for(p) for p in params}
    for _ in range(rng.choice([0, 0, 1, 2])):  # parameters that occur only in parameter_defaults
        extra = sp.Symbol(rng.choice(["m_7", "m_8", "unused_{par}", "zeta"]), **draw_declaration(rng))
        pvals[extra] = value_for(extra)
    items = list(pvals.items())
    rng.shuffle(items)
    comps = {}
    for j, (k, v) in enumerate(amps.items()):
        if rng.random() < 0.7:
            comps[rng.choice(["A_{%d}", "I_{%d}", "A%d", "I_{x;%d}"]) % rng.choice([j, 10 * j + 1, j + 2])] = (
                v if rng.random() < 0.5 else sp.Abs(v) ** 2)
    return HelicityModel(
        intensity=intensity,
        amplitudes=amps,
        parameter_defaults=dict(items),
        kinematic_variables=kin_defs,
        components=comps,
        reaction_info=reaction,
    )


# --------------------------------------------------------------------------- rename maps

KINDS = ["injective", "injective", "merge_existing", "merge_fresh", "chain", "chain_all", "swap", "kinvar", "momentum",
         "kin_merge", "param_onto_kin", "empty", "unknown", "mixed", "self", "dup_tuples", "all_params", "unused_param",
         "swap_within", "chain_within", "mom_merge"]


# maps aimed at the symbols whose declaration is not one the library makes (they fall back to ordinary kinds on models
# without such symbols)
DECL_KINDS = ["decl_all", "decl_injective", "decl_swap", "decl_chain", "decl_merge_existing", "decl_merge_fresh"]


def model_info(m) -> dict:
    import sympy as sp

    expr_syms = {s for s in m.expression.free_symbols if isinstance(s, sp.Symbol)}
    kin_keys = list(m.kinematic_variables)
    kin_val_syms = set()
    for v in m.kinematic_variables.values():
        kin_val_syms |= {s for s in v.free_symbols if isinstance(s, sp.Symbol)}
    par_keys = [s for s in m.parameter_defaults if isinstance(s, sp.Symbol)]
    all_syms = expr_syms | set(kin_keys) | kin_val_syms | set(par_keys)
    for e in [*m.amplitudes.values(), *m.components.values()]:
        all_syms |= {s for s in e.free_symbols if isinstance(s, sp.Symbol)}
    return {
        "params": sorted({s.name for s in par_keys}),
        "params_unused": sorted({s.name for s in par_keys if s not in expr_syms}),
        "kin": sorted({s.name for s in kin_keys}),
        "mom": sorted({s.name for s in kin_val_syms - set(kin_keys) - set(par_keys)}),
        "names": sorted({s.name for s in all_syms}),
        # names of symbols whose declaration is not a library-style one / would lose facts in a rebuild from the True facts
        "decl": sorted({s.name for s in all_syms if not is_library_declaration(s)}),
        "lossy": sorted({s.name for s in all_syms if loses_facts_if_rebuilt_from_true_facts(s)}),
        "by_name": {n: [s for s in all_syms if s.name == n] for n in {s.name for s in all_syms}},
    }


def fresh(rng, info, taken=()):
    for _ in range(50):
        n = rng.choice(FRESH_NAMES)
        if rng.random() < 0.3:
            n += rng.choice(["_1", "2", "_{a}", "'", "0"])
        if n not in info["names"] and n not in taken:
            return n
    return "fresh_%d" % rng.randint(0, 10**6)


def same_assumption_pair(rng, info, pool):
    cands = []
    for i, a in enumerate(pool):
        for b in pool[i + 1:]:
            sa, sb = info["by_name"][a], info["by_name"][b]
            if len(sa) == 1 and len(sb) == 1 and sa[0].assumptions0 == sb[0].assumptions0:
                cands.append((a, b))
    return rng.choice(cands) if cands else None


def gen_map(rng, info, kind):  # noqa: C901, PLR0911, PLR0912
    """Returns the `renames` argument (dict or list of pairs)."""
    P, K, M, N = info["params"], info["kin"], info["mom"], info["names"]
    if kind == "empty":
        return {}
    if kind == "unknown":
        return {fresh(rng, info): fresh(rng, info) for _ in range(rng.randint(1, 3))}
    if kind == "injective":
        chosen = rng.sample(N, rng.randint(1, min(4, len(N))))
        out, taken = {}, []
        for n in chosen:
            out[n] = fresh(rng, info, taken)
            taken.append(out[n])
        return out
    D = info.get("decl", [])
    if kind.startswith("decl_"):
        if not D:
            kind = "injective"
        elif kind == "decl_all":
            return {n: f"q_{i}" for i, n in enumerate(D)} if rng.random() < 0.5 else {n: n + "'" for n in D}
        elif kind == "decl_injective":
            chosen = rng.sample(D, rng.randint(1, min(4, len(D))))
            out, taken = {}, []
            for n in chosen:
                out[n] = fresh(rng, info, taken)
                taken.append(out[n])
            return out
        elif kind == "decl_swap" and len(D) >= 2:
            a, b = rng.sample(D, 2)
            return {a: b, b: a}
        elif kind == "decl_chain" and len(D) >= 2:
            a, b = rng.sample(D, 2)
            return {a: b, b: fresh(rng, info)}
        elif kind == "decl_merge_existing":
            a = rng.choice(D)
            others = [n for n in P if n != a]
            if others:
                b = rng.choice(others)
                return {a: b} if rng.random() < 0.5 else {b: a}
            kind = "injective"
        elif kind == "decl_merge_fresh" and len(D) >= 2:
            n = fresh(rng, info)
            return {a: n for a in rng.sample(D, rng.randint(2, min(3, len(D))))}
        else:
            kind = "injective"
    if kind == "injective":
        chosen = rng.sample(N, rng.randint(1, min(4, len(N))))
        out, taken = {}, []
        for n in chosen:
            out[n] = fresh(rng, info, taken)
            taken.append(out[n])
        return out
    if kind == "all_params":
        return {n: f"par_{i}" for i, n in enumerate(P)} if rng.random() < 0.5 else {n: n + "'" for n in P}
    if kind == "unused_param" and info["params_unused"]:
        return {rng.choice(info["params_unused"]): fresh(rng, info)}
    if kind == "merge_existing" and len(P) >= 2:
        a, b = rng.sample(P, 2)
        return {a: b}
    if kind == "merge_fresh" and len(P) >= 2:
        pair = same_assumption_pair(rng, info, P)
        if pair:
            n = fresh(rng, info)
            return {pair[0]: n, pair[1]: n}
        a, b = rng.sample(P, 2)
        return {a: b}
    if kind == "chain" and len(N) >= 2:
        a, b = rng.sample(N, 2)
        return {a: b, b: fresh(rng, info)}
    if kind == "chain_all" and len(P) >= 3:
        a, b, c = rng.sample(P, 3)
        return {a: b, b: c}
    if kind == "swap" and len(N) >= 2:
        a, b = rng.sample(N, 2)
        return {a: b, b: a}
    if kind == "kinvar" and K:
        chosen = rng.sample(K, rng.randint(1, min(3, len(K))))
        taken, out = [], {}
        for n in chosen:
            out[n] = fresh(rng, info, taken)
            taken.append(out[n])
        return out
    if kind == "momentum" and M:
        return {rng.choice(M): fresh(rng, info)}
    if kind in ("swap_within", "chain_within"):  # both names from one category (momenta, kinematic variables, parameters)
        cats = [c for c in (M, K, P) if len(c) >= 2]
        if cats:
            a, b = rng.sample(rng.choice(cats), 2)
            return {a: b, b: a} if kind == "swap_within" else {a: b, b: fresh(rng, info)}
    if kind == "mom_merge" and len(M) >= 2:
        a, b = rng.sample(M, 2)
        return {a: b}
    if kind == "kin_merge" and len(K) >= 2:
        a, b = rng.sample(K, 2)
        return {a: b}
    if kind == "param_onto_kin" and P and K:
        return {rng.choice(P): rng.choice(K)} if rng.random() < 0.5 else {rng.choice(K): rng.choice(P)}
    if kind == "self" and N:
        n = rng.choice(N)
        return {n: n}
    if kind == "dup_tuples" and N:
        n = rng.choice(N)
        return [(n, fresh(rng, info)), (n, fresh(rng, info)), (fresh(rng, info), "nothing")]
    # mixed / fallback: anything goes
    out = {}
    for _ in range(rng.randint(1, 4)):
        src = rng.choice(N) if rng.random() < 0.8 else fresh(rng, info)
        dst = rng.choice(N) if rng.random() < 0.4 else fresh(rng, info)
        out[src] = dst
    return out


def fresh_merge_of_different_assumptions(info, renames) -> bool:
    """Finding F1: two symbols with different assumptions are sent to one name that no unrenamed symbol has."""
    rd = dict(renames)
    groups: dict[str, set] = {}
    for n, syms in info["by_name"].items():
        if n in rd:
            for s in syms:
                groups.setdefault(rd[n], set()).add(tuple(sorted(s.assumptions0.items())))
    for new, asms in groups.items():
        existing = new in info["by_name"] and new not in rd
        if not existing and len(asms) > 1:
            return True
    return False


def invertible(info, renames) -> dict | None:
    """The inverse map, if `renames` sends known names injectively to names that do not exist yet."""
    rd = dict(renames)
    if not rd or len(set(rd.values())) != len(rd):
        return None
    if any(a not in info["by_name"] for a in rd) or any(b in info["by_name"] or b in rd for b in rd.values()):
        return None
    if any(len(info["by_name"][a]) != 1 for a in rd):  # two symbols of one name are coupled by the rename: not invertible
        return None
    return {b: a for a, b in rd.items()}


def gen_sequence(rng, length=None):
    n = length or rng.choice([1, 1, 2, 3])
    return [rng.choice(KINDS) if rng.random() < 0.75 else rng.choice(DECL_KINDS) for _ in range(n)]
