"""C09: which phase-space implementation / angular momentum / meson radius occurs WHERE in the
T-matrices that the two K-matrix classes formulate.

`RelativisticKMatrix.formulate` uses its `phsp_factor` twice: for the ρ_i of √ρ K̂(1 − iρK̂)⁻¹√ρ and
(forwarded to `parametrization`) for the energy-dependent widths inside the residue functions.
Unitarity needs BOTH to be the caller's factor (the guard of the theorems is `0 < ρ_i(m_R²)` for the
factor in use), so the forwarding is an obligation of C09 as well:

* `marker_phsp()` — a phase-space implementation that exists only in this harness. The translated
  definitions of C09 are built from `formulate(..., phsp_factor=marker)`; the leaf translator refuses
  every other phase-space class inside the result.
* `occurrence_table()` — itemised occurrences (per pole × channel, INCLUDING what is inside every
  `EnergyDependentWidth` after one `evaluate()`), regenerated into `Gen/C09.lean` as `occTable` and
  checked by the kernel (`Props/C09.lean`, `formulate_forwards_arguments`, by `decide`).
* `honour_cases()` — the same statement on the real objects for every phase-space implementation of
  dynamics/phasespace.py, symbolic AND numeric angular momentum / meson radius (oracle).
"""

from __future__ import annotations

from typing import Any

import sympy as sp

MARKER_NAME = "PhaseSpaceFactorC09Marker"
CLASSES = ["NonRelativisticKMatrix", "RelativisticKMatrix"]
COMBOS = ((1, 1), (1, 2), (2, 1), (2, 2))
_MARKER: dict = {}


def marker_phsp():
    """7/5·PhaseSpaceFactor + 1/3·PhaseSpaceFactorAbs, built with ampform's public `@unevaluated`:
    real and positive above threshold, COMPLEX below (so that the translator validation still feeds
    complex leaf values to the Lean twin), numerically different from every library implementation."""
    if "cls" not in _MARKER:
        from ampform.dynamics.phasespace import PhaseSpaceFactor, PhaseSpaceFactorAbs
        from ampform.sympy import unevaluated

        @unevaluated
        class PhaseSpaceFactorC09Marker(sp.Expr):
            s: Any
            m1: Any
            m2: Any
            _latex_repr_ = R"\rho^\mathrm{{C09}}\left({s}\right)"

            def evaluate(self):
                s, m1, m2 = self.args
                return (sp.Rational(7, 5) * PhaseSpaceFactor(s, m1, m2)
                        + sp.Rational(1, 3) * PhaseSpaceFactorAbs(s, m1, m2))

        _MARKER["cls"] = PhaseSpaceFactorC09Marker
    return _MARKER["cls"]


def phsp_registry() -> dict:
    """Every PhaseSpaceFactorProtocol implementation of dynamics/phasespace.py (classes with the
    (s, m1, m2) signature) plus the protocol-compliant function."""
    import inspect

    from ampform.dynamics import phasespace as ps

    out = {}
    for name, obj in vars(ps).items():
        if inspect.isclass(obj) and issubclass(obj, sp.Expr) and hasattr(obj, "evaluate"):
            try:
                params = list(inspect.signature(obj).parameters)
            except (TypeError, ValueError):
                continue
            if params[:3] == ["s", "m1", "m2"]:
                out[name] = obj
    if hasattr(ps, "chew_mandelstam_s_wave"):
        out["chew_mandelstam_s_wave"] = ps.chew_mandelstam_s_wave
    return out


def formulate(cls_name: str, nc: int, np_: int, hat: bool, phsp, L, d):
    from ampform.dynamics import kmatrix as km

    cls = getattr(km, cls_name)
    kw = {"phsp_factor": phsp, "angular_momentum": L, "meson_radius": d}
    if cls_name == "RelativisticKMatrix":
        kw["return_t_hat"] = hat
    elif hat:
        return None
    return cls.formulate(n_channels=nc, n_poles=np_, **kw)


def _channel_of(m1, m2) -> int:
    if isinstance(m1, sp.Indexed) and isinstance(m2, sp.Indexed) and m1.indices == m2.indices \
            and str(m1.base.label) == "m_a" and str(m2.base.label) == "m_b":
        return int(m1.indices[0])
    return 99


def _pole_of(x) -> int:
    """0 for the Mandelstam variable `s`, R for `m[R]` or `m[R]**2`, 99 for anything else."""
    if isinstance(x, sp.Symbol) and x.name == "s":
        return 0
    if isinstance(x, sp.Pow) and x.exp == 2:
        x = x.base
    if isinstance(x, sp.Indexed) and str(x.base.label) == "m" and isinstance(x.indices[0], sp.Integer):
        return int(x.indices[0])
    return 99


def _unroll_sums(e):
    def expand(sm):
        f = sm.function
        for var, lo, hi in reversed(sm.limits):
            f = sp.Add(*[f.xreplace({var: sp.Integer(k)}) for k in range(int(lo), int(hi) + 1)])
        return f

    return e.replace(lambda x: isinstance(x, sp.Sum) and all(
        isinstance(l[1], sp.Integer) and isinstance(l[2], sp.Integer) for l in x.limits), expand)


def occurrences(matrix, registry: dict, extra_classes=()) -> dict:
    """Itemised occurrences in a formulated matrix (sums over the poles written out, nothing else
    unfolded except ONE `evaluate()` of every energy-dependent width):
        ("R",  0, i, phsp, "", "")  phase-space node of channel i at s, in the matrix expression itself
        ("W",  R, i, phsp, L, d)    energy-dependent width of pole R in channel i (attribute phsp_factor)
        ("Wr", p, i, phsp, "", "")  phase-space node INSIDE an evaluated width, at s (p = 0) or m_R² (p = R)
        ("Wf", p, i, "",   L, d)    form factor INSIDE an evaluated width
        ("F",  p, i, "",   L, d)    form factor directly in the matrix expression
    99 marks a pole / channel that could not be identified."""
    from ampform.dynamics import EnergyDependentWidth
    from ampform.dynamics.form_factor import FormFactor

    classes = {c for c in registry.values() if isinstance(c, type)} | set(extra_classes)
    phsp, Ls, ds, items = set(), set(), set(), set()

    def name_of(f):
        return getattr(f, "__name__", repr(f))

    def scan(expr, inside: bool):
        it = sp.preorder_traversal(expr)
        for node in it:
            if isinstance(node, EnergyDependentWidth):
                phsp.add(name_of(node.phsp_factor))
                Ls.add(str(node.angular_momentum))
                ds.add(str(node.meson_radius))
                items.add(("W", _pole_of(node.mass0), _channel_of(node.m_a, node.m_b), name_of(node.phsp_factor),
                           str(node.angular_momentum), str(node.meson_radius)))
                scan(node.evaluate(), True)
                it.skip()
            elif isinstance(node, FormFactor):
                Ls.add(str(node.angular_momentum))
                ds.add(str(node.meson_radius))
                items.add(("Wf" if inside else "F", _pole_of(node.s), _channel_of(node.m1, node.m2), "",
                           str(node.angular_momentum), str(node.meson_radius)))
                it.skip()
            elif type(node) in classes:
                phsp.add(type(node).__name__)
                a = node.args
                items.add(("Wr" if inside else "R", _pole_of(a[0]),
                           _channel_of(a[1], a[2]) if len(a) >= 3 else 99, type(node).__name__, "", ""))

    for entry in matrix:
        scan(_unroll_sums(entry), False)
    return {"phsp": sorted(phsp), "L": sorted(Ls), "d": sorted(ds), "items": sorted(items)}


def occurrence_table(phsp, L, d, combos=COMBOS) -> list[dict]:
    reg = phsp_registry()
    rows = []
    for cls_name in CLASSES:
        for nc, np_ in combos:
            for hat in (False, True):
                m = formulate(cls_name, nc, np_, hat, phsp, L, d)
                if m is None:
                    continue
                occ = occurrences(m, reg, extra_classes=[phsp] if isinstance(phsp, type) else [])
                rows.append({"cls": cls_name, "n_channels": nc, "n_poles": np_, "hat": hat,
                             "relativistic": cls_name.startswith("Relativistic"), **occ})
    return rows


def items_ok(r: dict, phsp_names: set, L: str, d: str) -> bool:
    """The itemised forwarding statement (mirrors `honours` in Props/C09.lean)."""
    its = r["items"]
    if not r["relativistic"]:
        return its == []
    for (k, R, i, ph, l_, d_) in its:
        if R == 99 or i == 99:
            return False
        if k == "W":
            if not (ph in phsp_names and l_ == L and d_ == d):
                return False
        elif k in ("Wf", "F"):
            if not (l_ == L and d_ == d):
                return False
        elif k in ("R", "Wr"):
            if ph not in phsp_names:
                return False
        else:
            return False
    have = {(k, R, i) for (k, R, i, *_rest) in its}
    for i in range(r["n_channels"]):
        if ("R", 0, i) not in have:
            return False
        for R in range(1, r["n_poles"] + 1):
            for need in (("W", R, i), ("Wr", R, i), ("Wr", 0, i), ("Wf", R, i), ("Wf", 0, i)):
                if need not in have:
                    return False
    return True


def _lean_list(xs):
    return "[" + ", ".join('"' + x.replace('"', "'") + '"' for x in xs) + "]"


def occurrence_lean(rows) -> str:
    out = [
        "/-- One occurrence inside a formulated T-matrix: `R` = phase-space node of the matrix expression,",
        "`W` = energy-dependent width of pole `pole` in channel `channel` (its `phsp_factor` attribute),",
        "`Wr` / `Wf` = phase-space node / form factor INSIDE an evaluated width (at `s`: `pole = 0`, or at `m_R²`),",
        "`F` = form factor in the matrix expression. -/",
        "structure OccItem where",
        "  kind : String",
        "  pole : Nat",
        "  channel : Nat",
        "  phsp : String",
        "  angMom : String",
        "  radius : String",
        "",
        "/-- What occurs in the result of `formulate(..., phsp_factor=PhaseSpaceFactorC09Marker, angular_momentum=L,",
        "meson_radius=d)`: phase-space implementations, angular momenta and meson radii, as sets and",
        "itemised per pole × channel. Regenerated from the real objects on every run. -/",
        "structure Occ where",
        "  cls : String",
        "  nChannels : Nat",
        "  nPoles : Nat",
        "  hat : Bool",
        "  relativistic : Bool",
        "  phsp : List String",
        "  angMom : List String",
        "  radius : List String",
        "  items : List OccItem",
        "",
        "def occTable : List Occ := [",
    ]
    body = []
    for r in rows:
        items = ", ".join(f'⟨"{k}", {R}, {i}, "{ph}", "{L}", "{d}"⟩' for (k, R, i, ph, L, d) in r["items"])
        body.append(f'  ⟨"{r["cls"]}", {r["n_channels"]}, {r["n_poles"]}, {str(r["hat"]).lower()}, '
                    f'{str(r["relativistic"]).lower()}, {_lean_list(r["phsp"])}, {_lean_list(r["L"])}, {_lean_list(r["d"])},\n'
                    f'    [{items}]⟩')
    out.append(",\n".join(body))
    out.append("]")
    return "\n".join(out) + "\n"


def honour_cases(rng, tier: str):
    """Forwarding on the real objects for EVERY phase-space implementation of the library (and the
    marker): symbolic angular momentum / radius, and plain numbers (int L, int / Rational / float d)."""
    reg = dict(phsp_registry())
    reg[MARKER_NAME] = marker_phsp()
    bad = []
    n = 0
    combos = ((1, 1), (2, 2)) if tier == "quick" else ((1, 1), (1, 2), (2, 1), (2, 2), (1, 3), (2, 3), (2, 4))
    classes = {c for c in reg.values() if isinstance(c, type)}
    for name, impl in reg.items():
        expected = {name}
        if not isinstance(impl, type):
            # a protocol-compliant FUNCTION is expanded on call: the phase-space classes inside its own
            # value are what occurs (e.g. BreakupMomentumSquared inside chew_mandelstam_s_wave)
            x, y, z = sp.symbols("x_probe y_probe z_probe", positive=True)
            expected |= {type(nd).__name__ for nd in sp.preorder_traversal(impl(x, y, z)) if type(nd) in classes}
        variants = [
            (sp.Symbol(f"L_{rng.randrange(1000)}", integer=True, nonnegative=True),
             sp.Symbol(f"d_{rng.randrange(1000)}", positive=True)),
            (rng.randint(1, 4), rng.choice([2, 3, sp.Rational(5, 2), 1.75])),
        ]
        for L, d in variants:
            rows = occurrence_table(impl, L, d, combos=combos)
            Ls, ds = str(sp.sympify(L)), str(sp.sympify(d))
            for r in rows:
                n += 1
                if r["relativistic"]:
                    ok = (set(r["phsp"]) == expected and r["L"] == [Ls] and r["d"] == [ds]
                          and items_ok(r, expected, Ls, ds))
                else:
                    ok = r["phsp"] == [] and r["L"] == [] and r["d"] == [] and r["items"] == []
                if not ok:
                    bad.append({"what": "an argument passed to formulate() is not the only one that occurs in the result",
                                "class": r["cls"], "n_channels": r["n_channels"], "n_poles": r["n_poles"], "hat": r["hat"],
                                "passed": {"phsp_factor": name, "angular_momentum": Ls, "meson_radius": ds},
                                "found": {"phsp": r["phsp"], "L": r["L"], "d": r["d"], "items": [list(x) for x in r["items"]]}})
    return bad, n, sorted(reg)
