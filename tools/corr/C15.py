"""C15 — real pickle round trips (same process / fresh process) of instances of every table class
and of formulated HelicityModels, and the T2 correspondence with the Lean `serialise/deserialise`."""

from __future__ import annotations

import json
import logging
import os
import pickle  # noqa: S403
import subprocess
import sys
import tempfile
import warnings
from pathlib import Path

from tools.corr import C14 as c14
from tools.corr import C18m1 as m1
from tools.lib import common

CORPUS = common.ROOT / "corpus" / "C15"
MODEL_SPECS = [
    # (name, reaction file, dynamics, alignment)
    ("jpsi_gamma_pi0_pi0 / no dynamics", "jpsi_gamma_pi0_pi0", None, None),
    ("jpsi_gamma_pi0_pi0 / BW with form factor + energy-dependent width", "jpsi_gamma_pi0_pi0", "bw_ff_edw", None),
    ("d0_k0_kp_km canonical / BW with form factor + energy-dependent width", "d0_k0_kp_km_canonical", "bw_ff_edw", None),
    ("jpsi_k0_sigma_pbar / BW / DalitzPlotDecomposition", "jpsi_k0_sigma_pbar", "bw", "dpd"),
]
ATTRS = ["intensity", "amplitudes", "parameter_defaults", "kinematic_variables", "components", "reaction_info"]


def quiet():
    warnings.simplefilter("ignore")
    logging.disable(logging.CRITICAL)


def build_model(reaction_name: str, dynamics, alignment):
    import qrules

    import ampform
    from ampform.dynamics.builder import RelativisticBreitWignerBuilder
    from ampform.helicity.align.dpd import DalitzPlotDecomposition, relabel_edge_ids

    quiet()
    reaction = qrules.io.fromdict(json.loads((CORPUS / f"{reaction_name}.json").read_text()))
    if alignment == "dpd":
        reaction = relabel_edge_ids(reaction)
    builder = ampform.get_builder(reaction)
    if alignment == "dpd":
        builder.config.spin_alignment = DalitzPlotDecomposition(reference_subsystem=1)
        builder.config.scalar_initial_state_mass = True
        builder.config.stable_final_state_ids = list(reaction.final_state)
    if dynamics:
        bw = RelativisticBreitWignerBuilder(form_factor=dynamics == "bw_ff_edw", energy_dependent_width=dynamics == "bw_ff_edw")
        for p in reaction.get_intermediate_particles():
            builder.dynamics.assign(p.name, bw)
    return builder.formulate()


def model_exprs(model):
    """(label, expression) for every SymPy expression held by the model, in attribute order."""
    out = [("intensity", model.intensity)]
    for i, (k, v) in enumerate(model.amplitudes.items()):
        out += [(f"amplitudes[{i}].key", k), (f"amplitudes[{i}].value", v)]
    for i, k in enumerate(model.parameter_defaults):
        out.append((f"parameter_defaults[{i}].key", k))
    for i, (k, v) in enumerate(model.kinematic_variables.items()):
        out += [(f"kinematic_variables[{i}].key", k), (f"kinematic_variables[{i}].value", v)]
    for i, (k, v) in enumerate(model.components.items()):
        out.append((f"components[{i}]({k[:30]})", v))
    return out


def describe(obj) -> dict:
    """srepr per attribute (ordered), for comparison across processes."""
    import sympy as sp

    if hasattr(obj, "__attrs_attrs__"):
        d = {}
        for a in ATTRS:
            v = getattr(obj, a)
            if a == "reaction_info":
                import qrules

                d[a] = json.dumps(qrules.io.asdict(v), cls=qrules.io.JSONSetEncoder, sort_keys=True)
            elif a == "intensity":
                d[a] = sp.srepr(v)
            elif a == "parameter_defaults":
                d[a] = [(sp.srepr(k), repr(val)) for k, val in v.items()]
            else:
                d[a] = [(sp.srepr(k) if isinstance(k, sp.Basic) else k, sp.srepr(val)) for k, val in v.items()]
        return d
    return {"srepr": sp.srepr(obj)}


def numeric_value(model) -> str:
    """The intensity at one fixed point of (kinematic variable symbols, parameter defaults)."""
    import random

    import sympy as sp

    rng = random.Random(2024)
    expr = model.expression.xreplace(dict(model.parameter_defaults))
    syms = sorted(expr.free_symbols, key=str)
    vals = {s: sp.Float(rng.uniform(0.35, 1.3), 20) for s in syms}
    val = sp.N(expr.xreplace(vals).doit(), 15)
    return str(complex(val))


def compare_models(a, b) -> list[str]:
    """Differences between two models attribute by attribute (== and srepr, order included)."""
    diffs = []
    for name in ATTRS:
        va, vb = getattr(a, name), getattr(b, name)
        if va != vb:
            diffs.append(f"{name}: == is False")
        if hasattr(va, "items") and list(va.keys()) != list(vb.keys()):
            diffs.append(f"{name}: key order differs")
    da, db = describe(a), describe(b)
    for name in ATTRS:
        if da[name] != db[name]:
            first = ""
            if isinstance(da[name], list):
                for x, y in zip(da[name], db[name]):
                    if x != y:
                        first = f" first difference: {str(x)[:300]} -> {str(y)[:300]}"
                        break
            diffs.append(f"{name}: srepr differs.{first}")
    if a != b:
        diffs.append("model == loaded model is False")
    return diffs


FRESH_SCRIPT = r"""
import json, pickle, sys, warnings, logging
warnings.simplefilter("ignore"); logging.disable(logging.CRITICAL)
sys.path.insert(0, sys.argv[3]); sys.path.insert(0, sys.argv[4])
from tools.lib import common
common.use_repo_source()
from tools.corr import C15
objs = pickle.load(open(sys.argv[1], "rb"))
out = []
for kind, obj in objs:
    d = C15.describe(obj)
    if kind == "model":
        d["numeric"] = C15.numeric_value(obj)
    out.append(d)
json.dump(out, open(sys.argv[2], "w"))
"""


def fresh_process_describe(objs: list[tuple[str, object]], timeout: int = 900) -> list[dict]:
    """Pickle `objs` to a scratch file, load them in a FRESH interpreter, return its descriptions."""
    tmp = Path(tempfile.mkdtemp(prefix="c15_"))
    try:
        pkl, res, script = tmp / "objs.pkl", tmp / "out.json", tmp / "load.py"
        with open(pkl, "wb") as f:
            pickle.dump(objs, f)
        script.write_text(FRESH_SCRIPT)
        env = dict(os.environ)
        env["PYTHONPATH"] = str(common.REPO / "src")
        env["PYTHONHASHSEED"] = "12345"
        try:
            p = subprocess.run([common.PY, str(script), str(pkl), str(res), str(common.ROOT), str(common.REPO / "src")],
                               capture_output=True, text=True, timeout=timeout, env=env, cwd=str(tmp))
        except subprocess.TimeoutExpired as e:
            msg = "fresh-process load timed out"
            raise common.InfraError(msg) from e
        if p.returncode != 0:
            return [{"error": (p.stderr or p.stdout)[-1500:]}]
        return json.loads(res.read_text())
    finally:
        import shutil

        shutil.rmtree(tmp, ignore_errors=True)


def lean_roundtrips(exprs: list, ctx, variant=(0, 1)) -> list[tuple]:
    """(expr, wfterm reply, roundtrip reply AST or error) through the Lean model."""
    lines = [f"(variant {variant[0]} {variant[1]})"]
    kept = []
    for e in exprs:
        try:
            s = m1.show(m1.canon(e, ctx))
        except m1.Unrepresentable as exc:
            kept.append((e, None, exc))
            continue
        lines += [f"(wfterm {s})", f"(roundtrip {s})"]
        kept.append((e, s, None))
    replies = m1.run_driver(c14.DRIVER, lines, c14.DRIVER_MODULES)[1:]
    out, i = [], 0
    for e, s, err in kept:
        if s is None:
            out.append((e, "unrepresentable", err))
            continue
        out.append((e, replies[i].strip(), replies[i + 1].strip()))
        i += 2
    return out
