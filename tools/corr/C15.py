"""C15 — real pickle round trips (same process / fresh process) of instances of every table class
and of formulated HelicityModels, and the T2 correspondence with the Lean `serialise/deserialise`."""

from __future__ import annotations

import json
import logging
import os
import pickle  # noqa: S403
import subprocess
import sys
import tempfile
import warnings
from pathlib import Path

from tools.corr import C14 as c14
from tools.corr import C18m1 as m1
from tools.lib import common

CORPUS = common.ROOT / "corpus" / "C15"
MODEL_SPECS = [
    # (label, reaction file, dynamics, options); the first four are always run, the others cover the public
    # builder options (quick tier: the helicity-coupling models and a seeded sample, thorough: all)
    ("jpsi_gamma_pi0_pi0 / no dynamics", "jpsi_gamma_pi0_pi0", None, {}),
    ("jpsi_gamma_pi0_pi0 / BW with form factor + energy-dependent width", "jpsi_gamma_pi0_pi0", "bw_ff_edw", {}),
    ("d0_k0_kp_km canonical / BW with form factor + energy-dependent width", "d0_k0_kp_km_canonical", "bw_ff_edw", {}),
    ("jpsi_k0_sigma_pbar / BW / DalitzPlotDecomposition", "jpsi_k0_sigma_pbar", "bw", {"align": "dpd"}),
    ("jpsi_gamma_pi0_pi0 / use_helicity_couplings", "jpsi_gamma_pi0_pi0", None, {"use_helicity_couplings": True}),
    ("jpsi_k0_sigma_pbar / use_helicity_couplings / BW", "jpsi_k0_sigma_pbar", "bw", {"use_helicity_couplings": True}),
    ("d0_k0_kp_km canonical / use_helicity_couplings / BW ff+edw", "d0_k0_kp_km_canonical", "bw_ff_edw", {"use_helicity_couplings": True}),
    ("jpsi_gamma_pi0_pi0 / scalar_initial_state_mass + stable_final_state_ids / BW", "jpsi_gamma_pi0_pi0", "bw_ff_edw",
     {"scalar_initial_state_mass": True, "stable_final_state_ids": "all"}),
    ("jpsi_gamma_pi0_pi0 / stable_final_state_ids = {1}", "jpsi_gamma_pi0_pi0", None, {"stable_final_state_ids": [1]}),
    ("d0_k0_kp_km canonical / naming: parent helicities, no child helicities", "d0_k0_kp_km_canonical", "bw",
     {"insert_parent_helicities": True, "insert_child_helicities": False}),
    ("jpsi_k0_sigma_pbar / AxisAngleAlignment", "jpsi_k0_sigma_pbar", None, {"align": "axis"}),
]
N_ALWAYS = 7  # models run in every tier (incl. all helicity-coupling models)
ATTRS = ["intensity", "amplitudes", "parameter_defaults", "kinematic_variables", "components", "reaction_info"]


def quiet():
    warnings.simplefilter("ignore")
    logging.disable(logging.CRITICAL)


def build_model(reaction_name: str, dynamics, options=None):
    import qrules

    import ampform
    from ampform.dynamics.builder import RelativisticBreitWignerBuilder
    from ampform.helicity.align.dpd import DalitzPlotDecomposition, relabel_edge_ids

    from ampform.helicity.align.axisangle import AxisAngleAlignment

    quiet()
    options = options or {}
    if isinstance(options, str):
        options = {"align": options}
    alignment = options.get("align")
    reaction = qrules.io.fromdict(json.loads((CORPUS / f"{reaction_name}.json").read_text()))
    if alignment == "dpd":
        reaction = relabel_edge_ids(reaction)
    builder = ampform.get_builder(reaction)
    if alignment == "dpd":
        builder.config.spin_alignment = DalitzPlotDecomposition(reference_subsystem=1)
        builder.config.scalar_initial_state_mass = True
        builder.config.stable_final_state_ids = list(reaction.final_state)
    if alignment == "axis":
        builder.config.spin_alignment = AxisAngleAlignment()
    if options.get("use_helicity_couplings"):
        builder.config.use_helicity_couplings = True
    if options.get("scalar_initial_state_mass"):
        builder.config.scalar_initial_state_mass = True
    if options.get("stable_final_state_ids") is not None:
        ids = options["stable_final_state_ids"]
        builder.config.stable_final_state_ids = list(reaction.final_state) if ids == "all" else ids
    for flag in ("insert_parent_helicities", "insert_child_helicities"):
        if flag in options:
            setattr(builder.naming, flag, options[flag])
    if dynamics:
        bw = RelativisticBreitWignerBuilder(form_factor=dynamics == "bw_ff_edw", energy_dependent_width=dynamics == "bw_ff_edw")
        for p in reaction.get_intermediate_particles():
            builder.dynamics.assign(p.name, bw)
    return builder.formulate()


def model_exprs(model):
    """(label, expression) for every SymPy expression held by the model, in attribute order."""
    out = [("intensity", model.intensity)]
    for i, (k, v) in enumerate(model.amplitudes.items()):
        out += [(f"amplitudes[{i}].key", k), (f"amplitudes[{i}].value", v)]
    for i, k in enumerate(model.parameter_defaults):
        out.append((f"parameter_defaults[{i}].key", k))
    for i, (k, v) in enumerate(model.kinematic_variables.items()):
        out += [(f"kinematic_variables[{i}].key", k), (f"kinematic_variables[{i}].value", v)]
    for i, (k, v) in enumerate(model.components.items()):
        out.append((f"components[{i}]({k[:30]})", v))
    return out


def attr_token(v) -> str:
    """Type and identity of a non-SymPy attribute value, comparable across processes."""
    import inspect

    if v is None:
        return "NoneType None"
    if inspect.isclass(v):
        return f"class {v.__module__}.{v.__qualname__}"
    if inspect.isfunction(v):
        return f"function {v.__module__}.{v.__qualname__}"
    return f"{type(v).__name__} {v!r}"


def dataclass_nodes(expr):
    import dataclasses

    import sympy as sp

    return [n for n in sp.preorder_traversal(expr) if dataclasses.is_dataclass(n) and not isinstance(n, type)]


def attr_digest(expr) -> list:
    """(class, field, type-and-value token) of every non-SymPy attribute of every node."""
    import dataclasses

    out = []
    for n in dataclass_nodes(expr):
        for f in dataclasses.fields(n):
            if not f.metadata.get("sympify"):
                out.append([f"{type(n).__module__}.{type(n).__qualname__}", f.name, attr_token(getattr(n, f.name))])
    return out


def unfold_digest(expr) -> list:
    """`evaluate()` of every node that has one (one unfolding step each; exceptions recorded)."""
    import sympy as sp

    import dataclasses

    out = []
    for n in dataclass_nodes(expr):
        ev = getattr(n, "evaluate", None)
        # only nodes that carry non-SymPy attributes: those are what pickling can get wrong without
        # == noticing (and it keeps evaluate() away from e.g. BlattWeisskopfSquared with a non-integer
        # numeric L, which computes for minutes)
        if callable(ev) and any(not f.metadata.get("sympify") for f in dataclasses.fields(n)):
            try:
                out.append(sp.srepr(c14.with_cap(20.0, ev)))
            except c14._Timeout:  # noqa: SLF001
                out.append("TIMEOUT")
            except Exception as e:  # noqa: BLE001
                out.append(f"EXC {type(e).__name__}: {e}"[:200])
    return _digest(out)


def digests_agree(a, b) -> bool:
    """Equal, where both sides finished within the time cap."""
    if "TIMEOUT" in a or "TIMEOUT" in b:
        return len(a) == len(b) and all(x == y for x, y in zip(a, b) if "TIMEOUT" not in (x, y))
    return a == b


def _digest(items) -> list:
    import hashlib
    import re

    # dummies get a fresh index in every call: mask it
    return [hashlib.sha1(re.sub(r"dummy_index=\d+", "dummy_index=*", s).encode()).hexdigest()[:16] if not s.startswith(("EXC", "TIMEOUT")) else s
            for s in items]


def attribute_differences(orig, loaded) -> list[str]:
    """Non-SymPy attribute VALUES of the loaded object, field by field (type, and identity for
    classes/functions/None, equality otherwise) — `==` cannot see these: it goes through
    `_hashable_content`."""
    import dataclasses
    import inspect

    diffs = []
    a_nodes, b_nodes = dataclass_nodes(orig), dataclass_nodes(loaded)
    if len(a_nodes) != len(b_nodes):
        return [f"{len(a_nodes)} unevaluated nodes before, {len(b_nodes)} after"]
    for a, b in zip(a_nodes, b_nodes):
        if type(a) is not type(b):
            diffs.append(f"node type {type(a).__name__} -> {type(b).__name__}")
            continue
        for f in dataclasses.fields(a):
            if f.metadata.get("sympify"):
                continue
            va, vb = getattr(a, f.name), getattr(b, f.name, "<missing>")
            by_identity = va is None or inspect.isclass(va) or inspect.isfunction(va)
            if type(va) is not type(vb) or (by_identity and va is not vb) or (not by_identity and va != vb):
                diffs.append(f"{type(a).__name__}.{f.name}: {attr_token(va)} -> {attr_token(vb) if vb != '<missing>' else vb}")
    return diffs


def container_behaviour(model) -> dict:
    """Outcome (value or exception class) of the public API of every attribute container."""
    def run(fn):
        try:
            return repr(fn())
        except Exception as e:  # noqa: BLE001
            return f"EXC {type(e).__name__}"

    pd = model.parameter_defaults
    keys = list(pd)
    rep = {
        "len": run(lambda: len(pd)),
        "iteration": run(lambda: [str(k) for k in pd]),
        "by_symbol": [run(lambda k=k: pd[k]) for k in keys],
        "by_name": [run(lambda k=k: pd[str(k)]) for k in keys],
        "by_index": [run(lambda i=i: pd[i]) for i in range(len(keys))],
        "contains_symbol": [run(lambda k=k: k in pd) for k in keys],
        "missing_name": run(lambda: pd["no such parameter"]),
        "missing_index": run(lambda: pd[len(keys)]),
        "items": run(lambda: [(str(k), v) for k, v in pd.items()]),
        "values": run(lambda: list(pd.values())),
        "repr": run(lambda: repr(pd)),
        "xreplace_with_mapping": run(lambda: str(model.intensity.xreplace(pd))[:200]),
    }
    if keys:
        k0 = keys[0]
        old = run(lambda: pd[k0])

        def assign(key):
            v = pd[k0]
            pd[key] = v  # same value: observable state unchanged
            return pd[k0]

        rep["assign_by_symbol"] = run(lambda: assign(k0))
        rep["assign_by_name"] = run(lambda: assign(str(k0)))
        rep["assign_by_index"] = run(lambda: assign(0))
        rep["unchanged_after_assignments"] = run(lambda: repr(pd[k0]) == old)
    for name in ("amplitudes", "kinematic_variables", "components"):
        d = getattr(model, name)
        ks = list(d)
        rep[name] = {
            "type": type(d).__name__, "len": run(lambda d=d: len(d)), "keys": run(lambda d=d: [str(k) for k in d.keys()]),
            "first": run(lambda d=d, ks=ks: str(d[ks[0]])[:100] if ks else None),
            "last": run(lambda d=d, ks=ks: str(d[ks[-1]])[:100] if ks else None),
            "values_len": run(lambda d=d: len(list(d.values()))),
            "missing": run(lambda d=d: d["no such key"]),
            "reversed_keys": run(lambda d=d: [str(k) for k in reversed(d)][:3]),
        }
    return rep


def model_unfold_digest(model) -> str:
    import sympy as sp

    try:
        return _digest([sp.srepr(model.expression.doit())])[0]
    except Exception as e:  # noqa: BLE001
        return f"EXC {type(e).__name__}: {e}"[:200]


def describe(obj, deep: bool = True) -> dict:
    """srepr per attribute (ordered), attribute values, unfolding, container behaviour:
    for comparison across processes."""
    import sympy as sp

    if hasattr(obj, "__attrs_attrs__"):
        d = {"attrs": [x for _, e in model_exprs(obj) for x in attr_digest(e)],
             "behaviour": container_behaviour(obj)}
        if deep:
            d["unfold"] = model_unfold_digest(obj)
        for a in ATTRS:
            v = getattr(obj, a)
            if a == "reaction_info":
                import qrules

                d[a] = json.dumps(qrules.io.asdict(v), cls=qrules.io.JSONSetEncoder, sort_keys=True)
            elif a == "intensity":
                d[a] = sp.srepr(v)
            elif a == "parameter_defaults":
                d[a] = [(sp.srepr(k), repr(val)) for k, val in v.items()]
            else:
                d[a] = [(sp.srepr(k) if isinstance(k, sp.Basic) else k, sp.srepr(val)) for k, val in v.items()]
        return d
    return {"srepr": sp.srepr(obj), "attrs": attr_digest(obj), "unfold": unfold_digest(obj)}


def numeric_value(model) -> str:
    """The intensity at one fixed point of (kinematic variable symbols, parameter defaults)."""
    import random

    import sympy as sp

    rng = random.Random(2024)
    try:
        expr = model.expression.xreplace(dict(model.parameter_defaults))
        syms = sorted(expr.free_symbols, key=str)
        vals = {s: sp.Float(rng.uniform(0.35, 1.3), 20) for s in syms}
        val = sp.N(expr.xreplace(vals).doit(), 15)
        return str(complex(val))
    except Exception as e:  # noqa: BLE001
        return f"EXC {type(e).__name__}: {e}"[:200]


def compare_models(a, b) -> list[str]:
    """Differences between two models attribute by attribute (== and srepr, order included)."""
    diffs = []
    for name in ATTRS:
        va, vb = getattr(a, name), getattr(b, name)
        if va != vb:
            diffs.append(f"{name}: == is False")
        if hasattr(va, "items") and list(va.keys()) != list(vb.keys()):
            diffs.append(f"{name}: key order differs")
    da, db = describe(a, deep=False), describe(b, deep=False)
    for i, ((lab, ea), (_, eb)) in enumerate(zip(model_exprs(a), model_exprs(b))):
        ad = attribute_differences(ea, eb)
        if ad:
            diffs.append(f"{lab}: non-SymPy attribute values differ: {ad[:3]}")
            break
    if da["behaviour"] != db["behaviour"]:
        bad = [k for k in da["behaviour"] if da["behaviour"][k] != db["behaviour"].get(k)]
        diffs.append("containers behave differently after loading: " + "; ".join(
            f"{k}: {str(da['behaviour'][k])[:120]} -> {str(db['behaviour'].get(k))[:120]}" for k in bad[:4]))
    for name in ATTRS:
        if da[name] != db[name]:
            first = ""
            if isinstance(da[name], list):
                for x, y in zip(da[name], db[name]):
                    if x != y:
                        first = f" first difference: {str(x)[:300]} -> {str(y)[:300]}"
                        break
            diffs.append(f"{name}: srepr differs.{first}")
    if a != b:
        diffs.append("model == loaded model is False")
    return diffs


FRESH_SCRIPT = r"""
import json, pickle, sys, warnings, logging
warnings.simplefilter("ignore"); logging.disable(logging.CRITICAL)
sys.path.insert(0, sys.argv[3]); sys.path.insert(0, sys.argv[4])
from tools.lib import common
common.use_repo_source()
from tools.corr import C15
objs = pickle.load(open(sys.argv[1], "rb"))
out = []
for kind, obj in objs:
    d = C15.describe(obj, deep=(kind != "model-shallow"))
    if kind == "model":
        d["numeric"] = C15.numeric_value(obj)
    out.append(d)
json.dump(out, open(sys.argv[2], "w"))
"""


def fresh_process_describe(objs: list[tuple[str, object]], timeout: int = 900) -> list[dict]:
    """Pickle `objs` to a scratch file, load them in a FRESH interpreter, return its descriptions."""
    tmp = Path(tempfile.mkdtemp(prefix="c15_"))
    try:
        pkl, res, script = tmp / "objs.pkl", tmp / "out.json", tmp / "load.py"
        with open(pkl, "wb") as f:
            pickle.dump(objs, f)
        script.write_text(FRESH_SCRIPT)
        env = dict(os.environ)
        env["PYTHONPATH"] = str(common.REPO / "src")
        env["PYTHONHASHSEED"] = "12345"
        try:
            p = subprocess.run([common.PY, str(script), str(pkl), str(res), str(common.ROOT), str(common.REPO / "src")],
                               capture_output=True, text=True, timeout=timeout, env=env, cwd=str(tmp))
        except subprocess.TimeoutExpired as e:
            msg = "fresh-process load timed out"
            raise common.InfraError(msg) from e
        if p.returncode != 0:
            return [{"error": (p.stderr or p.stdout)[-1500:]}]
        return json.loads(res.read_text())
    finally:
        import shutil

        shutil.rmtree(tmp, ignore_errors=True)


def other_round_trips(models: bool = False):
    """(label, function) of the other routes through `__reduce_ex__`/`__getnewargs__`."""
    import copy

    out = [(f"pickle protocol {p}", lambda o, p=p: pickle.loads(pickle.dumps(o, protocol=p))) for p in (2, 3, 4, 5)]  # noqa: S301
    out.append(("copy.deepcopy", copy.deepcopy))
    if not models:
        out.append(("copy.copy", copy.copy))
    return out


def lean_roundtrips(exprs: list, ctx, variant=(0, 1)) -> list[tuple]:
    """(expr, wfterm reply, roundtrip reply AST or error) through the Lean model."""
    lines = [f"(variant {variant[0]} {variant[1]})"]
    kept = []
    for e in exprs:
        try:
            s = m1.show(m1.canon(e, ctx))
        except m1.Unrepresentable as exc:
            kept.append((e, None, exc))
            continue
        lines += [f"(wfterm {s})", f"(roundtrip {s})"]
        kept.append((e, s, None))
    replies = m1.run_driver(c14.DRIVER, lines, c14.DRIVER_MODULES)[1:]
    out, i = [], 0
    for e, s, err in kept:
        if s is None:
            out.append((e, "unrepresentable", err))
            continue
        out.append((e, replies[i].strip(), replies[i + 1].strip()))
        i += 2
    return out


# --------------------------------------------------------------------------- public expression-returning functions

SKIP_MODULES = ("ampform.sympy._decorator", "ampform.sympy.deprecated", "ampform.sympy._cache", "ampform.io")
SKIP_FUNCTIONS = {"perform_cached_doit", "relabel_edge_ids", "natural_sorting"}
INT_PARAMS = {"state_id", "sibling_id", "isobar_id", "aligned_subsystem", "reference_subsystem", "rotated_state",
              "rotated_state_id", "node_id", "index", "m", "n"}


def _exprs_in(value, depth=0):
    import sympy as sp

    if isinstance(value, sp.Basic):
        return [value]
    if isinstance(value, sp.MatrixBase):
        return [sp.ImmutableMatrix(value)]
    out = []
    if depth < 3:
        if isinstance(value, dict):
            for k, v in value.items():
                out += _exprs_in(k, depth + 1) + _exprs_in(v, depth + 1)
        elif isinstance(value, (list, tuple, set, frozenset)):
            for v in value:
                out += _exprs_in(v, depth + 1)
    return out


def public_function_outputs():  # noqa: C901, PLR0912, PLR0915
    """Every public function of the package that can be called on symbols / a corpus reaction and
    returns SymPy expressions: (label, expression) pairs plus a report of what was (not) called."""
    import importlib
    import inspect
    import itertools
    import pkgutil

    import qrules
    import sympy as sp

    import ampform
    from ampform.dynamics.builder import RelativisticBreitWignerBuilder, TwoBodyKinematicVariableSet
    from ampform.kinematics.lorentz import FourMomentumSymbol, create_four_momentum_symbols

    quiet()
    reaction = qrules.io.fromdict(json.loads((CORPUS / "jpsi_k0_sigma_pbar.json").read_text()))
    transition = reaction.transitions[0]
    topology = transition.topology
    momenta = create_four_momentum_symbols(topology)
    resonance = next(iter(reaction.get_intermediate_particles()))
    pool = TwoBodyKinematicVariableSet(
        incoming_state_mass=sp.Symbol("m"), outgoing_state_mass1=sp.Symbol("m1"), outgoing_state_mass2=sp.Symbol("m2"),
        helicity_theta=sp.Symbol("theta"), helicity_phi=sp.Symbol("phi"), angular_momentum=1)

    def candidates(name):
        n = name.lower()
        if n in INT_PARAMS:
            return [0, 1, 2, 3]
        if n in {"angular_momentum"}:
            return [sp.Symbol("L"), 1]
        if n == "spin_magnitude":
            return [sp.Rational(1, 2), 1]
        if n in {"momentum", "p"}:
            return [FourMomentumSymbol("p0", shape=[])]
        if n in {"four_momenta", "momenta"}:
            return [momenta]
        if n == "topology":
            return [topology]
        if n == "transition":
            return [transition]
        if n in {"reaction", "obj"}:
            return [reaction]
        if n == "resonance":
            return [resonance]
        if n == "variable_pool":
            return [pool]
        if n in {"helicity_symbol", "m_prime", "symbol"}:
            return [sp.Symbol("lambda_0" if n != "m_prime" else "mp")]
        if n == "name":
            return ["A"]
        return [sp.Symbol(name)]

    outputs, called, skipped = [], [], {}
    mods = [importlib.import_module(m.name) for m in pkgutil.walk_packages(ampform.__path__, "ampform.")]
    callables = []
    for mod in sorted(mods, key=lambda m: m.__name__):
        if mod.__name__.startswith(SKIP_MODULES):
            continue
        for name, fn in sorted(vars(mod).items()):
            if inspect.isfunction(fn) and fn.__module__ == mod.__name__ and not name.startswith("_") and name not in SKIP_FUNCTIONS:
                callables.append((f"{mod.__name__}.{name}", fn))
    for ff, edw in itertools.product((False, True), repeat=2):
        callables.append((f"RelativisticBreitWignerBuilder(form_factor={ff}, energy_dependent_width={edw})",
                          RelativisticBreitWignerBuilder(form_factor=ff, energy_dependent_width=edw)))
    for label, fn in callables:
        try:
            params = [p for p in inspect.signature(fn).parameters.values()
                      if p.default is inspect.Parameter.empty and p.kind in (p.POSITIONAL_ONLY, p.POSITIONAL_OR_KEYWORD)]
        except (TypeError, ValueError):
            skipped[label] = "no signature"
            continue
        n_ok = 0
        last_err = ""
        for combo in itertools.islice(itertools.product(*[candidates(p.name) for p in params]), 40):
            try:
                value = fn(*combo)
            except Exception as e:  # noqa: BLE001
                last_err = f"{type(e).__name__}: {e}"[:120]
                continue
            exprs = _exprs_in(value)
            if not exprs:
                last_err = f"returns {type(value).__name__} without SymPy expressions"
                continue
            n_ok += 1
            arg_txt = ", ".join(str(c)[:20] if isinstance(c, (int, str, sp.Basic)) else type(c).__name__ for c in combo)
            for k, e in enumerate(exprs[:60]):
                outputs.append((f"{label}({arg_txt})[{k}]", e))
        if n_ok:
            called.append(f"{label} ({n_ok} argument tuples)")
        else:
            skipped[label] = last_err or "no admissible arguments"
    return outputs, {"called": called, "skipped": skipped}


def has_unevaluated_node(e) -> bool:
    """Does the expression contain an Add/Mul/Pow that SymPy would build differently (evaluate=False)?"""
    import sympy as sp

    for n in sp.preorder_traversal(e):
        if isinstance(n, (sp.Add, sp.Mul, sp.Pow)):
            try:
                if n.func(*n.args) != n:
                    return True
            except Exception:  # noqa: BLE001
                return True
    return False


def reevaluate(e):
    """The expression rebuilt bottom-up with the evaluating constructors."""
    if not e.args:
        return e
    return e.func(*[reevaluate(a) for a in e.args])
