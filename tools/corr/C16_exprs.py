"""Expression families for the C16 checks.

Groups of expressions that PRINT IDENTICALLY (same `str`, hence the same sha256 cache file name)
but are different expressions with different `doit()` results:

* real ampform classes differing only in a non-SymPy attribute (`EnergyDependentWidth` with four
  phase-space-factor classes) or only in symbol assumptions (`BreakupMomentumSquared`,
  `PhaseSpaceFactor`, `Kallen`, `BlattWeisskopfSquared` on `Symbol('x')` with different assumptions);
* `PickLarger`, an expression class defined HERE with ampform's own `@unevaluated` decorator, whose
  two instances have pickles of equal length and aligned layout (used to replay the model's
  two-writer hybrid on real bytes when the code writes straight to the final name).

The module must be importable by name in worker subprocesses (pickle stores the class by reference).
"""

from __future__ import annotations

from typing import Any

import sympy as sp


def _unevaluated():
    from ampform.sympy import unevaluated

    return unevaluated


def _make_pick_larger():
    unevaluated = _unevaluated()

    @unevaluated
    class PickLarger(sp.Expr):
        a: Any
        b: Any
        _latex_repr_ = R"\max\left({a}, {b}\right)"

        def evaluate(self) -> sp.Expr:
            return sp.Max(self.a, self.b)

    PickLarger.__module__ = __name__
    PickLarger.__qualname__ = "PickLarger"
    return PickLarger


PickLarger = _make_pick_larger()


def families() -> dict[str, list]:
    """name -> list of expressions that print identically (len >= 1)."""
    from ampform.dynamics import (
        BlattWeisskopfSquared,
        BreakupMomentumSquared,
        EnergyDependentWidth,
        PhaseSpaceFactor,
        PhaseSpaceFactorAbs,
        PhaseSpaceFactorComplex,
        PhaseSpaceFactorSWave,
    )
    from ampform.kinematics.phasespace import Kallen

    s, m0, w0, ma, mb, d = sp.symbols("s m0 Gamma0 m_a m_b d")
    x = sp.Symbol("x")
    xs = [x, sp.Symbol("x", positive=True), sp.Symbol("x", negative=True), sp.Symbol("x", real=True),
          sp.Symbol("x", integer=True)]
    xp, xn = sp.Symbol("x", positive=True), sp.Symbol("x", negative=True)
    yp, yn = sp.Symbol("y", positive=True), sp.Symbol("y", negative=True)
    fam = {
        "width_phsp": [
            EnergyDependentWidth(s, m0, w0, ma, mb, angular_momentum=1, meson_radius=d, phsp_factor=ph)
            for ph in (PhaseSpaceFactor, PhaseSpaceFactorSWave, PhaseSpaceFactorAbs, PhaseSpaceFactorComplex)
        ],
        "breakup_assumptions": [BreakupMomentumSquared(a, ma, mb) for a in xs],
        "phsp_assumptions": [PhaseSpaceFactor(a, ma, mb) for a in xs[:3]],
        "kallen_assumptions": [Kallen(a, ma, mb) for a in xs[:4]],
        "blatt_assumptions": [BlattWeisskopfSquared(a, angular_momentum=2) for a in xs[:3]],
        "pick_larger": [PickLarger(xp, yn), PickLarger(xn, yp)],
        "single_breakup": [BreakupMomentumSquared(s, m0, mb)],
        "single_kallen": [Kallen(s, m0, w0)],
    }
    # rare but legitimate shapes: names with path separators / newlines / unicode / huge str;
    # compound arguments; a non-SymPy `name` attribute (changes the printed form)
    odd = [sp.Symbol("a/b"), sp.Symbol("../../etc/passwd"), sp.Symbol("line1\nline2"), sp.Symbol("μ_ρ⁰ "), sp.Symbol("x" * 3000)]
    big = sp.Add(*[sp.Symbol(f"t{i}") ** (i % 5 + 1) for i in range(250)])
    fam["odd_names"] = [Kallen(odd[0], odd[1], odd[2]), BreakupMomentumSquared(odd[3], odd[4], odd[0] - odd[1] / 2)]
    fam["odd_names_assumptions"] = [Kallen(sp.Symbol("a/b\nc", **kw), ma, -(ma + mb) / 3) for kw in ({}, {"positive": True})]
    fam["huge_str"] = [Kallen(big, s, m0)]
    fam["width_named"] = [
        EnergyDependentWidth(s, m0, w0, ma, mb, angular_momentum=0, meson_radius=1, phsp_factor=ph, name="Γ/R\n")
        for ph in (PhaseSpaceFactor, PhaseSpaceFactorAbs)
    ]
    return fam


def unpicklable_expression():
    """An expression pickle cannot serialise (a class that pickle cannot find by reference)."""
    unevaluated = _unevaluated()

    @unevaluated
    class LocalOnly(sp.Expr):
        a: Any

        def evaluate(self) -> sp.Expr:
            return self.a**2 + 1

    return LocalOnly(sp.Symbol("x"))


def _sym_key(s):
    return (s.name, tuple(sorted((k, v) for k, v in s.assumptions0.items())))


def behaves_same(got, expected) -> str | None:
    """Beyond structural identity: the returned object must BEHAVE like `expr.doit()`.
    Returns None or the first difference found."""
    import pickle as _p

    if not deep_equal(got, expected):
        return "not structurally identical (types, args, symbol assumptions, non-SymPy attributes)"
    try:
        if sp.srepr(got) != sp.srepr(expected):
            return "srepr differs"
        if str(got) != str(expected):
            return "str differs"
        if hash(got) != hash(expected):
            return "hash differs"
        if sorted(map(_sym_key, got.free_symbols)) != sorted(map(_sym_key, expected.free_symbols)):
            return "free symbols (with assumptions) differ"
        if got.doit() != expected.doit() or not deep_equal(got.doit(), expected.doit()):
            return "unfolding the returned object again gives something else"
        syms = sorted(expected.free_symbols, key=lambda s: s.name)
        point = {s: sp.Rational(3 + 2 * i, 7 + i) for i, s in enumerate(syms)}
        if len(syms) <= 12 and got.xreplace(point) != expected.xreplace(point):
            return "value at a rational point differs"
        if got.subs(syms[0], sp.Symbol("zz_new")) != expected.subs(syms[0], sp.Symbol("zz_new")) if syms else False:
            return "subs behaves differently"
        if not deep_equal(_p.loads(_p.dumps(got)), expected):
            return "pickle round trip of the returned object differs"
    except Exception as ex:  # noqa: BLE001
        return f"using the returned object raised {type(ex).__name__}: {ex}"[:200]
    return None


def deep_equal(a, b) -> bool:
    """Structural identity that also looks at symbol assumptions and non-SymPy attributes."""
    if type(a) is not type(b):
        return False
    if isinstance(a, sp.Symbol):
        return a.name == b.name and a.assumptions0 == b.assumptions0
    if isinstance(a, sp.Basic):
        if a != b:
            return False
        if len(a.args) != len(b.args):
            return False
        if not all(deep_equal(x, y) for x, y in zip(a.args, b.args)):
            return False
        da = {k: v for k, v in getattr(a, "__dict__", {}).items() if not k.startswith("_")}
        db = {k: v for k, v in getattr(b, "__dict__", {}).items() if not k.startswith("_")}
        if da.keys() != db.keys():
            return False
        return all(deep_equal(da[k], db[k]) if isinstance(da[k], sp.Basic) else da[k] == db[k] for k in da)
    return a == b
