"""Expression families for the C16 checks.

Groups of expressions that PRINT IDENTICALLY (same `str`, hence the same sha256 cache file name)
but are different expressions with different `doit()` results:

* real ampform classes differing only in a non-SymPy attribute (`EnergyDependentWidth` with four
  phase-space-factor classes) or only in symbol assumptions (`BreakupMomentumSquared`,
  `PhaseSpaceFactor`, `Kallen`, `BlattWeisskopfSquared` on `Symbol('x')` with different assumptions);
* `PickLarger`, an expression class defined HERE with ampform's own `@unevaluated` decorator, whose
  two instances have pickles of equal length and aligned layout (used to replay the model's
  two-writer hybrid on real bytes when the code writes straight to the final name).

* FUNCTION-VALUED attributes (`callable_families`): `EnergyDependentWidth(..., phsp_factor=f)` and
  `ApplyRule(x, rule=f)` (defined here) where `f` is a bound method of different instances of one
  class, a classmethod bound to different subclasses, a `functools.partial`, a callable instance,
  a module-level function: all print identically; whether they are `==` / hash alike is decided by
  the decorator's `_get_hashable_object`, i.e. by the code under test.  Lambdas of one scope and
  closures of one factory (`unpicklable_callable_families`: pickle cannot store them, so only the
  key-equality obligation speaks about them) and classes of one qualified name
  (`known_confusion_families`: the unchanged library DOES identify them — known finding, C10).

The module must be importable by name in worker subprocesses (pickle stores the class by reference).
"""

from __future__ import annotations

from typing import Any

import sympy as sp


def _unevaluated():
    from ampform.sympy import unevaluated

    return unevaluated


def _make_pick_larger():
    unevaluated = _unevaluated()

    @unevaluated
    class PickLarger(sp.Expr):
        a: Any
        b: Any
        _latex_repr_ = R"\max\left({a}, {b}\right)"

        def evaluate(self) -> sp.Expr:
            return sp.Max(self.a, self.b)

    PickLarger.__module__ = __name__
    PickLarger.__qualname__ = "PickLarger"
    return PickLarger


PickLarger = _make_pick_larger()


class PhspConvention:
    """User-side configuration object: which phase-space convention an analysis uses.  Its bound
    method `factor`, the instance itself (`__call__`) and the classmethod `rho` are all legitimate
    `phsp_factor` arguments (any callable (s, m_a, m_b) -> Expr)."""

    KINDS = ("PhaseSpaceFactor", "PhaseSpaceFactorAbs", "PhaseSpaceFactorComplex", "PhaseSpaceFactorSWave")
    kind_of_class = "PhaseSpaceFactor"

    def __init__(self, kind: str) -> None:
        self.kind = kind

    def factor(self, s, m_a, m_b):
        import ampform.dynamics as dyn

        return getattr(dyn, self.kind)(s, m_a, m_b)

    __call__ = factor

    @classmethod
    def rho(cls, s, m_a, m_b):
        import ampform.dynamics as dyn

        return getattr(dyn, cls.kind_of_class)(s, m_a, m_b)


class PhspConventionAbs(PhspConvention):
    kind_of_class = "PhaseSpaceFactorAbs"


class PhspConventionComplex(PhspConvention):
    kind_of_class = "PhaseSpaceFactorComplex"


def phsp_by_kind(s, m_a, m_b, kind="PhaseSpaceFactor"):
    import ampform.dynamics as dyn

    return getattr(dyn, kind)(s, m_a, m_b)


def phsp_abs(s, m_a, m_b):
    return phsp_by_kind(s, m_a, m_b, "PhaseSpaceFactorAbs")


def phsp_complex(s, m_a, m_b):
    return phsp_by_kind(s, m_a, m_b, "PhaseSpaceFactorComplex")


class PowerRule:
    """callable configuration object for ApplyRule"""

    def __init__(self, n: int) -> None:
        self.n = n

    def __call__(self, x):
        return sp.sqrt(x) ** self.n + self.n

    def shifted(self, x):
        return (x + self.n) ** 2


def power_rule(x, n=2):
    return PowerRule(n)(x)


def _make_apply_rule():
    from ampform.sympy import argument

    unevaluated = _unevaluated()

    @unevaluated
    class ApplyRule(sp.Expr):
        x: Any
        rule: Any = argument(sympify=False)
        _latex_repr_ = R"R\left({x}\right)"

        def evaluate(self) -> sp.Expr:
            return self.rule(self.x)

    ApplyRule.__module__ = __name__
    ApplyRule.__qualname__ = "ApplyRule"
    return ApplyRule


ApplyRule = _make_apply_rule()


def _width(ph, **kw):
    from ampform.dynamics import EnergyDependentWidth

    s, m0, w0, ma, mb, d = sp.symbols("s m0 Gamma0 m_a m_b d", nonnegative=True)
    return EnergyDependentWidth(s, m0, w0, ma, mb, angular_momentum=1, meson_radius=d, phsp_factor=ph, **kw)


def callable_families() -> dict[str, list]:
    """Expressions that differ ONLY in a function-valued, non-sympified attribute (different
    `doit()`), print identically, and can be pickled.  New instances on every call (as a later
    process would build them)."""
    import functools

    kinds = PhspConvention.KINDS[1:3]
    y = sp.Symbol("y", positive=True)
    return {
        "width_bound_methods": [_width(PhspConvention(k).factor) for k in PhspConvention.KINDS[:3]],
        "width_classmethods": [_width(c.rho) for c in (PhspConventionAbs, PhspConventionComplex, PhspConvention)],
        "width_partials": [_width(functools.partial(phsp_by_kind, kind=k)) for k in kinds],
        "width_callable_instances": [_width(PhspConvention(k)) for k in kinds],
        "width_functions": [_width(f) for f in (phsp_abs, phsp_complex)],
        "width_named_bound_methods": [_width(PhspConvention(k).factor, name="Γ(s)") for k in kinds],
        "rule_bound_methods": [ApplyRule(y, PowerRule(n).shifted) for n in (1, 2, 3)],
        "rule_callables": [ApplyRule(y, PowerRule(2)), ApplyRule(y, PowerRule(4)),
                           ApplyRule(y, functools.partial(power_rule, n=2)), ApplyRule(y, functools.partial(power_rule, n=4))],
    }


def unpicklable_callable_families() -> dict[str, list]:
    """Lambdas of one scope, closures of one factory: same module and qualified name, different
    behaviour.  pickle cannot store them (perform_cached_doit raises: recorded observation), so
    they enter the key-equality obligation only."""
    def factory(kind):
        def rho(s, m_a, m_b):
            return phsp_by_kind(s, m_a, m_b, kind)
        return rho

    lams = [lambda s, a, b: phsp_by_kind(s, a, b, "PhaseSpaceFactorAbs"),  # noqa: E731
            lambda s, a, b: phsp_by_kind(s, a, b, "PhaseSpaceFactorComplex")]  # noqa: E731
    y = sp.Symbol("y", positive=True)
    return {
        "width_lambdas": [_width(f) for f in lams],
        "width_closures": [_width(factory(k)) for k in PhspConvention.KINDS[1:3]],
        "rule_lambdas": [ApplyRule(y, lambda x: x + 1), ApplyRule(y, lambda x: x + 2)],
    }


def known_confusion_families() -> dict[str, list]:
    """Two CLASSES of one module.qualname with different bodies: the unchanged library represents a
    class by its qualified name, so these ARE `==` (known finding listed for C10).  Observation only."""
    def make(kind):
        class Rho:
            def __new__(cls, s, m_a, m_b):
                return phsp_by_kind(s, m_a, m_b, kind)
        return Rho

    return {"width_same_qualname_classes": [_width(make(k)) for k in PhspConvention.KINDS[1:3]]}


def families() -> dict[str, list]:
    """name -> list of expressions that print identically (len >= 1)."""
    fam = _base_families()
    fam.update(callable_families())
    return fam


def _base_families() -> dict[str, list]:
    from ampform.dynamics import (
        BlattWeisskopfSquared,
        BreakupMomentumSquared,
        EnergyDependentWidth,
        PhaseSpaceFactor,
        PhaseSpaceFactorAbs,
        PhaseSpaceFactorComplex,
        PhaseSpaceFactorSWave,
    )
    from ampform.kinematics.phasespace import Kallen

    s, m0, w0, ma, mb, d = sp.symbols("s m0 Gamma0 m_a m_b d")
    x = sp.Symbol("x")
    xs = [x, sp.Symbol("x", positive=True), sp.Symbol("x", negative=True), sp.Symbol("x", real=True),
          sp.Symbol("x", integer=True)]
    xp, xn = sp.Symbol("x", positive=True), sp.Symbol("x", negative=True)
    yp, yn = sp.Symbol("y", positive=True), sp.Symbol("y", negative=True)
    fam = {
        "width_phsp": [
            EnergyDependentWidth(s, m0, w0, ma, mb, angular_momentum=1, meson_radius=d, phsp_factor=ph)
            for ph in (PhaseSpaceFactor, PhaseSpaceFactorSWave, PhaseSpaceFactorAbs, PhaseSpaceFactorComplex)
        ],
        "breakup_assumptions": [BreakupMomentumSquared(a, ma, mb) for a in xs],
        "phsp_assumptions": [PhaseSpaceFactor(a, ma, mb) for a in xs[:3]],
        "kallen_assumptions": [Kallen(a, ma, mb) for a in xs[:4]],
        "blatt_assumptions": [BlattWeisskopfSquared(a, angular_momentum=2) for a in xs[:3]],
        "pick_larger": [PickLarger(xp, yn), PickLarger(xn, yp)],
        "single_breakup": [BreakupMomentumSquared(s, m0, mb)],
        "single_kallen": [Kallen(s, m0, w0)],
    }
    # rare but legitimate shapes: names with path separators / newlines / unicode / huge str;
    # compound arguments; a non-SymPy `name` attribute (changes the printed form)
    odd = [sp.Symbol("a/b"), sp.Symbol("../../etc/passwd"), sp.Symbol("line1\nline2"), sp.Symbol("μ_ρ⁰ "), sp.Symbol("x" * 3000)]
    big = sp.Add(*[sp.Symbol(f"t{i}") ** (i % 5 + 1) for i in range(250)])
    fam["odd_names"] = [Kallen(odd[0], odd[1], odd[2]), BreakupMomentumSquared(odd[3], odd[4], odd[0] - odd[1] / 2)]
    fam["odd_names_assumptions"] = [Kallen(sp.Symbol("a/b\nc", **kw), ma, -(ma + mb) / 3) for kw in ({}, {"positive": True})]
    fam["huge_str"] = [Kallen(big, s, m0)]
    fam["width_named"] = [
        EnergyDependentWidth(s, m0, w0, ma, mb, angular_momentum=0, meson_radius=1, phsp_factor=ph, name="Γ/R\n")
        for ph in (PhaseSpaceFactor, PhaseSpaceFactorAbs)
    ]
    return fam


def unpicklable_expression():
    """An expression pickle cannot serialise (a class that pickle cannot find by reference)."""
    unevaluated = _unevaluated()

    @unevaluated
    class LocalOnly(sp.Expr):
        a: Any

        def evaluate(self) -> sp.Expr:
            return self.a**2 + 1

    return LocalOnly(sp.Symbol("x"))


def _sym_key(s):
    return (s.name, tuple(sorted((k, v) for k, v in s.assumptions0.items())))


def behaves_same(got, expected) -> str | None:
    """Beyond structural identity: the returned object must BEHAVE like `expr.doit()`.
    Returns None or the first difference found."""
    import pickle as _p

    if not deep_equal(got, expected):
        return "not structurally identical (types, args, symbol assumptions, non-SymPy attributes)"
    try:
        if sp.srepr(got) != sp.srepr(expected):
            return "srepr differs"
        if str(got) != str(expected):
            return "str differs"
        if hash(got) != hash(expected):
            return "hash differs"
        if sorted(map(_sym_key, got.free_symbols)) != sorted(map(_sym_key, expected.free_symbols)):
            return "free symbols (with assumptions) differ"
        if got.doit() != expected.doit() or not deep_equal(got.doit(), expected.doit()):
            return "unfolding the returned object again gives something else"
        syms = sorted(expected.free_symbols, key=lambda s: s.name)
        point = {s: sp.Rational(3 + 2 * i, 7 + i) for i, s in enumerate(syms)}
        if len(syms) <= 12 and got.xreplace(point) != expected.xreplace(point):
            return "value at a rational point differs"
        if got.subs(syms[0], sp.Symbol("zz_new")) != expected.subs(syms[0], sp.Symbol("zz_new")) if syms else False:
            return "subs behaves differently"
        if not deep_equal(_p.loads(_p.dumps(got)), expected):
            return "pickle round trip of the returned object differs"
    except Exception as ex:  # noqa: BLE001
        return f"using the returned object raised {type(ex).__name__}: {ex}"[:200]
    return None


def deep_equal(a, b) -> bool:
    """Structural identity that also looks at symbol assumptions and non-SymPy attributes."""
    if type(a) is not type(b):
        return False
    if isinstance(a, sp.Symbol):
        return a.name == b.name and a.assumptions0 == b.assumptions0
    if isinstance(a, sp.Basic):
        # `==` of an @unevaluated expression is decided by the decorator's _hashable_content (the code
        # under test) and is False for a bound method / configuration object that went through pickle:
        # for those classes the verdict is structural (args + attributes below), not `==`.
        if a != b and not hasattr(type(a), "__dataclass_fields__"):
            return False
        if len(a.args) != len(b.args):
            return False
        if not all(deep_equal(x, y) for x, y in zip(a.args, b.args)):
            return False
        da = {k: v for k, v in getattr(a, "__dict__", {}).items() if not k.startswith("_")}
        db = {k: v for k, v in getattr(b, "__dict__", {}).items() if not k.startswith("_")}
        if da.keys() != db.keys():
            return False
        return all(deep_equal(da[k], db[k]) if isinstance(da[k], sp.Basic) else same_plain(da[k], db[k]) for k in da)
    return a == b


def same_plain(a, b, depth: int = 0) -> bool:
    """Identity of two non-SymPy attribute values judged by STRUCTURE, independently of the
    decorator's `_get_hashable_object` and of `==`/`hash` of the objects (a bound method or a
    configuration object that went through pickle is a new object, `==` says False): classes and
    plain functions by identity; bound methods by function + state of `__self__`; partial objects
    by func/args/keywords; other instances by type + `__dict__`."""
    import functools
    import inspect
    import types

    if a is b:
        return True
    if type(a) is not type(b) or depth > 6:
        return False
    if isinstance(a, sp.Basic):
        return deep_equal(a, b)
    if inspect.isclass(a) or isinstance(a, (types.FunctionType, types.BuiltinFunctionType)):
        return False  # identity was checked above
    if isinstance(a, types.MethodType):
        return a.__func__ is b.__func__ and same_plain(a.__self__, b.__self__, depth + 1)
    if isinstance(a, functools.partial):
        return (same_plain(a.func, b.func, depth + 1) and same_plain(a.args, b.args, depth + 1)
                and same_plain(a.keywords, b.keywords, depth + 1))
    if isinstance(a, (tuple, list)):
        return len(a) == len(b) and all(same_plain(x, y, depth + 1) for x, y in zip(a, b))
    if isinstance(a, dict):
        return a.keys() == b.keys() and all(same_plain(a[k], b[k], depth + 1) for k in a)
    if isinstance(a, (str, bytes, int, float, complex, bool, type(None))):
        return a == b
    if hasattr(a, "__dict__") and type(a).__eq__ is object.__eq__:
        return same_plain(vars(a), vars(b), depth + 1)
    return a == b
