"""C17 — child process of the hash-seed sweep (HARDENING rule 6).

Run with a given PYTHONHASHSEED; applies a fixed, seed-derived list of rename maps to corpus and synthetic
models and prints one JSON object: the iteration order of the collected symbol set actually observed (to prove
the sweep saw really different orders) and one digest per case of the complete result — including the situations
that depended on the set order before c9b6eb9 (findings F1/F2: two unrenamed symbols share a target name; sources
with different assumptions under one fresh name).
"""
import hashlib
import json
import logging
import sys
from pathlib import Path

ROOT = Path(__file__).resolve().parents[2]
sys.path.insert(0, str(ROOT))

from tools.lib import common  # noqa: E402


def canon(m) -> str:
    import sympy as sp

    def sym(s):
        return f"{s.name}|{sorted(s.assumptions0.items())}" if isinstance(s, sp.Symbol) else sp.srepr(s)

    memo = {}

    def ex(e):
        """order-insensitive structural print: SymPy orders equal-named symbols inside Add/Mul by hash"""
        if e in memo:
            return memo[e]
        if isinstance(e, sp.Symbol):
            out = "S(" + sym(e) + ")"
        elif not e.args:
            out = sp.srepr(e)
        else:
            parts = [ex(a) for a in e.args]
            if isinstance(e, (sp.Add, sp.Mul)):
                parts.sort()
            out = type(e).__name__ + "(" + ",".join(parts) + ")"
        memo[e] = out
        return out

    parts = [ex(m.intensity)]
    parts += [f"{ex(k)}={ex(v)}" for k, v in m.amplitudes.items()]
    parts += [f"{sym(k)}={type(v).__name__}:{v!r}" for k, v in m.parameter_defaults.items()]
    parts += [f"{sym(k)}={ex(v)}" for k, v in m.kinematic_variables.items()]
    parts += [f"{k}={ex(v)}" for k, v in m.components.items()]
    return hashlib.sha256("\n".join(parts).encode()).hexdigest()[:16]


def main():
    seed, n_synth = int(sys.argv[1]), int(sys.argv[2])
    common.use_repo_source()
    logging.getLogger("ampform.helicity").setLevel(logging.ERROR)
    import sympy as sp

    from tools.corr import C17_corr as corr
    from tools.search import C17_oracle as oracle

    rng = common.rng_for("C17", seed, "hashsweep")
    models = corr.load_real_models(only=("jpsi_gpp_can/bw_ff+stable12", "lc_pkpi_hel/dpd+stable123+scalar", "jpsi_3pi_hel/axisangle"))
    reaction = corr.load_reaction("d0_kkk_can")
    models += [(f"synthetic#{i}", corr.synthetic_model(rng, reaction, i)) for i in range(n_synth)]
    orders, cases = [], []
    for label, m in models:
        collect = getattr(m, "_HelicityModel__collect_symbols", None)
        if collect is not None:
            orders.append([s.name for s in collect()][:12])
        info = corr.model_info(m)
        for kind in corr.KINDS:
            ren = corr.gen_map(rng, info, kind)
            rd = dict(ren)
            if oracle.mixes_commutativity(m, rd):  # outside the domain (SymPy's Abs does not terminate); same in every child
                continue
            r = m.rename_symbols(ren)
            cases.append({"model": label, "renames": list(rd.items()), "digest": canon(r)})
            # a second rename on the result (history)
            ren2 = corr.gen_map(rng, corr.model_info(r), "mixed")
            rd2 = dict(ren2)
            if oracle.mixes_commutativity(r, rd2):
                continue
            cases.append({"model": label + " after " + json.dumps(list(rd.items())), "renames": list(rd2.items()),
                          "digest": canon(r.rename_symbols(ren2))})
    # F2: two unrenamed symbols share the target name
    from ampform.helicity import HelicityModel
    from ampform.kinematics.lorentz import InvariantMass, create_four_momentum_symbol
    from ampform.sympy import PoolSum

    A = sp.IndexedBase("A", complex=True)
    lam = sp.Symbol("m_A", rational=True)
    a1, a2, c, x = sp.Symbol("a", real=True), sp.Symbol("a", positive=True), sp.Symbol("c"), sp.Symbol("x", real=True)
    m = HelicityModel(intensity=PoolSum(sp.Abs(A[lam]) ** 2, (lam, (0, 1))), amplitudes={A[0]: a1 * x + c, A[1]: a2 * x},
                      parameter_defaults={a1: 1.0, a2: 2.0, c: 3.0}, kinematic_variables={x: InvariantMass(create_four_momentum_symbol(0))},
                      components={}, reaction_info=reaction)
    r = m.rename_symbols({"c": "a"})
    f2 = [repr(v) for v in r.parameter_defaults.values()]
    cases.append({"model": "F2 model: a (real), a (positive), c; tools/corr/C17_hashprobe.py", "renames": [["c", "a"]], "digest": canon(r)})
    r = m.rename_symbols({"a": "z", "c": "z"})  # three sources with three assumption sets under one fresh name
    cases.append({"model": "F2 model: a (real), a (positive), c; tools/corr/C17_hashprobe.py", "renames": [["a", "z"], ["c", "z"]], "digest": canon(r)})
    print(json.dumps({"orders": orders, "cases": cases, "f2": f2}))


if __name__ == "__main__":
    main()
