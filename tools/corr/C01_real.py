"""C01 correspondence harness: real ampform in-process <-> Lean model (Ampverif/Drivers/C01.lean).

* `encode_case(variant, reaction, cfg)` -> one protocol line for the Lean driver;
* `real_answer(reaction, cfg)` -> the same canonical dictionary extracted from the real
  `HelicityModel` (or the exception class the real code raised);
* `oracle(model)` -> the statement of C01 evaluated directly on a real model;
* generators for synthetic `ReactionInfo`s (built from qrules dataclasses) and configurations.

Executed, not modelled (DESIGN 2.8): qrules' identical-particle combinatorics (the `chains`
handed to the model come from qrules directly, not through ampform), SymPy `free_symbols`,
iteration order of small-int sets.
"""

from __future__ import annotations

import itertools
import logging
from fractions import Fraction
from pathlib import Path

from tools.lib import common

CORPUS = common.ROOT / "corpus" / "C01"
KINDS = ["nd", "bw", "bwff", "ff", "custom"]


# --------------------------------------------------------------------------- encoding


def enc_name(s: str) -> str:
    return "e" if not s else ".".join(str(ord(c)) for c in s)


def dec_name(t: str) -> str:
    return "" if t == "e" else "".join(chr(int(x)) for x in t.split("."))


def tree_tokens(topology, edge_id=None) -> list[str]:
    if edge_id is None:
        (edge_id,) = tuple(topology.incoming_edge_ids)
    edge = topology.edges[edge_id]
    if edge.ending_node_id is None:
        return ["L", str(edge_id)]
    kids = sorted(topology.get_edge_ids_outgoing_from_node(edge.ending_node_id))
    if len(kids) != 2:
        msg = "not an isobar topology"
        raise ValueError(msg)
    return ["N", str(edge_id), str(edge.ending_node_id), *tree_tokens(topology, kids[0]), *tree_tokens(topology, kids[1])]


def chains_of(transition):
    """qrules' identical-particle combinatorics, called directly (not through ampform)."""
    from qrules.combinatorics import perform_external_edge_identical_particle_combinatorics
    from qrules.transition import State

    graph = transition.convert(lambda s: (s.particle, s.spin_projection)).unfreeze()
    combos = perform_external_edge_identical_particle_combinatorics(graph)
    return [g.freeze().convert(lambda s: State(*s)) for g in combos]


def two(x) -> int:
    v = Fraction(x) * 2
    if v.denominator != 1:
        msg = f"not a half-integer: {x}"
        raise ValueError(msg)
    return int(v)


class Tables:
    """Particle and topology tables of one reaction (indices used on the wire)."""

    def __init__(self, reaction):
        self.particles: list = []
        self.pidx: dict[str, int] = {}
        self.topologies: list = []
        self.chains: dict[int, list] = {}
        for k, t in enumerate(reaction.transitions):
            self.chains[k] = chains_of(t)
            for tr in [t, *self.chains[k]]:
                if tr.topology not in self.topologies:
                    self.topologies.append(tr.topology)
                for s in tr.states.values():
                    if s.particle.name not in self.pidx:
                        self.pidx[s.particle.name] = len(self.particles)
                        self.particles.append(s.particle)

    def tidx(self, topology) -> int:
        return self.topologies.index(topology)


def variant_tokens(variant: dict) -> list[str]:
    return ["V", variant["zeroDefs"], str(int(variant["regCombTopos"])), str(int(variant["selCoversComb"])),
            str(int(variant.get("perChainSyms", True)))]


def reaction_tokens(reaction, tb: Tables) -> list[str]:
    """`F <h|c> P … T … R …` : the reaction block shared by the C01 and C13 drivers."""
    out = ["F", "c" if reaction.formalism in {"canonical-helicity", "canonical"} else "h"]
    out += ["P", str(len(tb.particles))]
    for p in tb.particles:
        out += [enc_name(p.name), "-" if p.latex is None else enc_name(p.latex), str(two(p.spin)), "1" if p.mass == 0.0 else "0"]
    out += ["T", str(len(tb.topologies))]
    for tp in tb.topologies:
        out += tree_tokens(tp)

    def states_tokens(tr):
        toks = [str(len(tr.states))]
        for e in sorted(tr.states):
            s = tr.states[e]
            toks += [str(e), str(tb.pidx[s.particle.name]), str(two(s.spin_projection))]
        return toks

    out += ["R", str(len(reaction.transitions))]
    for k, t in enumerate(reaction.transitions):
        out += [str(tb.tidx(t.topology)), *states_tokens(t)]
        out += [str(len(t.interactions))]
        for n in sorted(t.interactions):
            i = t.interactions[n]
            pf = i.parity_prefactor
            out += [
                str(n),
                "-" if i.l_magnitude is None else str(int(i.l_magnitude)),
                "-" if i.s_magnitude is None else str(two(i.s_magnitude)),
                "-" if pf is None else str(int(pf)),
            ]
        out += [str(len(tb.chains[k]))]
        for ch in tb.chains[k]:
            out += [str(tb.tidx(ch.topology)), *states_tokens(ch)]
    return out


def encode_case(variant: dict, reaction, cfg: dict, tables: Tables | None = None) -> str:
    tb = tables or Tables(reaction)
    out = ["case", *variant_tokens(variant), *reaction_tokens(reaction, tb)]
    out += ["G", cfg["align"]]
    if cfg["stable"] is None:
        out += ["-"]
    else:
        out += [str(len(cfg["stable"])), *[str(i) for i in cfg["stable"]]]
    out += [str(int(cfg[k])) for k in ("scalar", "hc", "parent", "child", "ls")]
    out += [str(len(cfg["dyn"]))]
    for name, kind in cfg["dyn"]:
        out += [str(tb.pidx[name]), kind]
    out += [str(int(cfg.get("perm", False)))]
    return " ".join(out)


# --------------------------------------------------------------------------- parsing Lean replies


def parse_reply(line: str) -> dict:
    line = line.strip()
    if line.startswith("error "):
        return {"error": line.split()[1]}
    if not line.startswith("ok "):
        return {"bad": line[:400]}
    res: dict = {}
    for part in line[3:].split(" "):
        k, _, v = part.partition("=")
        items = [] if v == "-" else v.split(",")
        if k in {"defs", "zero", "refs", "undefined"}:
            res[k] = sorted({_dec_key(x) for x in items})
        elif k == "kin":
            d = {}
            for x in items:
                name, _, deps = x.partition("<")
                d[dec_name(name)] = sorted({dec_name(y) for y in deps.split("+") if y})
            res[k] = dict(sorted(d.items()))
        else:
            res[k] = sorted({dec_name(x) for x in items})
    return res


def _dec_key(x: str):
    base, _, idx = x.partition(":")
    return (dec_name(base), tuple(int(i) for i in idx.split("_")) if idx else ())


# --------------------------------------------------------------------------- the real side


def custom_builder(resonance, variable_pool):
    """A user-defined lineshape: a marker function of the whole variable set times a parameter."""
    import sympy as sp

    ident = resonance.latex or resonance.name
    par = sp.Symbol(f"c_{{{ident}}}")
    f = sp.Function("CustomDynamics")
    v = variable_pool
    return par * f(v.incoming_state_mass, v.outgoing_state_mass1, v.outgoing_state_mass2, v.helicity_phi, v.helicity_theta), {par: 1.0}


def colliding_builder(resonance, variable_pool):
    """A user builder whose parameter is NAMED like a kinematic variable of its node (a different symbol: no
    assumptions). Symbol closure must hold symbol by symbol."""
    import sympy as sp

    v = variable_pool
    par = sp.Symbol(v.incoming_state_mass.name)  # same name, different assumptions
    return par * v.incoming_state_mass + v.helicity_theta, {par: 1.5}


def builders():
    from ampform.dynamics import builder as bld

    return {
        "nd": bld.create_non_dynamic,
        "bw": bld.create_relativistic_breit_wigner,
        "bwff": bld.create_relativistic_breit_wigner_with_ff,
        "ff": bld.create_non_dynamic_with_ff,
        "custom": custom_builder,
    }


def new_builder(reaction):
    from ampform.helicity import CanonicalAmplitudeBuilder, HelicityAmplitudeBuilder

    canonical = reaction.formalism in {"canonical-helicity", "canonical"}
    return (CanonicalAmplitudeBuilder if canonical else HelicityAmplitudeBuilder)(reaction)


def apply_config(b, reaction, cfg: dict, permuted_before: bool = False):
    """Set every configuration item of `cfg` on an EXISTING builder (dynamics assignments accumulate)."""
    from ampform.helicity.align import NoAlignment
    from ampform.helicity.align.axisangle import AxisAngleAlignment
    from ampform.helicity.align.dpd import DalitzPlotDecomposition

    canonical = reaction.formalism in {"canonical-helicity", "canonical"}
    if cfg["align"] == "a":
        b.config.spin_alignment = AxisAngleAlignment()
    elif cfg["align"].startswith("d"):
        b.config.spin_alignment = DalitzPlotDecomposition(reference_subsystem=int(cfg["align"][1]))
    else:
        b.config.spin_alignment = NoAlignment()
    b.config.stable_final_state_ids = cfg["stable"]
    b.config.scalar_initial_state_mass = cfg["scalar"]
    b.config.use_helicity_couplings = cfg["hc"]
    b.naming.insert_parent_helicities = cfg["parent"]
    b.naming.insert_child_helicities = cfg["child"]
    if canonical:
        b.naming.insert_ls_combinations = cfg["ls"]
    table = builders()
    for name, kind in cfg["dyn"]:
        b.dynamics.assign(name, table[kind])
    if cfg.get("perm", False) and not permuted_before:
        b.adapter.permutate_registered_topologies()
    return b


def make_builder(reaction, cfg: dict):
    return apply_config(new_builder(reaction), reaction, cfg)


def real_history(reaction, cfgs: list[dict]):
    """Drive ONE builder through a sequence of configurations; returns the extracted answer of every formulate()
    together with the EFFECTIVE configuration (dynamics accumulate, permuted topologies stay registered) and the
    oracle failures of every model."""
    lvl = logging.root.manager.disable
    logging.disable(logging.WARNING)
    out = []
    try:
        b = new_builder(reaction)
        dyn: list = []
        perm = False
        for cfg in cfgs:
            eff = {**cfg, "dyn": [*dyn, *cfg["dyn"]], "perm": perm or cfg.get("perm", False)}
            try:
                apply_config(b, reaction, cfg, permuted_before=perm)
                dyn, perm = eff["dyn"], eff["perm"]
                model = b.formulate()
                out.append((eff, extract(model), oracle(model)))
            except ERRS as e:
                dyn, perm = eff["dyn"], eff["perm"]
                out.append((eff, {"error": type(e).__name__}, []))
        return out
    finally:
        logging.disable(lvl)


def roundtrip_checks(model) -> list[dict]:
    """Rule 8: symbol closure still holds after a pickle round trip and after rename_symbols (fresh names)."""
    import pickle

    bad = []
    ref = extract(model)
    try:
        m2 = pickle.loads(pickle.dumps(model))
    except Exception as e:  # noqa: BLE001
        return [{"what": "pickle round trip of the model raised", "error": type(e).__name__ + ": " + str(e)[:200]}]
    if extract(m2) != ref:
        bad.append({"what": "symbol sets differ after a pickle round trip"})
    bad += [{**f, "what": f["what"] + " (after pickle round trip)"} for f in oracle(m2)]
    pars = [p.name for p in model.parameter_defaults if hasattr(p, "name")]
    kins = [k.name for k in model.kinematic_variables]
    renames = {}
    if pars:
        renames[pars[0]] = pars[0] + "_renamed"
    if kins:
        renames[kins[-1]] = kins[-1] + "_renamed"
    if renames:
        m3 = model.rename_symbols(renames)
        bad += [{**f, "what": f["what"] + " (after rename_symbols)", "renames": renames} for f in oracle(m3)]
        e3 = extract(m3)
        inv = {v: k for k, v in renames.items()}
        back = lambda n: inv.get(n, n)  # noqa: E731
        mapped = {
            "params": sorted(back(n) for n in e3["params"]),
            "free": sorted(back(n) for n in e3["free"]),
            "kin": dict(sorted((back(k), sorted(back(d) for d in v)) for k, v in e3["kin"].items())),
        }
        for key in mapped:
            if mapped[key] != ref[key]:
                bad.append({"what": f"{key} of the renamed model is not the renamed {key} of the model", "renames": renames})
    return bad


def unfold(expr):
    """Write out every PoolSum (own loop; does not use ampform's private helper)."""
    import sympy as sp

    from ampform.sympy import PoolSum

    new = expr.evaluate() if isinstance(expr, PoolSum) else expr
    for _ in range(8):
        sums = [n for n in sp.preorder_traversal(new) if isinstance(n, PoolSum)]
        if not sums:
            return new
        new = new.xreplace({n: n.evaluate() for n in sums})
    return new


def amp_key(sym):
    return (str(sym.base), tuple(two(Fraction(int(i.p), int(i.q))) for i in sym.indices))


def is_momentum(s) -> bool:
    import re

    return type(s).__name__ in {"FourMomentumSymbol", "ArraySymbol"} or re.fullmatch(r"p\d+", str(s)) is not None


def extract(model) -> dict:
    import sympy as sp

    defs = sorted({amp_key(a) for a in model.amplitudes})
    zero = sorted({amp_key(a) for a, e in model.amplitudes.items() if e == 0})
    refs_syms = unfold(model.intensity).atoms(sp.Indexed)
    refs = sorted({amp_key(a) for a in refs_syms})
    expr = model.expression
    free = set()
    undefined = set()
    labels = {a.base.label for a in refs_syms}
    for s in expr.free_symbols:
        if isinstance(s, sp.Indexed):
            undefined.add(amp_key(s))
        elif s in labels:
            continue
        else:
            free.add(s.name)
    pars = sorted({getattr(p, "name", str(p)) for p in model.parameter_defaults})
    kin = {}
    for k, e in model.kinematic_variables.items():
        kin[k.name] = sorted({s.name for s in e.free_symbols if not is_momentum(s)})
    return {
        "defs": defs, "zero": zero, "refs": refs, "undefined": sorted(undefined),
        "params": pars, "kin": dict(sorted(kin.items())), "free": sorted(free),
    }


ERRS = (ValueError, KeyError, TypeError, NotImplementedError)


def real_answer(reaction, cfg: dict):
    """(canonical dict | {'error': cls}, model | None)"""
    lvl = logging.root.manager.disable
    logging.disable(logging.WARNING)
    try:
        try:
            model = make_builder(reaction, cfg).formulate()
        except ERRS as e:
            return {"error": type(e).__name__}, None
        return extract(model), model
    finally:
        logging.disable(lvl)


def oracle(model) -> list[dict]:
    """The statement of C01 on a real model; returns the list of failures (empty = holds)."""
    import sympy as sp

    bad = []
    pars = set(model.parameter_defaults)
    kin = set(model.kinematic_variables)
    for s in model.expression.free_symbols:
        in_p, in_k = s in pars, s in kin
        if in_p == in_k:
            bad.append({"what": "free symbol of expression is in " + ("both" if in_p else "neither"),
                        "symbol": str(s), "kind": type(s).__name__})
    refs = unfold(model.intensity).atoms(sp.Indexed)
    for a in refs:
        if a not in model.amplitudes:
            bad.append({"what": "amplitude symbol without definition", "symbol": str(a)})
    for k, e in model.kinematic_variables.items():
        for s in e.free_symbols:
            if s in pars or is_momentum(s):
                continue
            bad.append({"what": "kinematic variable depends on a non-momentum, non-parameter symbol",
                        "variable": str(k), "symbol": str(s)})
    return bad


# --------------------------------------------------------------------------- inputs


def load_corpus() -> dict:
    import qrules.io

    return {p.stem: qrules.io.load(str(p)) for p in sorted(CORPUS.glob("*.json"))}


def relabel_for_dpd(reaction):
    from ampform.helicity.align.dpd import relabel_edge_ids

    return relabel_edge_ids(reaction)


def restrict(reaction, state_id: int, projections):
    """Partial helicity set: keep the transitions whose outer state has one of the projections."""
    from qrules.transition import ReactionInfo

    keep = [t for t in reaction.transitions if t.states[state_id].spin_projection in projections]
    return ReactionInfo(keep, reaction.formalism) if keep else reaction


def spin_range(spin: Fraction) -> list[Fraction]:
    out, m = [], -spin
    while m <= spin:
        out.append(m)
        m += 1
    return out


def synthetic_reaction(rng, max_transitions: int = 14, nfs: int | None = None, max_spin2: int = 4):
    """A ReactionInfo built directly from qrules dataclasses (no physics constraints)."""
    from qrules.particle import Particle
    from qrules.quantum_numbers import InteractionProperties
    from qrules.topology import FrozenTransition, create_isobar_topologies
    from qrules.transition import ReactionInfo, State

    nfs = nfs or rng.choice([2, 2, 3, 3, 3, 4])
    canonical = rng.random() < 0.3
    # spins 0 .. 2 (3/2 and 2 are rarer: they make the aligned models expensive)
    spins = [s for s in [Fraction(0), Fraction(0), Fraction(1, 2), Fraction(1, 2), Fraction(1), Fraction(1), Fraction(3, 2), Fraction(2)]
             if 2 * s <= max_spin2]
    decorations = ["", "", "", "~", "*", "(1)", "+", "_a", "(2)0", "'"]  # special characters in particle names
    latex_pool = [None, None, "X^{%d}", "\\chi_{%d}", "", "Y%d", "Z"]  # "Z": several particles may share a latex name
    counter = itertools.count()

    def new_particle(prefix, spin=None, massless=False):
        k = next(counter)
        lt = rng.choice(latex_pool)
        latex = None if lt is None else (lt % k if "%d" in lt else lt)
        return Particle(
            name=f"{prefix}{k}{rng.choice(decorations)}", pid=1000 + k, latex=latex,
            spin=rng.choice(spins) if spin is None else spin,
            mass=0.0 if massless else round(0.3 + 0.137 * k, 6),
            width=0.0 if rng.random() < 0.15 else round(0.01 * (k + 1), 6),  # zero widths are legitimate table values
        )

    initial = new_particle("I")
    finals = []
    for i in range(nfs):
        if finals and rng.random() < 0.3:
            finals.append(rng.choice(finals))  # identical particle -> combinatorics
        else:
            massless = rng.random() < 0.15
            p = new_particle("f", massless=massless)
            finals.append(p)
    base_topologies = list(create_isobar_topologies(nfs))
    n_top = 1 if nfs == 2 else rng.choice([1, 1, 2, 3])
    topologies = []
    for _ in range(n_top):
        tp = rng.choice(base_topologies)
        perm = list(range(nfs))
        rng.shuffle(perm)
        tp = tp.relabel_edges(dict(zip(range(nfs), perm)))
        if tp not in topologies:
            topologies.append(tp)
    resonances = [new_particle("R") for _ in range(rng.choice([1, 2, 3]))]
    if rng.random() < 0.2:
        # a second particle with another NAME and spin but the same latex, mass and width: equal-named dynamics
        # parameters from different chains must then carry equal defaults
        import attrs

        k = next(counter)
        base = resonances[0]
        other_spins = [x for x in spins if x != base.spin] or [base.spin + 1]
        shared = attrs.evolve(base, latex=base.latex or "Z")
        resonances[0] = shared
        resonances.append(attrs.evolve(shared, name=f"Rtwin{k}", pid=1000 + k, spin=rng.choice(other_spins)))
    transitions = set()
    attempts = 0
    target = rng.randint(1, max_transitions)
    proj_sets = {}
    for i, p in enumerate([initial, *finals]):
        full = [m for m in spin_range(p.spin) if not (p.mass == 0.0 and m == 0 and p.spin >= 1)]
        k = rng.randint(1, len(full))
        proj_sets[i - 1] = rng.sample(full, k) if rng.random() < 0.5 else full
    seen = set()
    has_l = rng.random() < 0.4
    has_pf = rng.random() < 0.6
    while len(transitions) < target and attempts < 6 * target:
        attempts += 1
        tp = rng.choice(topologies)
        states = {}
        (root,) = tuple(tp.incoming_edge_ids)
        states[root] = State(initial, rng.choice(proj_sets[-1]))
        for i in tp.outgoing_edge_ids:
            states[i] = State(finals[i], rng.choice(proj_sets[i]))
        for e in tp.intermediate_edge_ids:
            res = rng.choice(resonances)
            states[e] = State(res, rng.choice(spin_range(res.spin)))
        inter = {}
        for n in tp.nodes:
            # qrules sorts the transitions of a ReactionInfo: within one reaction every interaction field is
            # either always None or never None (None is not comparable with numbers)
            pf = rng.choice([1.0, -1.0]) if has_pf else None
            if canonical:
                inter[n] = InteractionProperties(l_magnitude=rng.choice([0, 1, 2]), s_magnitude=rng.choice([0, Fraction(1, 2), 1]),
                                                 parity_prefactor=pf)
            else:
                inter[n] = InteractionProperties(l_magnitude=rng.choice([0, 1, 2]) if has_l else None, parity_prefactor=pf)
        # two transitions that differ ONLY in the parity prefactor (or, in the helicity formalism, only in the
        # interaction) would make sympy cancel their sum; qrules never produces such pairs
        sig = (tp, tuple(sorted((e, s.particle.name, s.spin_projection) for e, s in states.items())),
               tuple((n, i.l_magnitude, i.s_magnitude) for n, i in sorted(inter.items())) if canonical else ())
        if sig in seen:
            continue
        seen.add(sig)
        transitions.add(FrozenTransition(tp, states, inter))
    return ReactionInfo(sorted(transitions), "canonical-helicity" if canonical else "helicity")


def default_cfg(reaction) -> dict:
    canonical = reaction.formalism in {"canonical-helicity", "canonical"}
    return {"align": "n", "stable": None, "scalar": False, "hc": False,
            "parent": False, "child": not canonical, "ls": True, "dyn": [], "perm": False}


def random_config(rng, reaction, align: str | None = None, malformed: bool = False) -> dict:
    cfg = default_cfg(reaction)
    fs = sorted(reaction.final_state)
    if align is not None:
        cfg["align"] = align
    if rng.random() < 0.5:
        k = rng.randint(0, len(fs))
        cfg["stable"] = sorted(rng.sample(fs, k))
    cfg["scalar"] = rng.random() < 0.4
    cfg["hc"] = rng.random() < 0.3
    cfg["parent"] = rng.random() < 0.3
    cfg["child"] = rng.random() < 0.7
    cfg["ls"] = rng.random() < 0.7
    names = sorted({s.particle.name for t in reaction.transitions for e, s in t.states.items()
                    if e not in t.topology.outgoing_edge_ids})
    dyn = []
    for _ in range(rng.choice([0, 0, 1, 2, 3])):
        dyn.append((rng.choice(names), rng.choice(["nd", "bw", "bw", "bwff", "ff", "custom", "custom"])))
    if rng.random() < 0.15:  # dynamics on EVERY node (initial state and every resonance)
        dyn = [(nm, rng.choice(["bw", "custom", "custom", "ff", "bwff"])) for nm in names]
    cfg["dyn"] = dyn
    cfg["perm"] = rng.random() < 0.15
    if malformed:
        which = rng.choice(["stable", "dpd"])
        if which == "stable":
            cfg["stable"] = sorted({*(cfg["stable"] or []), max(fs) + rng.randint(1, 3)})
        else:
            cfg["align"] = "d1"  # DPD on a reaction that was not relabelled / is not three-body
    return cfg


def unfold_cost(reaction, align: str) -> int:
    """Rough number of terms of the unfolded intensity (used to keep generated cases small)."""
    first = reaction.transitions[0]
    outer = [next(iter(first.topology.incoming_edge_ids)), *sorted(first.topology.outgoing_edge_ids)]
    pools = [len({t.states[i].spin_projection for t in reaction.transitions}) for i in outer]
    prod = 1
    for n in pools:
        prod *= n
    tops = {t.topology for t in reaction.transitions}
    if align == "n":
        return prod * len(tops)
    if align.startswith("d"):
        return prod * prod * len(tops)
    total = 0
    for tp in tops:
        inner = 1
        for i in sorted(tp.outgoing_edge_ids):
            depth, e = 0, i
            while tp.edges[e].originating_node_id is not None:
                (e,) = tuple(tp.get_edge_ids_ingoing_to_node(tp.edges[e].originating_node_id))
                depth += 1
            n = int(2 * first.states[i].particle.spin) + 1
            inner *= n ** (depth + 1 if depth >= 2 else 1)
        total += inner
    return prod * total


class CaseTimeout(Exception):
    pass


class time_limit:
    """SIGALRM-based wall-clock cap for one in-process case (main thread only)."""

    def __init__(self, seconds: int):
        self.seconds = seconds

    def __enter__(self):
        import signal

        def handler(signum, frame):
            raise CaseTimeout

        self.old = signal.signal(signal.SIGALRM, handler)
        signal.alarm(self.seconds)

    def __exit__(self, *a):
        import signal

        signal.alarm(0)
        signal.signal(signal.SIGALRM, self.old)
        return False


def describe(reaction) -> dict:
    tops = {t.topology for t in reaction.transitions}
    names = [p.name for p in reaction.final_state.values()]
    return {
        "formalism": reaction.formalism, "n_final": len(reaction.final_state), "n_transitions": len(reaction.transitions),
        "n_topologies": len(tops), "identical_final": len(names) != len(set(names)),
        "spins": sorted({str(s.particle.spin) for t in reaction.transitions for s in t.states.values()}),
    }
