"""Python side of the M1 term model (shared by C18, C14, C15).

* an AST mirroring `lean/Ampverif/Model/Expr.lean` (plain tuples),
* S-expression printing/parsing for the line protocol (hex-encoded names, exact rationals),
* conversion real SymPy object <-> AST (`from_sympy` aborts on nothing: unknown heads become
  uninterpreted `app` nodes whose constructor is remembered in the context, so that a model
  result can be rebuilt with the real constructors and compared with `==`),
* an exact evaluator over `fractions.Fraction` with the same fixed interpretation of
  uninterpreted heads as `Ampverif.Drivers.stdInterp`.

AST:  ("sym", name, flags) ("rat", p, q) ("add", [..]) ("mul", [..]) ("pow", b, n)
      ("app", head, [..]) ("idx", base, [..]) ("node", cls, [args], [attrs])
      ("psum", body, [(sym, [value AST, ..]), ..])   -- pool values are terms (numbers, symbols, sums, ...)
attrs: ("none",) ("cls", qualname) ("str", s) ("obj", repr)
"""

from __future__ import annotations

import dataclasses
import inspect
import itertools
from fractions import Fraction

from tools.lib import common


class Unrepresentable(Exception):
    """The real object lies outside the model's term language (reported, never skipped silently)."""


# --------------------------------------------------------------------------- S-expressions


def hx(s: str) -> str:
    return "x" + s.encode().hex()


def unhx(s: str) -> str:
    assert s[0] == "x", s
    return bytes.fromhex(s[1:]).decode()


def show_sym(s) -> str:
    return "(sym " + " ".join([hx(s[1]), *[hx(f) for f in s[2]]]) + ")"


def show_q(q) -> str:
    return f"(rat {q[0]} {q[1]})"


def show_attr(a) -> str:
    return "(none)" if a[0] == "none" else f"({a[0]} {hx(a[1])})"


def show(t) -> str:  # noqa: C901, PLR0911
    k = t[0]
    if k == "sym":
        return show_sym(t)
    if k == "rat":
        return f"(rat {t[1]} {t[2]})"
    if k in {"add", "mul"}:
        return "(" + " ".join([k, *map(show, t[1])]) + ")"
    if k == "pow":
        return f"(pow {show(t[1])} {t[2]})"
    if k in {"app", "idx"}:
        return "(" + " ".join([k, hx(t[1]), *map(show, t[2])]) + ")"
    if k == "node":
        return f"(node {hx(t[1])} ( {' '.join(map(show, t[2]))} ) ({' '.join(map(show_attr, t[3]))}))"
    if k == "psum":
        bs = ["(bind " + " ".join([show_sym(s), *map(show, vals)]) + ")" for s, vals in t[2]]
        return "(" + " ".join(["psum", show(t[1]), *bs]) + ")"
    raise ValueError(t)


def _tokens(s: str):
    return s.replace("(", " ( ").replace(")", " ) ").split()


def parse_sexp(s: str):
    toks = _tokens(s)
    pos = 0

    def one():
        nonlocal pos
        tok = toks[pos]
        pos += 1
        if tok == "(":
            items = []
            while toks[pos] != ")":
                items.append(one())
            pos += 1
            return items
        return tok

    r = one()
    if pos != len(toks):
        raise ValueError("trailing tokens in " + s[:80])
    return r


def read_sym(x):
    assert x[0] == "sym", x
    return ("sym", unhx(x[1]), tuple(unhx(f) for f in x[2:]))


def read(x):  # noqa: C901, PLR0911
    k = x[0]
    if k == "sym":
        return read_sym(x)
    if k == "rat":
        return ("rat", int(x[1]), int(x[2]))
    if k in {"add", "mul"}:
        return (k, [read(e) for e in x[1:]])
    if k == "pow":
        return ("pow", read(x[1]), int(x[2]))
    if k in {"app", "idx"}:
        return (k, unhx(x[1]), [read(e) for e in x[2:]])
    if k == "node":
        attrs = [("none",) if a[0] == "none" else (a[0], unhx(a[1])) for a in x[3]]
        return ("node", unhx(x[1]), [read(e) for e in x[2]], attrs)
    if k == "psum":
        return ("psum", read(x[1]), [(read_sym(b[1]), [read(v) for v in b[2:]]) for b in x[2:]])
    raise ValueError(x)


def read_reply(line: str):
    """A reply line -> AST, ("syms", [..]) or ("err", kind)."""
    line = line.strip()
    if line.startswith("err"):
        return ("err", line[4:])
    x = parse_sexp(line)
    if x and x[0] == "syms":
        return ("syms", [read_sym(s) for s in x[1:]])
    return read(x)


# --------------------------------------------------------------------------- SymPy <-> AST


class Ctx:
    """Remembers the real constructor of every uninterpreted head met by `from_sympy`."""

    def __init__(self):
        self.heads: dict[str, object] = {}
        self.atoms: dict[str, object] = {}
        self.classes: dict[str, type] = {}
        self.attr_objs: dict[tuple, object] = {}
        self.dummy_ids: dict = {}
        self.dummies: dict = {}
        self.fn_ids: dict = {}
        self.fn_keep: list = []  # keeps the functions alive so that ids stay unique
        self.raw_psum = False  # `to_sympy` builds PoolSum nodes with `Expr.__new__` (bypassing `PoolSum.__new__`)

    def fresh(self):
        """Forget the dummy numbering (call before converting an independent expression)."""
        self.dummy_ids = {}
        self.dummies = {}
        return self


def sym_flags(s) -> tuple:
    orig = getattr(s, "_assumptions_orig", None)
    if orig is None:
        orig = {k: v for k, v in s.assumptions0.items() if k != "commutative"}
    return tuple(sorted((k if v else "!" + k) for k, v in orig.items() if v is not None))


def is_unevaluated_class(cls) -> bool:
    from ampform.sympy import _decorator

    return (
        inspect.isclass(cls)
        and dataclasses.is_dataclass(cls)
        and getattr(cls, "_hashable_content", None) is _decorator._hashable_content_method  # noqa: SLF001
    )


def class_key(cls) -> str:
    return f"{cls.__module__}.{cls.__qualname__}"


def attr_of(value, ctx: Ctx):
    if value is None:
        a = ("none",)
    elif inspect.isclass(value):
        a = ("cls", class_key(value))
    elif isinstance(value, str):
        a = ("str", value)
    elif inspect.isfunction(value) or inspect.ismethod(value) or inspect.isbuiltin(value):
        # a function is an opaque token whose identity is the identity of the Python object:
        # two closures of one factory (same module and qualname) are two different tokens
        k = ctx.fn_ids.setdefault(id(value), len(ctx.fn_ids))
        ctx.fn_keep.append(value)
        a = ("obj", f"fn:{getattr(value, '__module__', '?')}.{getattr(value, '__qualname__', '?')}#{k}")
    else:
        a = ("obj", repr(value))
    ctx.attr_objs[a] = value
    return a


def from_sympy(e, ctx: Ctx):  # noqa: C901, PLR0911, PLR0912
    import sympy as sp
    from sympy.core.function import AppliedUndef

    from ampform.sympy import PoolSum

    if isinstance(e, sp.Dummy):
        # dummies are numbered in order of first appearance (alpha-equivalence up to traversal order)
        k = ctx.dummy_ids.setdefault(e, len(ctx.dummy_ids))
        return ("sym", f"{e.name}#d{k}", ("#dummy", *sym_flags(e)))
    if isinstance(e, sp.Symbol):
        return ("sym", e.name, sym_flags(e))
    if isinstance(e, sp.Rational):
        return ("rat", int(e.p), int(e.q))
    if isinstance(e, sp.Add):
        return ("add", [from_sympy(a, ctx) for a in e.args])
    if isinstance(e, sp.Mul):
        return ("mul", [from_sympy(a, ctx) for a in e.args])
    if isinstance(e, sp.Pow) and e.exp.is_Integer and e.exp >= 0:
        return ("pow", from_sympy(e.base, ctx), int(e.exp))
    if isinstance(e, AppliedUndef):
        key = "f:" + e.func.__name__
        ctx.heads[key] = e.func
        return ("app", key, [from_sympy(a, ctx) for a in e.args])
    if isinstance(e, sp.Indexed):
        base = e.base
        key = str(base.label)
        ctx.heads["idx:" + key] = base
        return ("idx", key, [from_sympy(a, ctx) for a in e.indices])
    if isinstance(e, PoolSum):
        binders = []
        for idx, vals in e.indices:
            if not isinstance(idx, sp.Symbol):
                raise Unrepresentable(f"PoolSum index {idx!r} is not a symbol")
            binders.append((from_sympy(idx, ctx), [from_sympy(v, ctx) for v in vals]))
        return ("psum", from_sympy(e.expression, ctx), binders)
    if is_unevaluated_class(type(e)):
        cls = type(e)
        key = class_key(cls)
        ctx.classes[key] = cls
        args, attrs = [], []
        for f in dataclasses.fields(cls):
            val = getattr(e, f.name)
            if f.metadata.get("sympify"):
                args.append(from_sympy(val, ctx))
            else:
                attrs.append(attr_of(val, ctx))
        if len(args) != len(e.args):
            raise Unrepresentable(f"{key}: {len(e.args)} args for {len(args)} SymPy fields")
        return ("node", key, args, attrs)
    if isinstance(e, sp.Basic):
        if not e.args:
            key = "a:" + sp.srepr(e)
            ctx.atoms[key] = e
            return ("app", key, [])
        key = "h:" + class_key(type(e))
        ctx.heads[key] = e.func
        return ("app", key, [from_sympy(a, ctx) for a in e.args])
    raise Unrepresentable(f"not a SymPy object: {e!r}")


def make_symbol(name, flags):
    import sympy as sp

    kw = {(f[1:] if f.startswith("!") else f): not f.startswith("!") for f in flags}
    return sp.Symbol(name, **kw)


def to_sympy(t, ctx: Ctx):  # noqa: C901, PLR0911, PLR0912
    import sympy as sp

    from ampform.sympy import PoolSum

    k = t[0]
    if k == "sym":
        if "#dummy" in t[2]:
            if t not in ctx.dummies:
                kw = {(f[1:] if f.startswith("!") else f): not f.startswith("!") for f in t[2] if f != "#dummy"}
                ctx.dummies[t] = sp.Dummy(t[1].split("#")[0], **kw)
            return ctx.dummies[t]
        return make_symbol(t[1], t[2])
    if k == "rat":
        return sp.Rational(t[1], t[2])
    if k == "add":
        return sp.Add(*[to_sympy(a, ctx) for a in t[1]])
    if k == "mul":
        return sp.Mul(*[to_sympy(a, ctx) for a in t[1]])
    if k == "pow":
        return sp.Pow(to_sympy(t[1], ctx), t[2])
    if k == "app":
        head = t[1]
        if head.startswith("a:") or head.startswith("attr:"):
            if head in ctx.atoms:
                return ctx.atoms[head]
            return sp.Symbol("<" + head + ">")  # only reachable for unsound-variant renderings
        if head == "Tuple":
            return sp.Tuple(*[to_sympy(a, ctx) for a in t[2]])
        if head.startswith("f:") and head not in ctx.heads:
            ctx.heads[head] = sp.Function(head[2:])
        return ctx.heads[head](*[to_sympy(a, ctx) for a in t[2]])
    if k == "idx":
        base = ctx.heads.get("idx:" + t[1]) or sp.IndexedBase(t[1])
        ctx.heads["idx:" + t[1]] = base
        return base[tuple(to_sympy(a, ctx) for a in t[2])]
    if k == "psum":
        body = to_sympy(t[1], ctx)
        if getattr(ctx, "raw_psum", False):
            # the model's RESULT rebuilt WITHOUT the constructor under test (`PoolSum.__new__` would apply its own
            # normalisation to both sides of the comparison and hide a constructor defect): args stored as given
            args = [body, *[sp.Tuple(to_sympy(s, ctx), sp.Tuple(*[to_sympy(v, ctx) for v in vals])) for s, vals in t[2]]]
            return sp.Expr.__new__(PoolSum, *args)
        return PoolSum(body, *[(to_sympy(s, ctx), tuple(to_sympy(v, ctx) for v in vals)) for s, vals in t[2]])
    if k == "node":
        cls = ctx.classes[t[1]]
        args = iter(to_sympy(a, ctx) for a in t[2])
        attrs = iter(ctx.attr_objs[a] if a in ctx.attr_objs else _attr_value(a) for a in t[3])
        vals = [next(args) if f.metadata.get("sympify") else next(attrs) for f in dataclasses.fields(cls)]
        return cls(*vals)
    raise ValueError(t)


def to_sympy_raw(t, ctx: Ctx):
    """`to_sympy` for a MODEL RESULT: pool sums are built with `Expr.__new__`, not with the constructor under test."""
    saved = ctx.raw_psum
    ctx.raw_psum = True
    try:
        return to_sympy(t, ctx)
    finally:
        ctx.raw_psum = saved


def _attr_value(a):
    if a[0] == "none":
        return None
    if a[0] == "str":
        return a[1]
    raise Unrepresentable(f"attribute {a!r} has no known Python value")


def canon(e, ctx: Ctx):
    """AST of a real object with dummies renumbered from 0 (comparison form)."""
    saved = ctx.dummy_ids
    ctx.dummy_ids = {}
    try:
        return from_sympy(e, ctx)
    finally:
        ctx.dummy_ids = saved


def same(real_obj, model_ast, ctx: Ctx) -> bool:
    """Does the model's result, rebuilt with the real constructors, equal the real result?"""
    saved = ctx.dummies
    ctx.dummies = {}
    try:
        rebuilt = to_sympy_raw(model_ast, ctx)  # pool sums of a model result are NOT passed through PoolSum.__new__
    finally:
        ctx.dummies = saved
    if rebuilt == real_obj:
        return True
    return canon(rebuilt, ctx) == canon(real_obj, ctx)


def equal_mod_ring(a, b, ctx: Ctx, three_valued: bool = False):
    """`a == b` up to SymPy's automatic arithmetic canonicalisation (which is not confluent:
    `Mul(-2, x, y)` with `x` replaced by a sum is not what `-2*x*y` builds from scratch) and up to
    renaming of dummies: compared after `expand`."""
    import sympy as sp

    if a == b:
        return True
    ca, cb = canon(a, ctx), canon(b, ctx)
    if ca == cb:
        return True
    try:
        ea, eb = sp.expand(a), sp.expand(b)
        if ea == eb or canon(ea, ctx) == canon(eb, ctx):
            return True
    except Exception:  # noqa: BLE001, S110
        pass
    verdict = numerically_equal(a, b)
    if three_valued:
        return verdict  # True / False / None (not decidable numerically: array-valued, symbolic limits, too deep)
    return verdict is True


def numerically_equal(a, b, n_points: int = 3):
    """True / False when both sides evaluate to finite numbers at `n_points` positive real points
    (principal branches), None when that cannot be decided (array-valued or symbolic-limit terms)."""
    import random

    import sympy as sp

    rng = random.Random(12345)
    try:
        syms = sorted((a.free_symbols | b.free_symbols), key=str)
        da, db = a.doit(), b.doit()
    except Exception:  # noqa: BLE001
        return None
    decided = 0
    for k in range(2 * n_points + 4):
        if k % 2 == 0:
            vals = {s: (sp.Integer(rng.randint(0, 3)) if s.is_integer else sp.Float(rng.uniform(0.6, 2.9), 30)) for s in syms}
        else:  # generic complex point (respecting declared real/integer symbols)
            vals = {s: (sp.Integer(rng.randint(0, 3)) if s.is_integer else sp.Float(rng.uniform(0.6, 2.9), 30) if s.is_real else
                        sp.Float(rng.uniform(-2, 2), 30) + sp.I * sp.Float(rng.uniform(-2, 2), 30)) for s in syms}
        try:
            va = complex(sp.N(da.xreplace(vals), 25))
            vb = complex(sp.N(db.xreplace(vals), 25))
        except Exception:  # noqa: BLE001
            return None
        if any(x != x or abs(x) == float("inf") for x in (va.real, va.imag, vb.real, vb.imag)):
            continue
        scale = max(abs(va), abs(vb), 1e-12)
        if abs(va - vb) > 1e-9 * scale:
            return False
        decided += 1
        if decided >= 2 * n_points:
            return True
    return None


# --------------------------------------------------------------------------- exact evaluation


def head_hash(key: str) -> int:
    acc = 7
    for ch in key:
        acc = (acc * 31 + ord(ch)) % 1009
    return acc % 17 + 1


def std_interp(key: str, args: list) -> Fraction:
    h = head_hash(key)
    lin = sum((Fraction(j + 2, h + j) * a for j, a in enumerate(args)), Fraction(0))
    cross = args[0] * args[-1] if args else Fraction(0)
    return Fraction(h, 3) + lin + cross


def attr_key(a) -> str:
    return {"none": "N", "cls": "C:", "str": "S:", "obj": "O:"}[a[0]] + (a[1] if len(a) > 1 else "")


def node_key(cls: str, attrs) -> str:
    return "node:" + cls + "".join("|" + attr_key(a) for a in attrs)


def evaluate(t, env: dict) -> Fraction:  # noqa: C901, PLR0911
    """Mirror of `Ampverif.Model.eval stdInterp` (env: sym tuple -> Fraction, default 0)."""
    k = t[0]
    if k == "sym":
        return env.get(t, Fraction(0))
    if k == "rat":
        return Fraction(t[1], t[2])
    if k == "add":
        return sum((evaluate(a, env) for a in t[1]), Fraction(0))
    if k == "mul":
        r = Fraction(1)
        for a in t[1]:
            r *= evaluate(a, env)
        return r
    if k == "pow":
        return evaluate(t[1], env) ** t[2]
    if k == "app":
        return std_interp("app:" + t[1], [evaluate(a, env) for a in t[2]])
    if k == "idx":
        return std_interp("idx:" + t[1], [evaluate(a, env) for a in t[2]])
    if k == "node":
        return std_interp(node_key(t[1], t[3]), [evaluate(a, env) for a in t[2]])
    if k == "psum":
        total = Fraction(0)
        syms = [s for s, _ in t[2]]
        # the pool VALUES are evaluated in the environment of the pool sum itself (evalBinders)
        pools = [[evaluate(v, env) for v in vals] for _, vals in t[2]]
        for combi in itertools.product(*pools):
            env2 = dict(env)
            for s, q in zip(syms, combi):
                env2[s] = q
            total += evaluate(t[1], env2)
        return total
    raise ValueError(t)


def show_env(env: dict) -> str:
    return " ".join(f"({show_sym(s)} (rat {v.numerator} {v.denominator}))" for s, v in env.items())


def frac_of(t) -> Fraction:
    assert t[0] == "rat", t
    return Fraction(t[1], t[2])


# --------------------------------------------------------------------------- Lean driver


def run_driver(driver_rel: str, lines: list[str], modules: list[str], timeout: int = 900) -> list[str]:
    """Build the driver's imports (once) and pipe `lines` through the Lean driver."""
    ok, log = common.lake_build(modules)
    if not ok:
        raise common.LeanRunError("driver modules do not build:\n" + log[-3000:])
    out = common.lean_run(driver_rel, "\n".join(lines) + "\n", timeout=timeout)
    replies = [l for l in out.split("\n") if l.strip()]
    if len(replies) != len(lines):
        raise common.LeanRunError(f"{len(lines)} requests but {len(replies)} replies; tail: {replies[-2:]}")
    return replies


def symbols_of(t, acc=None) -> set:
    acc = set() if acc is None else acc
    k = t[0]
    if k == "sym":
        acc.add(t)
    elif k in {"add", "mul"}:
        for a in t[1]:
            symbols_of(a, acc)
    elif k == "pow":
        symbols_of(t[1], acc)
    elif k in {"app", "idx"}:
        for a in t[2]:
            symbols_of(a, acc)
    elif k == "node":
        for a in t[2]:
            symbols_of(a, acc)
    elif k == "psum":
        symbols_of(t[1], acc)
        for s, vals in t[2]:
            acc.add(s)
            for v in vals:
                symbols_of(v, acc)
    return acc
