"""C18 — generator of random PoolSum terms and the T2 correspondence real `PoolSum` vs Lean model."""

from __future__ import annotations

from fractions import Fraction

from tools.corr import C18m1 as m1
from tools.lib import common

DRIVER = "Ampverif/Drivers/C18.lean"
DRIVER_MODULES = ["Ampverif.Drivers.M1Sexp"]

FREE = [("sym", "x", ()), ("sym", "y", ("real",)), ("sym", "z", ("positive",)), ("sym", "w", ())]
IDX = [("sym", "i", ()), ("sym", "j", ()), ("sym", "k", ("integer",)), ("sym", "l", ())]
FUNCS = {"f:f": (1, 3), "f:g": (1, 2), "f:h": (2, 2)}
VALUES = [(-1, 1), (-1, 2), (0, 1), (1, 2), (1, 1), (3, 2), (2, 1), (3, 1)]
# symbols that the generator puts into index POOLS only (never into a summand)
POOLSYM = [("sym", "n", ()), ("sym", "m", ("integer",))]


def rat(rng):
    p = rng.choice([-3, -2, -1, 1, 2, 3, 5])
    q = rng.choice([1, 1, 1, 2, 3])
    f = Fraction(p, q)
    return ("rat", f.numerator, f.denominator)


def gen_atom(rng, syms, depth):
    r = rng.random()
    if r < 0.5 or depth <= 0 or not syms:
        if not syms:
            return rat(rng)
        s = rng.choice(syms)
        n = rng.choice([1, 1, 1, 2, 3])
        return s if n == 1 else ("pow", s, n)
    if r < 0.85:
        f = rng.choice(sorted(FUNCS))
        lo, hi = FUNCS[f]
        return ("app", f, [gen_poly(rng, syms, depth - 1, small=True) for _ in range(rng.randint(lo, hi))])
    if r < 0.93:
        return ("idx", "A", [rng.choice(syms) if rng.random() < 0.8 else rat(rng) for _ in range(rng.randint(1, 2))])
    return ("pow", gen_poly(rng, syms, depth - 1, small=True), 2)


def gen_poly(rng, syms, depth, small=False):
    nterms = 1 if small and rng.random() < 0.7 else rng.randint(1, 3)
    terms = []
    for _ in range(nterms):
        factors = [gen_atom(rng, syms, depth) for _ in range(rng.randint(0 if not small else 1, 2))]
        c = rat(rng)
        if not factors:
            terms.append(c)
        elif c == ("rat", 1, 1) and len(factors) == 1:
            terms.append(factors[0])
        else:
            terms.append(("mul", [c, *factors]))
    return terms[0] if len(terms) == 1 else ("add", terms)


def walk_syms(t, acc, pools: bool, summands: bool):
    """Symbols of a term, separately for pool values and for everything else."""
    k = t[0]
    if k == "sym":
        if summands:
            acc.add(t)
    elif k in {"add", "mul"}:
        for a in t[1]:
            walk_syms(a, acc, pools, summands)
    elif k == "pow":
        walk_syms(t[1], acc, pools, summands)
    elif k in {"app", "idx", "node"}:
        for a in t[2]:
            walk_syms(a, acc, pools, summands)
    elif k == "psum":
        walk_syms(t[1], acc, pools, summands)
        if pools:
            for _, vals in t[2]:
                for v in vals:
                    acc |= m1.symbols_of(v)
    return acc


def pool_symbols(t) -> set:
    return walk_syms(t, set(), True, False)


def summand_symbols(t) -> set:
    return walk_syms(t, set(), False, True)


def gen_pool_value(rng, allowed, outer_allowed, stats):
    """One pool value: a rational, or a TERM over `allowed` symbols / outer summation indices."""
    r = rng.random()
    if r < 0.5 or not (allowed or outer_allowed):
        p, q = rng.choice(VALUES)
        return ("rat", p, q)
    stats["symbolic_pool_values"] = stats.get("symbolic_pool_values", 0) + 1
    if outer_allowed and r < 0.80:
        o = rng.choice(outer_allowed)
        stats["pool_values_mentioning_an_outer_index"] = stats.get("pool_values_mentioning_an_outer_index", 0) + 1
        return rng.choice([o, ("add", [o, rat(rng)]), ("mul", [("rat", 2, 1), o]), ("add", [o, rng.choice(allowed)]) if allowed else o])
    if not allowed:
        p, q = rng.choice(VALUES)
        return ("rat", p, q)
    a = rng.choice(allowed)
    b = rng.choice(allowed)
    return rng.choice([a, a, ("add", [a, rat(rng)]), ("mul", [rat(rng), a]), ("add", [a, b]) if a != b else a, ("pow", a, 2)])


def gen_psum(rng, nest, outer, stats):
    """A pool sum at nesting level `nest` (1..3); `outer` = index symbols bound further out.
    Pool values are rationals or terms (pool-only symbols, free symbols that also occur in the summand,
    outer summation indices, compound terms)."""
    n_idx = rng.choice([0, 1, 1, 2, 2, 2, 3, 3, 4])
    idxs = rng.sample(IDX, n_idx)
    dup = False
    if n_idx >= 2 and rng.random() < 0.06:
        idxs[-1] = idxs[0]
        dup = True
    max_pool = 3 if n_idx <= 2 else 2
    used = [s for s in dict.fromkeys(idxs) if rng.random() < 0.8]
    frees = rng.sample(FREE, rng.randint(0, 2))
    visible = used + frees + [s for s in outer if rng.random() < 0.5]
    body = gen_poly(rng, visible, 2)
    nested = False
    if nest < 3 and rng.random() < (0.45 if nest == 1 else 0.3):
        inner, _ = gen_psum(rng, nest + 1, list(dict.fromkeys(outer + idxs)), stats)
        nested = True
        r = rng.random()
        # the summand IS a pool sum (directly nested), or the nested sum sits in a sum / product
        body = inner if r < 0.3 else ("add", [body, inner]) if r < 0.65 else ("mul", [gen_atom(rng, visible, 1), inner])
        stats["directly_nested"] = stats.get("directly_nested", 0) + int(r < 0.3)
    # pools: values may mention pool-only symbols, free symbols and OUTER indices, but (well-formed case) neither an
    # index of this sum nor a symbol bound inside the summand; a few ill-formed ones are generated on purpose
    taken = set(idxs) | bound_syms(body)
    allowed = [s for s in POOLSYM + FREE if s not in taken]
    outer_allowed = [s for s in outer if s not in taken]
    ill = rng.random() < 0.04 and bool(taken)
    binders = []
    for s in idxs:
        size = rng.choice([1, 1, 2, 2, 3][: 3 + max_pool - 1]) if max_pool == 3 else rng.choice([1, 2, 2])
        pool = [gen_pool_value(rng, allowed, outer_allowed, stats) for _ in range(size)]
        if ill and rng.random() < 0.5:
            pool[rng.randrange(size)] = rng.choice(sorted(taken))
            stats["ill_formed_pools_(sibling_index_or_captured_symbol)"] = stats.get("ill_formed_pools_(sibling_index_or_captured_symbol)", 0) + 1
        binders.append((s, pool))
    stats["n_idx"][n_idx] = stats["n_idx"].get(n_idx, 0) + 1
    stats["singleton_pools"] += sum(1 for _, p in binders if len(p) == 1)
    stats["duplicate_value_pools"] += sum(1 for _, p in binders if len(set(map(m1.show, p))) < len(p))
    stats["duplicate_index_symbols"] += int(dup)
    stats["unused_indices"] += sum(1 for s in dict.fromkeys(idxs) if s not in used)
    psyms = set()
    for _, p in binders:
        for v in p:
            psyms |= m1.symbols_of(v)
    bsyms = m1.symbols_of(body)
    stats["sums_with_a_symbol_only_in_a_pool"] = stats.get("sums_with_a_symbol_only_in_a_pool", 0) + int(bool(psyms - bsyms))
    stats["sums_with_a_symbol_in_pool_and_summand"] = stats.get("sums_with_a_symbol_in_pool_and_summand", 0) + int(bool(psyms & bsyms))
    stats["sums_whose_pool_mentions_an_outer_index_absent_from_the_summand"] = (
        stats.get("sums_whose_pool_mentions_an_outer_index_absent_from_the_summand", 0) + int(bool((psyms & set(outer)) - bsyms)))
    return ("psum", body, binders), {"dup": dup, "nested": nested}


def depth_of(t) -> int:
    k = t[0]
    if k in {"add", "mul"}:
        return max([depth_of(a) for a in t[1]], default=0)
    if k == "pow":
        return depth_of(t[1])
    if k in {"app", "idx", "node"}:
        return max([depth_of(a) for a in t[2]], default=0)
    if k == "psum":
        return 1 + depth_of(t[1])
    return 0


def has_dup_index(t) -> bool:
    k = t[0]
    if k in {"add", "mul"}:
        return any(has_dup_index(a) for a in t[1])
    if k == "pow":
        return has_dup_index(t[1])
    if k in {"app", "idx", "node"}:
        return any(has_dup_index(a) for a in t[2])
    if k == "psum":
        ss = [s for s, _ in t[2]]
        return len(set(ss)) < len(ss) or has_dup_index(t[1])
    return False


def bound_syms(t, acc=None) -> set:
    acc = set() if acc is None else acc
    k = t[0]
    if k in {"add", "mul"}:
        for a in t[1]:
            bound_syms(a, acc)
    elif k == "pow":
        bound_syms(t[1], acc)
    elif k in {"app", "idx", "node"}:
        for a in t[2]:
            bound_syms(a, acc)
    elif k == "psum":
        for s, vals in t[2]:
            acc.add(s)
            for v in vals:
                bound_syms(v, acc)
        bound_syms(t[1], acc)
    return acc


def gen_case(rng, stats):
    """One test term plus substitution requests; returns a dict."""
    ps, info = gen_psum(rng, 1, [], stats)
    shape = rng.random()
    if shape < 0.6:
        term = ps
    elif shape < 0.8:
        term = ("add", [ps, gen_poly(rng, FREE[:2], 1, small=True)])
    else:
        other, _ = gen_psum(rng, 2, [], stats)
        term = ("add", [("mul", [rng.choice(FREE), ps]), other])
    return make_case(term, ps, rng)


def make_case(term, ps, rng):
    """Substitution requests and an environment for a term whose outermost pool sum is `ps`."""
    top_idx = [s for s, _ in ps[2]]
    bound = sorted(bound_syms(term))
    frees = [s for s in FREE]
    subs = []
    # free symbol -> rational / polynomial without indices
    x = rng.choice(frees)
    subs.append({"kind": "free->rat", "pairs": [(x, rat(rng))]})
    others = [s for s in frees if s != x]
    subs.append({"kind": "free->poly", "pairs": [(x, gen_poly(rng, others, 1, small=True))]})
    if top_idx:
        i = rng.choice(top_idx)
        new = rng.choice([rat(rng), rng.choice(frees), gen_poly(rng, frees, 1, small=True), rng.choice(IDX)])
        subs.append({"kind": "index", "pairs": [(i, new)]})
    if bound:
        subs.append({"kind": "capture", "pairs": [(x, gen_poly(rng, [rng.choice(bound), *others[:1]], 1, small=True))]})
    y = rng.choice(others)
    subs.append({"kind": "sequence", "pairs": [(x, ("add", [y, ("rat", 1, 1)])), (y, rat(rng))]})
    # symbols that occur in a POOL (only there, or in the summand as well): they are free symbols of the sum
    psyms = sorted(pool_symbols(term) - set(bound))
    ssyms = summand_symbols(term)
    for z in rng.sample(psyms, min(2, len(psyms))):
        where = "pool+summand" if z in ssyms else "pool-only"
        subs.append({"kind": f"{where}->rat", "pairs": [(z, rat(rng))]})
        subs.append({"kind": f"{where}->poly", "pairs": [(z, gen_poly(rng, [s for s in frees if s != z], 1, small=True))]})
    xr = []
    m = {x: gen_poly(rng, others, 1, small=True)}
    if top_idx and rng.random() < 0.7:
        m[rng.choice(top_idx)] = rng.choice([rat(rng), rng.choice(frees)])
    if rng.random() < 0.5:
        m[y] = rng.choice([rat(rng), x])
    if psyms:
        m[rng.choice(psyms)] = rng.choice([rat(rng), gen_poly(rng, others, 1, small=True)])
    xr.append({"kind": "map" + ("+index" if any(k in top_idx for k in m) else ""), "pairs": list(m.items())})
    env = {s: Fraction(rng.randint(-4, 4), rng.choice([1, 2, 3])) for s in FREE + IDX + POOLSYM}
    return {"term": term, "subs": subs, "xreplace": xr, "env": env, "dup": has_dup_index(term),
            "depth": depth_of(term), "top_idx": top_idx}


def shape_terms():
    """Rare but legitimate shapes that every run covers (HARDENING rules 1, 5, 8), as real objects:
    (label, expression, outermost PoolSum)."""
    import sympy as sp

    from ampform.dynamics.phasespace import BreakupMomentumSquared
    from ampform.kinematics.phasespace import Kallen
    from ampform.sympy import PoolSum

    x, y, z = sp.Symbol("x"), sp.Symbol("y", real=True), sp.Symbol("z", positive=True)
    i, j, k = sp.Symbol("i"), sp.Symbol("j"), sp.Symbol("k", integer=True)
    f, g = sp.Function("f"), sp.Function("g")
    half = sp.Rational(1, 2)
    out = []

    def add(label, expr, ps=None):
        out.append((label, expr, ps if ps is not None else expr))

    d3 = PoolSum(PoolSum(PoolSum(f(i, j) * x, (i, (1, 2))) * i + g(j), (j, (half, 3))) + i * y, (i, (3, 4)))
    add("depth 3, innermost sum re-binds the outermost index", d3)
    add("index symbol of a nested sum also free outside of it", PoolSum(j * PoolSum(f(x, j), (j, (1, 2))) + i, (i, (0, 1))))
    add("depth 3, nested index free in the middle level",
        PoolSum(PoolSum(k * PoolSum(f(k, i), (k, (1, 2))) + j, (j, (1, 1))) * i, (i, (2, 3)), (k, (5,))))
    # the summand IS a pool sum (directly nested): same index, disjoint, partially overlapping index sets, depth 2 and 3
    add("directly nested, same index symbol", PoolSum(PoolSum(f(x, i), (i, (0, 1, 2))), (i, (half, 3, 5))))
    add("directly nested, disjoint indices", PoolSum(PoolSum(f(i, j) * x, (j, (0, 1))), (i, (half, 3))))
    add("directly nested, partially overlapping index sets",
        PoolSum(PoolSum(f(i, j, k) + y, (j, (1, 2)), (k, (3,))), (i, (0, 1)), (j, (5, 6, 7))))
    add("directly nested at depth 3, innermost re-binds the outermost index",
        PoolSum(PoolSum(PoolSum(f(i, j) + x, (i, (1, 2))), (j, (3, 4))), (i, (5, 6, 7))))
    add("directly nested at depth 3, same index on all levels",
        PoolSum(PoolSum(PoolSum(g(i) * i, (i, (1, 2))), (i, (3,))), (i, (half, half))))
    add("directly nested, inner sum has the singleton", PoolSum(PoolSum(f(i, j), (i, (2,))), (i, (1, 3)), (j, (0, 1))))
    add("pool of two equal values", PoolSum(f(i) * x + i, (i, (2, 2))))
    add("pool of three equal rationals", PoolSum(f(i, y), (i, (half, half, half))))
    add("mixed duplicates", PoolSum(f(i) * i, (i, (1, 2, 2)), (j, (0, 0))))
    add("singleton re-bound by an inner sum, other singleton free inside",
        PoolSum(PoolSum(f(i, j), (i, (1, 2))) + i * x, (i, (3,)), (j, (half,))))
    add("numeric summand", PoolSum(sp.Integer(3), (i, (1, 2))))
    add("summand is the index, pool with zero", PoolSum(i, (i, (0, 1, -1))))
    add("ints and rationals mixed in one pool", PoolSum(f(i) + i**2, (i, (1, half, sp.Integer(2), -half))))
    add("no indices", PoolSum(f(x) + y))
    add("four indices", PoolSum(f(i, j) * k + z, (i, (1, 2)), (j, (0, 1)), (k, (1,)), (sp.Symbol("l"), (2, 3))))
    # ---- pool values that are TERMS (HARDENING rule 1: numbers vs symbols): symbols only in a pool, in pool and
    # summand, inner pools that depend on outer indices (inner summand with and without the outer index), compound values
    n, mm = sp.Symbol("n"), sp.Symbol("m", integer=True)
    add("symbol that occurs in a pool only", PoolSum(f(k) * x, (k, (0, 1, n))))
    add("symbol in a pool and in the summand", PoolSum(y * f(k), (k, (0, 1, y))))
    add("inner pool depends on the outer index, inner summand does not",
        PoolSum(PoolSum(g(j), (j, (i, i + 10))), (i, (1, 2))))
    add("inner pool depends on the outer index, inner summand too",
        PoolSum(PoolSum(f(i, j), (j, (i, i + 10))), (i, (1, 2))))
    add("chain of dependent pools, depth 3",
        PoolSum(PoolSum(PoolSum(f(k), (k, (j, j + i))), (j, (i, 2 * i))), (i, (1, 2))))
    add("dependent inner sum inside an Add and a Mul, pool also holds a free symbol",
        PoolSum(x * PoolSum(g(j), (j, (i, n))) + i, (i, (1, 2))))
    add("singleton pool holding a symbol (cleanup inserts it)", PoolSum(f(i, j), (i, (n,)), (j, (1, 2))))
    add("singleton inner pool holding the outer index", PoolSum(PoolSum(f(j) * j, (j, (i,))), (i, (1, 2))))
    add("pool of compound values", PoolSum(f(i) + i, (i, (x + y, 2 * x, x**2))))
    add("pool of two equal symbols", PoolSum(f(i), (i, (n, n))))
    add("unused index with a symbolic pool", PoolSum(x, (i, (n, mm))))
    add("two indices, pools share a symbol that is absent from the summand",
        PoolSum(f(i, j), (i, (n, 1)), (j, (n + 1, half))))
    add("outer pool symbolic, inner pool mentions outer index and the same symbol",
        PoolSum(PoolSum(g(j) * z, (j, (i, n))), (i, (n, 2))))
    add("EXCLUDED (ill-formed): pool mentions an earlier index of the same sum", PoolSum(f(i, j), (i, (1, 2)), (j, (i, 4))))
    add("EXCLUDED (ill-formed): pool mentions a symbol bound inside the summand",
        PoolSum(PoolSum(f(i, j), (j, (1, 2))), (i, (j, 3))))
    inner = PoolSum(f(i) * x, (i, (1, 2)))
    add("inside an Add and a Mul", 3 * y * inner + inner**2 + x, inner)
    add("argument of an unevaluated node without attributes", Kallen(inner, y, 2), inner)
    add("argument of an unevaluated node with a non-SymPy attribute",
        BreakupMomentumSquared(z, PoolSum(i * y, (i, (1, 2))), x, name="q"), PoolSum(i * y, (i, (1, 2))))
    add("unevaluated node inside the summand", PoolSum(Kallen(i, x, y) + BreakupMomentumSquared(z, i, x, name="q"), (i, (1, 2))))
    return out


def shape_cases(rng, ctx, stats):
    cases = []
    for label, expr, ps in shape_terms():
        term = m1.from_sympy(expr, ctx)
        ps_ast = m1.from_sympy(ps, ctx)
        c = make_case(term, ps_ast, rng)
        c["label"] = label
        c["has_node"] = "node" in m1.show(term)[:0] or _has_node(term)
        stats.setdefault("shape_corpus", []).append(label)
        cases.append(c)
    return cases


def _has_node(t) -> bool:
    k = t[0]
    if k == "node":
        return True
    if k in {"add", "mul"}:
        return any(_has_node(a) for a in t[1])
    if k == "pow":
        return _has_node(t[1])
    if k in {"app", "idx"}:
        return any(_has_node(a) for a in t[2])
    if k == "psum":
        return _has_node(t[1]) or any(_has_node(v) for _, vals in t[2] for v in vals)
    return False


def pairs_str(pairs) -> str:
    return " ".join(f"({m1.show_sym(s)} {m1.show(a)})" for s, a in pairs)


def real_free(real) -> set:
    import sympy as sp

    labels = {ix.base.label for ix in real.atoms(sp.Indexed)}
    return {s for s in real.free_symbols if isinstance(s, sp.Symbol) and s not in labels}


def correspondence(chk: common.Check, rng, n_cases: int, variant=(0, 1)) -> list[dict]:  # noqa: C901, PLR0912, PLR0915
    """Real PoolSum vs Lean model on random terms. Returns the list of disagreements."""
    stats = {"n_idx": {}, "singleton_pools": 0, "duplicate_value_pools": 0, "duplicate_index_symbols": 0,
             "unused_indices": 0, "depth": {}, "subs_kinds": {}}
    ctx = m1.Ctx()
    cases = []
    lines = [f"(variant {variant[0]} {variant[1]})"]
    plan = []  # (case index, op label, real result or exception)
    todo = shape_cases(rng, ctx, stats) + [gen_case(rng, stats) for _ in range(n_cases)]
    for ci, c in enumerate(todo):
        stats["depth"][c["depth"]] = stats["depth"].get(c["depth"], 0) + 1
        real = m1.to_sympy(c["term"], ctx)
        canon = m1.from_sympy(real, ctx)
        c["real"], c["canon"] = real, canon
        cases.append(c)
        s = m1.show(canon)
        # the model's own (decidable) hypothesis of the theorems classifies the case
        lines.append(f"(wfsums {s})")
        plan.append((ci, "wfsums", None, None))
        for op, fn in (("evaluate", _evaluate_all), ("doit", lambda r: r.doit()), ("cleanup", _cleanup_all)):
            if op in {"evaluate", "cleanup"} and canon[0] != "psum":
                continue
            if op == "doit" and c.get("has_node"):
                continue  # the model's doit unfolds pool sums only; nodes are unfolded by C14's model
            lines.append(f"({op} {s})")
            plan.append((ci, op, None, _try(fn, real)))
        lines.append(f"(free {s})")
        plan.append((ci, "free", None, _try(real_free, real)))
        for sub in c["subs"]:
            stats["subs_kinds"][sub["kind"]] = stats["subs_kinds"].get(sub["kind"], 0) + 1
            rp = [(m1.to_sympy(a, ctx), m1.to_sympy(b, ctx)) for a, b in sub["pairs"]]
            lines.append(f"(subs {s} {pairs_str(sub['pairs'])})")
            plan.append((ci, "subs:" + sub["kind"], sub, _try(lambda r, rp=rp: r.subs(rp), real)))
        for sub in c["xreplace"]:
            stats["subs_kinds"]["xreplace:" + sub["kind"]] = stats["subs_kinds"].get("xreplace:" + sub["kind"], 0) + 1
            rp = {m1.to_sympy(a, ctx): m1.to_sympy(b, ctx) for a, b in sub["pairs"]}
            lines.append(f"(xreplace {s} {pairs_str(sub['pairs'])})")
            plan.append((ci, "xreplace:" + sub["kind"], sub, _try(lambda r, rp=rp: r.xreplace(rp), real)))
    replies = m1.run_driver(DRIVER, lines, DRIVER_MODULES)
    assert replies[0] == "ok", replies[0]
    bad: list[dict] = []
    second = []  # evalat requests on the model results
    second_plan = []
    for (ci, op, sub, real_res), line in zip(plan, replies[1:]):
        c = cases[ci]
        if op == "wfsums":
            c["wf"] = line.strip() == "true"
            if line.strip() not in {"true", "false"}:
                bad.append({"op": op, "term": m1.show(c["canon"]), "why": "model error " + line.strip()})
            continue
        model = m1.read_reply(line)
        chk.count(("case", ci, op) if (c["depth"] >= 2 or len(c["top_idx"]) >= 2) else None)
        rec = {"op": op, "term": m1.show(c["canon"]), "real_term": str(c["real"]),
               "pairs": None if sub is None else [(str(m1.to_sympy(a, ctx)), str(m1.to_sympy(b, ctx))) for a, b in sub["pairs"]]}
        if isinstance(real_res, Exception):
            bad.append({**rec, "why": f"real code raised {type(real_res).__name__}: {real_res}", "model": line[:300]})
            continue
        if model[0] == "err":
            bad.append({**rec, "why": "model error " + model[1], "real": str(real_res)})
            continue
        if op == "free":
            mset = {m1.to_sympy(s, ctx) for s in model[1]}
            if mset != real_res:
                bad.append({**rec, "why": "free symbols differ", "real": sorted(map(str, real_res)), "model": sorted(map(str, mset))})
            continue
        try:
            rebuilt = m1.to_sympy_raw(model, ctx)  # pool sums of the model's result are NOT passed through PoolSum.__new__
        except Exception as e:  # noqa: BLE001
            bad.append({**rec, "why": f"model result cannot be rebuilt: {e!r}", "model": line[:300]})
            continue
        if rebuilt != real_res:
            bad.append({**rec, "why": "results differ structurally", "real": str(real_res), "model": str(rebuilt)})
            continue
        # semantic tie: Lean denotation of the model's result vs exact value of the real unfolded result
        # (only for results that satisfy the hypothesis `wfSums` of the theorems — a repeated index symbol, a pool that
        # mentions a sibling index or a captured symbol have no cartesian-product denotation: excluded, counted)
        if c.get("has_node"):
            continue
        second.append(f"(evalatwf {line.strip()} {m1.show_env(c['env'])})")
        second_plan.append((rec, c, real_res))
    # denotation of the original folded term as well
    for c in cases:
        if c.get("has_node"):
            continue
        second.append(f"(evalatwf {m1.show(c['canon'])} {m1.show_env(c['env'])})")
        second_plan.append(({"op": "denotation", "term": m1.show(c["canon"]), "real_term": str(c["real"])}, c, c["real"]))
    replies2 = m1.run_driver(DRIVER, [lines[0], *second], DRIVER_MODULES)
    n_eval = 0
    n_not_wf = 0
    for (rec, c, real_res), line in zip(second_plan, replies2[1:]):
        if line.strip() == "nwf":
            n_not_wf += 1
            continue
        model_val = m1.read_reply(line)
        try:
            unfolded = real_res.doit()
            real_val = m1.evaluate(m1.from_sympy(unfolded, ctx), c["env"])
        except Exception as e:  # noqa: BLE001
            bad.append({**rec, "why": f"real result could not be unfolded/evaluated: {e!r}"})
            continue
        n_eval += 1
        if model_val[0] != "rat" or m1.frac_of(model_val) != real_val:
            bad.append({**rec, "why": "Lean denotation of the model result != exact value of real result.doit()",
                        "env": {s[1]: str(v) for s, v in c["env"].items()}, "real_value": str(real_val), "model_value": line.strip()})
    chk.count(None, n_eval)
    stats["cases"] = len(cases)
    stats["cases_with_repeated_index_symbol_(structural_comparison_only)"] = sum(1 for c in cases if c["dup"])
    stats["cases_not_wfSums_(structural_comparison_only)"] = sum(1 for c in cases if not c.get("wf", True))
    stats["result_terms_not_wfSums_(no_denotation_comparison)"] = n_not_wf
    stats["denotation_comparisons"] = n_eval
    stats["requests"] = len(lines) - 1 + len(second)
    chk.info("input_distribution", stats)
    for c in cases[:3]:
        chk.sample({"term": str(c["real"]), "doit": str(c["real"].doit())[:200]})
    return bad


def _try(fn, *a):
    try:
        return fn(*a)
    except Exception as e:  # noqa: BLE001
        return e


def _evaluate_all(real):
    return real.evaluate()


def _cleanup_all(real):
    return real.cleanup()
