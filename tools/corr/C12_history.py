"""C12 history correspondence: sequences of calls on ONE builder object.

Real side: `ampform.dynamics.builder.RelativisticBreitWignerBuilder` objects (fresh ones for every
flag combination x phase-space factor, and the three module-level objects behind
`create_relativistic_breit_wigner`, `create_relativistic_breit_wigner_with_ff`,
`create_analytic_breit_wigner`) are driven in-process through seeded call histories that mix
variable pools with `angular_momentum` None / 0 / 1 / 2, several resonances (integer and
half-integer spin, with and without LaTeX name) and two sets of kinematic symbols.

Lean side: `Ampverif/Model/C12Builder.lean` (state machine: builder = configuration; `main` is the
line-protocol driver) receives the same lines.

Canonical form of one call (no floats cross the protocol): which public lineshape the returned
expression IS, decided by structural equality with the expression built from the public function
API for exactly this call's resonance symbols, pool symbols, L and phase-space class
(`plain | ff | edw | full | ValueError | other:<…>`), `defaults=bad` appended when the parameter
defaults are not the resonance's tabulated mass/width (and radius 1), followed by the builder's
attributes after the call.

`purity_oracle` is the independent statement: every call of a history returns what a FRESH builder
of the same configuration returns for that call, and the attributes never change.
"""

from __future__ import annotations

from tools.lib import common

PHSP = ["PhaseSpaceFactor", "PhaseSpaceFactorAbs", "PhaseSpaceFactorComplex", "PhaseSpaceFactorSWave",
        "EqualMassPhaseSpaceFactor"]
MODULE_BUILDERS = {  # documented configuration of the module-level builder objects
    "create_relativistic_breit_wigner": (False, False, 0),
    "create_relativistic_breit_wigner_with_ff": (True, True, 0),
    "create_analytic_breit_wigner": (True, True, 4),
}
L_VALUES = [None, 0, 1, 2]


def resonances():
    from qrules.particle import Particle

    return [
        Particle(name="N(1650)+", pid=32212, spin=0.5, mass=1.65, width=0.125, latex=None),
        Particle(name="rho(770)0", pid=113, spin=1, mass=0.775, width=0.149, latex=R"\rho(770)^0"),
        Particle(name="f(2)(1270)", pid=225, spin=2, mass=1.275, width=0.187, latex="f_2(1270)"),
        Particle(name="f(0)(980)", pid=9010221, spin=0, mass=0.99, width=0.06, latex=None),
        Particle(name="Delta(1232)++", pid=2224, spin=1.5, mass=1.232, width=0.117, latex=R"\Delta(1232)^{++}"),
    ]


def pool(p: int, ell):
    import sympy as sp

    from ampform.dynamics.builder import TwoBodyKinematicVariableSet

    names = [("m_12", "m_1", "m_2", "theta_1^12", "phi_1^12"), ("m_023", "m_0", "m_23", "theta_0^023", "phi_0^023")][p]
    return TwoBodyKinematicVariableSet(
        incoming_state_mass=sp.Symbol(names[0], nonnegative=True),
        outgoing_state_mass1=sp.Symbol(names[1], nonnegative=True),
        outgoing_state_mass2=sp.Symbol(names[2], nonnegative=True),
        helicity_theta=sp.Symbol(names[3], real=True),
        helicity_phi=sp.Symbol(names[4], real=True),
        angular_momentum=ell,
    )


def phsp_class(i: int):
    from ampform.dynamics import phasespace as ps

    return getattr(ps, PHSP[i])


def phsp_index(obj) -> str:
    name = getattr(obj, "__name__", None)
    return str(PHSP.index(name)) if name in PHSP and obj is phsp_class(PHSP.index(name)) else "?"


def make_builder(kind, cfg):
    """(builder object, configuration) — a fresh object or one of the module-level ones."""
    from ampform.dynamics import builder as bld

    if kind == "fresh":
        ff, edw, ph = cfg
        return bld.RelativisticBreitWignerBuilder(form_factor=ff, energy_dependent_width=edw, phsp_factor=phsp_class(ph)), cfg
    return getattr(bld, kind).__self__, MODULE_BUILDERS[kind]


def attrs_line(b) -> str:
    return (f"attrs ff={int(bool(b.form_factor))} edw={int(bool(b.energy_dependent_width))} "
            f"phsp={phsp_index(b.phsp_factor)}")


def classify(expr, defaults, res, res_idx, p, ell) -> str:  # noqa: PLR0911
    """Which public lineshape `expr` is, for THIS call's resonance, pool and L."""
    import sympy as sp

    import ampform.dynamics as dyn

    vp = pool(p, ell)
    ident = res.latex or res.name
    sm = sp.Symbol(f"m_{{{ident}}}", nonnegative=True)
    sg = sp.Symbol(Rf"\Gamma_{{{ident}}}", nonnegative=True)
    sd = sp.Symbol(f"d_{{{ident}}}", positive=True)
    s = vp.incoming_state_mass**2
    ma, mb = vp.outgoing_state_mass1, vp.outgoing_state_mass2
    mw = {sm: res.mass, sg: res.width}
    mwd = {**mw, sd: 1}

    def done(text, want):
        return text if dict(defaults) == want else text + " defaults=bad"

    plain = dyn.relativistic_breit_wigner(s, sm, sg)
    if expr == plain:
        return done(f"plain res={res_idx} pool={p}", mw)
    if ell is None:
        return "other:expression-for-L-None"
    if expr == dyn.FormFactor(s, ma, mb, ell, sd) * plain:
        return done(f"ff res={res_idx} pool={p} L={ell}", mwd)
    for i in range(len(PHSP)):
        cls = phsp_class(i)
        width = dyn.EnergyDependentWidth(s, sm, sg, ma, mb, ell, sd, phsp_factor=cls)
        if expr == (sm * sg) / (sm**2 - s - width * sm * sp.I):
            return done(f"edw res={res_idx} pool={p} L={ell} phsp={i}", mwd)
        if expr == dyn.relativistic_breit_wigner_with_ff(s, sm, sg, ma, mb, ell, sd, phsp_factor=cls):
            return done(f"full res={res_idx} pool={p} L={ell} phsp={i}", mwd)
    return "other:unrecognised-expression"


def real_call(b, res_list, r, ell, p) -> str:
    try:
        expr, defaults = b(res_list[r], pool(p, ell))
    except ValueError:
        out = "ValueError"
    except Exception as e:  # noqa: BLE001
        out = f"other:{type(e).__name__}"
    else:
        out = classify(expr, defaults, res_list[r], r, p, ell)
    return f"{out} | {attrs_line(b)}"


def gen_histories(rng, n: int):
    """[(builder kind, cfg, [(res, L, pool)...])]; the first ones are fixed shapes (None first, None in
    the middle, only None), the rest random; every module-level object gets histories too."""
    hists = []
    fixed = [[(0, None, 0), (1, 1, 0), (2, 2, 1)], [(1, 1, 0), (4, None, 1), (1, 1, 0), (3, 0, 0)], [(0, None, 0), (4, None, 1)]]
    for ff in (False, True):
        for edw in (False, True):
            for h in fixed:
                hists.append(("fresh", (ff, edw, (2 * ff + edw) % len(PHSP)), h))
    for name in MODULE_BUILDERS:
        hists.append((name, MODULE_BUILDERS[name], fixed[1]))
        hists.append((name, MODULE_BUILDERS[name], fixed[0]))
    while len(hists) < n:
        kind = rng.choice(["fresh", "fresh", "fresh", *MODULE_BUILDERS])
        cfg = (rng.random() < 0.6, rng.random() < 0.6, rng.randrange(len(PHSP))) if kind == "fresh" else MODULE_BUILDERS[kind]
        h = [(rng.randrange(5), rng.choice(L_VALUES), rng.randrange(2)) for _ in range(rng.randint(2, 8))]
        hists.append((kind, cfg, h))
    return hists


def run_correspondence(chk: common.Check, rng, n: int):
    """Drive the real builders and the Lean model through the same histories and diff."""
    res_list = resonances()
    hists = gen_histories(rng, n)
    lines, real = [], []
    shape_count: dict = {}
    for kind, cfg, h in hists:
        b, cfg = make_builder(kind, cfg)
        lines.append(f"builder {int(cfg[0])} {int(cfg[1])} {cfg[2]}")
        for r, ell, p in h:
            lines.append(f"call {r} {'-' if ell is None else ell} {p}")
            real.append((kind, cfg, h, (r, ell, p), real_call(b, res_list, r, ell, p)))
        key = ("module" if kind != "fresh" else "fresh", cfg[0], cfg[1], any(x[1] is None for x in h))
        shape_count[str(key)] = shape_count.get(str(key), 0) + 1
    out = common.lean_run("Ampverif/Drivers/C12Builder.lean", "\n".join(lines) + "\n")
    model = [ln for ln in out.split("\n") if ln.strip()]
    chk.info("history_correspondence", {"histories": len(hists), "calls": len(real), "input_distribution": shape_count})
    if len(model) != len(real):
        chk.broken_correspondence("history", f"driver returned {len(model)} lines for {len(real)} calls")
        return
    mism = 0
    for (kind, cfg, h, call, got), want in zip(real, model):
        ok = got == want
        chk.count(("history", kind, cfg, tuple(h), call) if ok else None)
        if not ok:
            mism += 1
            if mism <= 3:
                chk.broken_correspondence("history", {
                    "builder": kind, "config": {"form_factor": cfg[0], "energy_dependent_width": cfg[1], "phsp_factor": PHSP[cfg[2]]},
                    "history": [list(x) for x in h], "call": list(call), "real": got, "model": want})
    chk.info("history_mismatches", mism)
    if real:
        chk.sample({"history_call": list(real[0][3]), "builder": real[0][0], "real": real[0][4], "model": model[0]})


def _outcome(b, res, vp):
    try:
        expr, defaults = b(res, vp)
    except Exception as e:  # noqa: BLE001
        return ("raise", type(e).__name__)
    return ("ok", expr, dict(defaults))


def purity_oracle(chk: common.Check, rng, n: int):
    """Statement: the result of call k on a builder object equals the result of the same call on a
    FRESH builder of the same configuration, and the attributes are unchanged after every call."""
    res_list = resonances()
    bad = []
    for hi, (kind, cfg, h) in enumerate(gen_histories(rng, n)):
        b, cfg = make_builder(kind, cfg)
        cfgd = {"form_factor": cfg[0], "energy_dependent_width": cfg[1], "phsp_factor": PHSP[cfg[2]]}
        attr_reported = False
        for k, (r, ell, p) in enumerate(h):
            got = _outcome(b, res_list[r], pool(p, ell))
            fresh, _ = make_builder("fresh", cfg)
            want = _outcome(fresh, res_list[r], pool(p, ell))
            attrs = (bool(b.form_factor), bool(b.energy_dependent_width), phsp_index(b.phsp_factor))
            chk.count(("purity", hi, k))
            if got != want:
                bad.append({"what": "builder call depends on earlier calls on the same builder object (differs from a fresh builder of the same configuration)",
                            "builder": kind, "config": cfgd, "history_resonance_L_pool": [[res_list[a].name, b_, c] for a, b_, c in h[: k + 1]],
                            "call_index": k, "result": str(got[1])[:300], "fresh_builder_result": str(want[1])[:300]})
                break
            if attrs != (cfg[0], cfg[1], str(cfg[2])) and not attr_reported:
                attr_reported = True
                bad.append({"what": "builder attributes changed by a call", "builder": kind, "config": cfgd,
                            "history_resonance_L_pool": [[res_list[a].name, b_, c] for a, b_, c in h[: k + 1]], "call_index": k,
                            "attributes_after": {"form_factor": attrs[0], "energy_dependent_width": attrs[1], "phsp_factor_index": attrs[2]}})
        if len(bad) > 6:
            break
    return bad


def none_facts():
    """What a call without angular momentum does on the tree under test (pinned as facts)."""
    import sympy as sp

    import ampform.dynamics as dyn
    from ampform.dynamics import builder as bld

    res = resonances()[0]
    vp = pool(0, None)
    facts = {}
    expr, defaults = bld.RelativisticBreitWignerBuilder()(res, vp)
    sm, sg = sp.Symbol(f"m_{{{res.name}}}", nonnegative=True), sp.Symbol(Rf"\Gamma_{{{res.name}}}", nonnegative=True)
    facts["L_None_plain_builder_returns_plain_breit_wigner"] = bool(
        expr == dyn.relativistic_breit_wigner(vp.incoming_state_mass**2, sm, sg) and dict(defaults) == {sm: res.mass, sg: res.width})
    raised = []
    for ff, edw in ((True, False), (False, True), (True, True)):
        try:
            bld.RelativisticBreitWignerBuilder(ff, edw)(res, vp)
            raised.append("no exception")
        except ValueError as e:
            raised.append("ValueError" + (":angular momentum" if "Angular momentum is not defined" in str(e) else ""))
        except Exception as e:  # noqa: BLE001
            raised.append(type(e).__name__)
    try:
        bld.create_non_dynamic_with_ff(res, vp)
        raised.append("no exception")
    except ValueError:
        raised.append("ValueError")
    facts["L_None_with_form_factor_or_width_raises"] = raised
    return facts
