"""C02: reactions whose transitions span SEVERAL decay topologies of >= 4 final-state particles.

The class (round 5): the same two-body sub-decay -- same edge ids, same particles, helicities and interaction, i.e. an
equal `TwoBodyDecay` -- sits under DIFFERENT ancestors in two topologies (or in two identical-particle graphs of one
topology), so that its helicity angles (boost-chain suffix `_2^23` vs `_2^23,023` vs `_2^23,023,0123`) differ although
everything a per-node key could contain is equal.  Everything here is built from qrules dataclasses (or stored qrules
reactions that are only thinned), nothing is ampform's:

* `tree_topology`: a `Topology` from a nested-pair description of the decay tree, with the ids of the intermediate edges
  chosen per SUBSYSTEM, so that the same subsystem carries the same edge id in every topology of a reaction (as in real
  qrules output, where e.g. omega -> pi0 gamma is edge 5 -> (2, 3) in both J/psi -> f0 omega and J/psi -> pi- b1+);
* `build_multi`: a reaction on several such trees with one particle per subsystem (the same resonance in several
  topologies), common outer helicity tuples (so that the topologies interfere) and all valid intermediate helicities;
* `shaped_multi_reactions`: deterministic members of the class and of its neighbours (two-resonance vs cascade
  topologies, 5 final states with a shared sub-decay at depth 2 and 3, a shared TWO-node sub-chain, identical particles
  that move a sub-decay under another ancestor within ONE transition, per-topology instead of per-subsystem edge ids);
* `random_multi_reaction`: the seeded stream;
* `thin_real`: a stored real qrules reaction restricted to a few outer helicity tuples (all topologies kept).

`shared_subdecays` counts what the evidence reports: equal `TwoBodyDecay`s whose angle suffixes differ.
"""

from __future__ import annotations

import itertools
from fractions import Fraction

NAMES = ["Xa", "Rb(1)", "Rc~-", "omega(782)", "f(0)(980)", "b(1)(1235)+", "K*(892)0", "N(1440)+", "Delta(1232)++",
         "chi(c1)(1P)", "a(1)(1260)-", "Lambda(1520)", "eta'", "D*0", "phi(1020)", "Z_c", "Y(2)", "Sigma(1385)~-"]


# ----------------------------------------------------------------------------- decay trees


def leaves(tree) -> tuple[int, ...]:
    if isinstance(tree, int):
        return (tree,)
    return tuple(sorted(leaves(tree[0]) + leaves(tree[1])))


def subsystems(tree, top: bool = True) -> list[tuple[int, ...]]:
    """leaf sets of the intermediate edges (the root is the initial state, not a subsystem)."""
    if isinstance(tree, int):
        return []
    own = [] if top else [leaves(tree)]
    return own + subsystems(tree[0], False) + subsystems(tree[1], False)


def ancestor_chain(tree, sub: tuple[int, ...]) -> tuple | None:
    """leaf sets of the proper ancestors of subsystem `sub` below the root (nearest first), or None if absent."""

    def rec(t, chain):
        for child in t:
            if isinstance(child, int):
                continue
            if leaves(child) == sub:
                return tuple(chain)
            r = rec(child, [leaves(child), *chain])
            if r is not None:
                return r
        return None

    return rec(tree, [])


def all_trees(ids: tuple[int, ...]) -> list:
    """all unordered binary trees over the labelled leaves `ids` (3 -> 3, 4 -> 15, 5 -> 105)."""
    ids = tuple(sorted(ids))
    if len(ids) == 1:
        return [ids[0]]
    out = []
    first, rest = ids[0], ids[1:]
    for k in range(len(rest) + 1):
        for others in itertools.combinations(rest, k):
            left = (first, *others)
            right = tuple(i for i in rest if i not in others)
            if not right:
                continue
            for a in all_trees(left):
                for b in all_trees(right):
                    out.append((a, b))
    return out


def assign_edge_ids(trees, n_fs: int, mode: str = "subsystem-compact") -> list[dict]:
    """intermediate edge ids for every tree: {subsystem: id}.

    `subsystem-compact` (qrules-like): ids n_fs, n_fs+1, ...; a subsystem keeps the id it got in an earlier tree whenever that
    id is still free in the tree at hand, different subsystems of different trees may share an id.
    `subsystem-global`: one id per subsystem over the whole reaction.
    `per-topology`: ids n_fs, n_fs+1, ... in traversal order of each tree (a shared subsystem may get different ids)."""
    if mode == "subsystem-global" and n_fs + len({s for t in trees for s in subsystems(t)}) > 8:
        # edge ids stay below 8: `intermediate_edge_ids` is a frozenset, and only for such ids is its iteration order (which
        # breaks the ties of ampform's natural sorting of "023" vs "23") simply ascending, as the Lean model assumes
        mode = "subsystem-compact"
    out = []
    known: dict[tuple, int] = {}
    for tree in trees:
        subs = subsystems(tree)
        ids: dict[tuple, int] = {}
        if mode == "per-topology":
            for i, s in enumerate(subs):
                ids[s] = n_fs + i
        elif mode == "subsystem-global":
            for s in subs:
                known.setdefault(s, n_fs + len(known))
                ids[s] = known[s]
        else:
            for s in subs:
                if s in known and known[s] not in ids.values():
                    ids[s] = known[s]
            for s in subs:
                if s not in ids:
                    free = next(i for i in itertools.count(n_fs) if i not in ids.values())
                    ids[s] = free
                    known.setdefault(s, free)
        out.append(ids)
    return out


def tree_topology(tree, edge_ids: dict, node_perm=None):
    """`Topology` of a decay tree: initial edge -1 into node 0; nodes numbered breadth first (as qrules does), optionally
    permuted below the root."""
    from qrules.topology import Edge, Topology

    order = []  # internal subtrees breadth first
    queue = [tree]
    while queue:
        t = queue.pop(0)
        order.append(t)
        queue += [c for c in t if not isinstance(c, int)]
    number = {id(t): i for i, t in enumerate(order)}
    if node_perm is not None:
        number = {k: (0 if v == 0 else node_perm[v - 1]) for k, v in number.items()}
    edges = {-1: Edge(None, 0)}
    for t in order:
        for c in t:
            if isinstance(c, int):
                edges[c] = Edge(number[id(t)], None)
            else:
                edges[edge_ids[leaves(c)]] = Edge(number[id(t)], number[id(c)])
    return Topology(nodes=set(number.values()), edges=edges)


# ----------------------------------------------------------------------------- reactions


def _particle(name, latex, spin2, parity, i):
    from qrules.particle import Parity, Particle

    return Particle(name=name, pid=700 + i, latex=latex, spin=Fraction(spin2, 2), mass=0.6 + 0.17 * i, width=0.11,
                    parity=Parity(parity))


def build_multi(trees, initial, finals, resonances, canonical: bool, outer=None, max_outer: int = 2,
                max_per_topology: int = 8, id_mode: str = "subsystem-compact", node_perms=None, eta_none=(),
                max_ls: int = 2, rng=None):
    """A reaction whose transitions live on the topologies of `trees`.

    `initial` = (name, latex, spin2, parity); `finals[i]` likewise (equal names = identical particles);
    `resonances[subsystem]` likewise (one particle per subsystem, shared by all trees that contain it);
    `outer` = explicit list of doubled helicity tuples (initial, final 0, final 1, ...) or None: `max_outer` tuples are
    taken evenly (or with `rng`) from those for which EVERY tree has a valid chain.  Per tree all valid intermediate
    helicities, thinned evenly to `max_per_topology`; canonical: the parity-allowed LS combinations (<= `max_ls` per node)."""
    from qrules.quantum_numbers import InteractionProperties
    from qrules.topology import FrozenTransition
    from qrules.transition import ReactionInfo, State

    n_fs = len(finals)
    id_maps = assign_edge_ids(trees, n_fs, id_mode)
    by_name = {}

    def particle(spec):
        if spec[0] not in by_name:
            by_name[spec[0]] = _particle(*spec, len(by_name))
        return by_name[spec[0]]

    p_initial = particle(initial)
    p_final = [particle(s) for s in finals]
    p_res = {s: particle(spec) for s, spec in resonances.items()}
    spin2 = {-1: initial[2], **{i: finals[i][2] for i in range(n_fs)}}
    parity = {-1: initial[3], **{i: finals[i][3] for i in range(n_fs)}}

    per_tree = []
    for k, (tree, ids) in enumerate(zip(trees, id_maps)):
        topo = tree_topology(tree, ids, None if node_perms is None else node_perms[k])
        sp2, par, part = dict(spin2), dict(parity), {-1: p_initial, **dict(enumerate(p_final))}
        for s, e in ids.items():
            sp2[e], par[e], part[e] = resonances[s][2], resonances[s][3], p_res[s]
        info = {}
        for n in topo.nodes:
            (pin,) = topo.get_edge_ids_ingoing_to_node(n)
            c1, c2 = sorted(topo.get_edge_ids_outgoing_from_node(n))
            pp = par[pin] * par[c1] * par[c2]
            expo = (sp2[pin] - sp2[c1] - sp2[c2]) // 2
            if (sp2[pin] - sp2[c1] - sp2[c2]) % 2:
                raise ValueError(f"spin of edge {pin} is inconsistent with its decay products (integer vs half-integer)")
            conserving = (k, n) not in eta_none
            ls_opts = []
            for s2 in range(abs(sp2[c1] - sp2[c2]), sp2[c1] + sp2[c2] + 1, 2):
                for l2 in range(abs(sp2[pin] - s2), sp2[pin] + s2 + 1, 2):
                    if l2 % 2 or (conserving and (-1) ** ((l2 // 2) % 2) != pp):
                        continue
                    ls_opts.append((l2 // 2, Fraction(s2, 2)))
            ls_opts.sort()
            info[n] = {"pin": pin, "c": (c1, c2), "eta": float(pp * (-1) ** (expo % 2)) if conserving else None,
                       "ls": ls_opts[:max_ls] or [(None, None)]}
        inter_edges = sorted(ids.values())
        per_tree.append({"topo": topo, "sp2": sp2, "part": part, "info": info, "inter": inter_edges})

    def chains_for(pt, outer_tuple):
        h0 = dict(zip([-1, *range(n_fs)], outer_tuple))
        out = []
        for combo in itertools.product(*[range(-pt["sp2"][e], pt["sp2"][e] + 1, 2) for e in pt["inter"]]):
            h = {**h0, **dict(zip(pt["inter"], combo))}
            if all(abs(h[i["c"][0]] - h[i["c"][1]]) <= pt["sp2"][i["pin"]] for i in pt["info"].values()):
                out.append(h)
        return out

    if outer is None:
        ranges = [range(-spin2[e], spin2[e] + 1, 2) for e in [-1, *range(n_fs)]]
        candidates = [o for o in itertools.product(*ranges) if all(chains_for(pt, o) for pt in per_tree)]
        if not candidates:
            return None
        if rng is not None:
            rng.shuffle(candidates)
            outer = candidates[:max_outer]
        else:
            step = max(1.0, len(candidates) / max_outer)
            outer = [candidates[int(k * step)] for k in range(min(max_outer, len(candidates)))]
    # like qrules: closed under the exchange of identical final-state particles (all permutations of their helicities)
    groups: dict[str, list[int]] = {}
    for i, f in enumerate(finals):
        groups.setdefault(f[0], []).append(i)
    closed = list(dict.fromkeys(tuple(o) for o in outer))
    for ids in groups.values():
        if len(ids) > 1:
            for o in list(closed):
                for perm in itertools.permutations(ids):
                    q = list(o)
                    for a, b in zip(ids, perm):
                        q[1 + a] = o[1 + b]
                    if tuple(q) not in closed:
                        closed.append(tuple(q))
    outer = closed
    transitions = []
    for pt in per_tree:
        per_outer = [chains_for(pt, o) for o in outer]
        ls_products = list(itertools.product(*[pt["info"][n]["ls"] for n in sorted(pt["info"])])) if canonical \
            else [tuple((None, None) for _ in pt["info"])]
        budget = max(1, max_per_topology // len(ls_products))
        if sum(len(c) for c in per_outer) > budget:  # thin evenly, but keep at least one chain per outer tuple
            share = max(1, budget // max(1, sum(1 for c in per_outer if c)))
            per_outer = [[c[int(k * len(c) / min(share, len(c)))] for k in range(min(share, len(c)))] for c in per_outer]
        chains = [h for c in per_outer for h in c]
        for h in chains:
            states = {e: State(pt["part"][e], h[e] / 2) for e in pt["topo"].edges}
            for lsp in ls_products:
                inter = {n: InteractionProperties(l_magnitude=l, s_magnitude=s_, parity_prefactor=pt["info"][n]["eta"])
                         for n, (l, s_) in zip(sorted(pt["info"]), lsp)}
                transitions.append(FrozenTransition(pt["topo"], states, inter))
    if not transitions or (canonical and any(i.l_magnitude is None for t in transitions for i in t.interactions.values())):
        return None
    reaction = ReactionInfo(transitions, formalism="canonical-helicity" if canonical else "helicity")
    return reaction if exchange_closed(reaction) else None


# ----------------------------------------------------------------------------- the class, measured


def _attached(topo, e):
    ed = topo.edges[e]
    if ed.ending_node_id is None:
        return (e,)
    out = ()
    for c in topo.get_edge_ids_outgoing_from_node(ed.ending_node_id):
        out += _attached(topo, c)
    return tuple(sorted(out))


def _chain_of(topo, e):
    """leaf sets of the ancestors of edge `e` below the initial state."""
    out = []
    cur = e
    while True:
        n = topo.edges[cur].originating_node_id
        if n is None:
            break
        (parent,) = topo.get_edge_ids_ingoing_to_node(n)
        if topo.edges[parent].originating_node_id is None:
            break
        out.append(_attached(topo, parent))
        cur = parent
    return tuple(out)


def node_keys(topo, states, interactions):
    """per node: (what a per-node key can contain, what the angles additionally depend on)."""
    out = []
    for n in topo.nodes:
        (pin,) = topo.get_edge_ids_ingoing_to_node(n)
        kids = sorted(topo.get_edge_ids_outgoing_from_node(n), key=lambda e: _attached(topo, e))

        def st(e):
            return (e, states[e].particle.name, float(states[e].spin_projection))

        i = interactions[n]
        key = (st(pin), st(kids[0]), st(kids[1]), (i.l_magnitude, i.s_magnitude, i.parity_prefactor))
        out.append((key, (_attached(topo, kids[0]), *_chain_of(topo, kids[0]))))
    return out


def shared_subdecays(reaction) -> dict:
    """How often the class occurs in `reaction`: equal `TwoBodyDecay` content (edge ids, particles, helicities,
    interaction) with different boost chains, over all identical-particle graphs of all transitions."""
    from tools.corr import C02_oracle as O

    chains: dict[tuple, set] = {}
    names: dict[tuple, set] = {}
    topologies = set()
    for t in reaction.transitions:
        topologies.add(t.topology)
        for topo, states, _ in O.symmetrise(t):
            for key, chain in node_keys(topo, states, t.interactions):
                chains.setdefault(key, set()).add(chain)
                no_ids = tuple((x[1], x[2]) for x in key[:3]) + (key[3],)
                names.setdefault(no_ids, set()).add(chain)
    return {
        "topologies": len(topologies),
        "final_states": len(reaction.final_state),
        "equal_decay_keys_with_different_boost_chains": sum(1 for v in chains.values() if len(v) > 1),
        "equal_particles_and_helicities_with_different_boost_chains": sum(1 for v in names.values() if len(v) > 1),
        "max_chain_depth": max((len(c) - 1 for v in chains.values() for c in v), default=0),
    }


def exchange_closed(reaction) -> bool:
    """Is the transition list closed under the exchange of identical final-state particles, as far as the intensity can
    tell: does every identical-particle graph of every transition carry outer projections inside the per-state pools of
    the reaction (`collect_spin_projections` over the TRANSITIONS)?  Every qrules reaction is (it contains all helicity
    combinations); a thinned or hand-made list need not be, and then the amplitude symbol of such a graph is defined but
    not summed by the outer PoolSum (while the I_ component contains it): the statement "incoherent sum over the outer
    projections" is ambiguous there, so such reactions are kept out of the numeric verdict (recorded as observations)."""
    from tools.corr import C02_oracle as O

    pools: dict[int, set] = {}
    for t in reaction.transitions:
        for e in [*t.topology.incoming_edge_ids, *t.topology.outgoing_edge_ids]:
            pools.setdefault(e, set()).add(O.d2(t.states[e].spin_projection))
    for t in reaction.transitions:
        for _, states, _ in O.symmetrise(t):
            if any(O.d2(states[e].spin_projection) not in pools[e] for e in pools):
                return False
    return True


# ----------------------------------------------------------------------------- deterministic members of the class


def shaped_multi_reactions(big: bool = False) -> dict:
    out = {}
    j1 = ("V1", "V_{1}", 2, -1)
    pip, pim, pi0, gam = ("pa+", "\\pi^{+}", 0, -1), ("pa-", "\\pi^{-}", 0, -1), ("pa0", None, 0, -1), ("g", "\\gamma", 2, -1)
    om = ("omega(782)", "\\omega(782)", 2, -1)
    # 1. the documented witness, shaped: V -> (01)(23) | 1 (0 (23)) | 0 (1 (23)): the vector (23) below nothing, below (023),
    #    below (123); the scalar pair resonance and the axial resonance in two charge states
    trees4 = [((0, 1), (2, 3)), (1, (0, (2, 3))), (0, (1, (2, 3)))]
    res4 = {(0, 1): ("f(0)(980)", "f_{0}(980)", 0, 1), (2, 3): om, (0, 2, 3): ("b(1)(1235)+", "b_{1}(1235)^{+}", 2, 1),
            (1, 2, 3): ("b(1)(1235)-", "b_{1}(1235)^{-}", 2, 1)}
    out["multi_4body_two_res_vs_cascades.hel"] = build_multi(
        trees4, j1, [pip, pim, pi0, gam], res4, canonical=False, max_outer=2, max_per_topology=9 if big else 6)
    out["multi_4body_two_res_vs_cascades.can"] = build_multi(
        trees4[:2], j1, [pip, pim, pi0, gam], res4, canonical=True, outer=[(2, 0, 0, 0, 2)], max_per_topology=16 if big else 8)
    # 2. five final states: the pair (34) at depth 1, 2 and 3 and the TWO-node chain (234) -> 2 (34) under different
    #    ancestors; half-integer spins
    n12, k0, s1 = ("n12", "n", 1, 1), ("k0", "K^{0}", 0, -1), ("v1", None, 2, -1)
    trees5 = [((0, 1), (2, (3, 4))), (0, (1, (2, (3, 4)))), (((0, 1), 2), (3, 4)), (1, (0, (2, (3, 4))))]
    res5 = {(3, 4): ("Rv", "R_{v}", 2, -1), (2, 3, 4): ("N12", "N^{*}", 1, 1), (0, 1): ("S0", None, 0, 1),
            (1, 2, 3, 4): ("B32", "B_{3/2}", 3, 1), (0, 2, 3, 4): ("B12'", "B_{1/2}'", 1, -1), (0, 1, 2): ("M32", None, 3, -1)}
    out["multi_5body_depth3.hel"] = build_multi(
        trees5 if big else trees5[:3], ("Y12", "Y", 1, 1), [k0, ("k1", "K^{1}", 0, -1), n12, s1, ("t0", None, 0, 1)],
        res5, canonical=False, max_outer=1, max_per_topology=8 if big else 5)
    # 3. identical particles: ONE topology 0 (1 (23)) with identical 0 and 1 -- the two graphs of each transition carry
    #    the sub-decay 5 -> (2 3) below (123) and below (023)
    pi = ("pz", "\\pi", 0, -1)
    out["multi_identical_cascade.hel"] = build_multi(
        [(0, (1, (2, 3)))], j1, [pi, pi, ("e12", "e", 1, 1), ("q12", None, 1, 1)],
        {(2, 3): ("W1", "W", 2, -1), (1, 2, 3): ("A1", "A_{1}", 2, 1)}, canonical=False, max_outer=2,
        max_per_topology=10 if big else 6)
    # 4. the same two topologies with per-topology edge ids: the shared sub-decay has DIFFERENT ids (4 vs 5) but equal
    #    particles and helicities; node ids below the root permuted
    out["multi_4body_per_topology_ids.can"] = build_multi(
        [(1, (0, (2, 3))), ((2, 3), (0, 1))], j1, [pip, pim, pi0, gam], res4, canonical=True, outer=[(0, 0, 0, 0, -2)],
        max_per_topology=8, id_mode="per-topology", node_perms=[[2, 1], [2, 1]])
    # 5. a tie of ampform's natural sorting: the subsystems (23) and (023) of one topology name the amplitude base
    #    "A^23,023" or "A^023,23" according to the iteration order of the frozenset of their edge ids (4 = (23), 6 = (023)
    #    here, listed 6 first in the topology's edge mapping)
    out["multi_4body_sorting_tie.hel"] = build_multi(
        [((2, 3), (0, 1)), (1, (0, (2, 3)))], j1, [pip, pim, pi0, gam], res4, canonical=False, outer=[(2, 0, 0, 0, -2)],
        max_per_topology=3, id_mode="subsystem-global")
    return {k: v for k, v in out.items() if v is not None}


# ----------------------------------------------------------------------------- the seeded stream


def random_multi_reaction(rng, canonical: bool, max_transitions: int = 24):
    """2-3 topologies of 4 (mostly) or 5 final states that contain one common subsystem under different ancestors; one
    particle per subsystem; returns (reaction, description) or (None, None)."""
    n_fs = 4 if rng.random() < 0.75 else 5
    ids = tuple(range(n_fs))
    trees = all_trees(ids)
    size = 2 if n_fs == 4 or rng.random() < 0.6 else 3
    shared = tuple(sorted(rng.sample(ids, size)))
    with_shared = {}
    for t in trees:
        c = ancestor_chain(t, shared)
        if c is not None:
            with_shared.setdefault(c, []).append(t)
    chains = sorted(with_shared)
    rng.shuffle(chains)
    n_top = 2 if rng.random() < 0.6 else 3
    chosen = [rng.choice(with_shared[c]) for c in chains[:n_top]]
    if rng.random() < 0.25:  # a topology without the shared subsystem as well
        chosen.append(rng.choice(trees))
        chosen = list(dict.fromkeys(chosen))
    rng.shuffle(chosen)
    identical = rng.random() < 0.3
    spins = [rng.choice([0, 0, 1, 2]) for _ in ids]
    names = rng.sample(NAMES, len(NAMES))
    finals = []
    for i in ids:
        finals.append((f"f{i}_{spins[i]}", None if rng.random() < 0.5 else f"f^{{{i}}}", spins[i], rng.choice([1, -1])))
    if identical:
        a, b = rng.sample(ids, 2)
        finals[b] = finals[a]
    resonances = {}
    for t in chosen:
        for s in subsystems(t):
            if s not in resonances:
                par = sum(finals[i][2] for i in s) % 2
                sp2 = rng.choice([par, par, par + 2])
                nm = names.pop()
                resonances[s] = (nm, None if rng.random() < 0.5 else nm.replace("(", "_{").replace(")", "}"), sp2,
                                 rng.choice([1, -1]))
    par = sum(f[2] for f in finals) % 2
    initial = (names.pop(), None, rng.choice([par, par + 2]), rng.choice([1, -1]))
    id_mode = rng.choice(["subsystem-compact", "subsystem-compact", "subsystem-global", "per-topology"])
    node_perms = None
    if rng.random() < 0.3:
        node_perms = []
        for _ in chosen:
            p = list(range(1, n_fs - 1))
            rng.shuffle(p)
            node_perms.append(p)
    eta_none = {(k, n) for k in range(len(chosen)) for n in range(n_fs - 1) if rng.random() < 0.1}
    per_top = max(2, max_transitions // len(chosen))
    reaction = build_multi(chosen, initial, finals, resonances, canonical, max_outer=rng.choice([1, 2, 2, 3]),
                           max_per_topology=per_top, id_mode=id_mode, node_perms=node_perms,
                           eta_none=() if canonical else eta_none, max_ls=2, rng=rng)
    if reaction is None or len(reaction.transitions) > max_transitions + 8:
        return None, None
    desc = {"trees": [str(t) for t in chosen], "shared_subsystem": shared, "final_states": n_fs, "id_mode": id_mode,
            "initial": initial, "finals": finals, "resonances": {str(k): v for k, v in resonances.items()},
            "node_perms": node_perms, "formalism": reaction.formalism, "n_transitions": len(reaction.transitions),
            "particles": {}}
    return reaction, desc


# ----------------------------------------------------------------------------- real reactions, thinned


def thin_real(reaction, initial_projection=None, final_projections=None, max_per_topology: int = 12, lowest_ls: bool = False):
    """Restrict a stored qrules reaction to transitions with the given outer projections (dict id -> allowed values), then
    keep at most `max_per_topology` per topology (evenly); with `lowest_ls` only the lowest L of every node's options for the
    same states.  All topologies are kept."""
    from qrules.transition import ReactionInfo

    kept: dict = {}
    for t in reaction.transitions:
        (i0,) = t.topology.incoming_edge_ids
        if initial_projection is not None and float(t.states[i0].spin_projection) not in initial_projection:
            continue
        if final_projections and any(float(t.states[e].spin_projection) not in v for e, v in final_projections.items()):
            continue
        kept.setdefault(t.topology, []).append(t)
    out = []
    for topo, ts in kept.items():
        if lowest_ls:
            best: dict = {}
            for t in ts:
                k = tuple(sorted((e, s.particle.name, float(s.spin_projection)) for e, s in t.states.items()))
                ls = tuple((-1 if t.interactions[n].l_magnitude is None else int(t.interactions[n].l_magnitude),
                            -1.0 if t.interactions[n].s_magnitude is None else float(t.interactions[n].s_magnitude))
                           for n in sorted(t.interactions))
                if k not in best or ls < best[k][0]:
                    best[k] = (ls, t)
            ts = [v[1] for v in best.values()]
        if len(ts) > max_per_topology:
            step = len(ts) / max_per_topology
            ts = [ts[int(k * step)] for k in range(max_per_topology)]
        out += ts
    return ReactionInfo(out, formalism=reaction.formalism)
