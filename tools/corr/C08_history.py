"""C08 — call HISTORIES of the four matrix expression classes (HARDENING rule 3).

`BoostMatrix`, `BoostZMatrix`, `RotationYMatrix`, `RotationZMatrix` are unfolded by `evaluate()`
(through `doit()`, `lambdify`, the LaTeX printer). The property speaks about EXPRESSIONS, so the result
of unfolding must be a function of the expression alone — whatever was unfolded before in the same
process. A memo in front of `evaluate()` (decorator with a dict, `functools.cache`, a table shared by
the classes) keeps that only if its key separates the expressions in use (`Props/C08Memo.lean`:
`memo_pure_iff_injective`). This module drives the real classes through histories and ties them to the
model `Model/C08Memo.lean`:

* a POOL of matrix expressions per class: argument shapes with one integer position (`c*a`, `a**c`,
  `Integer(c)`, `Rational(c, 3)`, `Float(2**c)`, `a + c*b`, `exp(c*a)`, `c*a*b`; momenta `p + c*q`,
  `ArraySum(p, c*q)`, `NegativeMomentum(p + c*q)`), each with the integers of CPython's hash-collision
  set {-1, -2} and neighbours, plus plain different arguments, the same argument with another
  `n_events`, and a symbol of the same name with other assumptions;
* a worker process (fresh interpreter) that FORKS once per history, so every history starts from the
  state "ampform imported, nothing built": FRESH singles (one call per process) for every
  (expression, operation), PAIR histories in both orders for (a) the declared {-1,-2} pairs, (b) all
  pairs of pool expressions whose `hash()` values are really equal in this run, (c) cross-class /
  n_events / assumption pairs, (d) seeded plain pairs, and LONG seeded histories over the whole pool;
  one more long history runs in the check's own process (after everything the check built before);
* every result is compared with (ii) the FRESH result of the same call (text: `srepr` of the
  implementation object, generated source, LaTeX, `srepr` of the explicit matrix), canonicalised to
  "the pool expression whose fresh result this is" and diffed against the Lean model (key = the
  expression itself) — the correspondence; and, independently, (i) numerically with `as_explicit()`
  of ITS OWN argument and (iii) with the textbook matrix at the value of its own argument — the oracle.
"""

from __future__ import annotations

import json
import math
import os
import select
import signal
import subprocess
import sys
import time
from pathlib import Path

ROOT = Path(__file__).resolve().parents[2]
CLASSES = {"boost": "BoostMatrix", "boostZ": "BoostZMatrix", "rotY": "RotationYMatrix", "rotZ": "RotationZMatrix"}
OPS = ("evaluate", "doit", "lambdify0", "lambdify1", "explicit", "latex")
TEXT_OPS_STABLE = ("evaluate", "doit", "latex")  # text independent of the hash seed (canonical argument order)
N_EVENTS = 4

# --------------------------------------------------------------------------------------------- pool
# shape name -> (classes it applies to, integers for the open position, range kind of the sample points)
SCALAR = ("boostZ", "rotY", "rotZ")
SHAPES = {
    "c*a": (SCALAR, (-1, -2, -3, 1, 2), "small"),
    "a**c": (SCALAR, (-1, -2), "big"),
    "Integer(c)": (("rotY", "rotZ"), (-1, -2, 3), "small"),
    "Rational(c,3)": (SCALAR, (-1, -2, 1), "small"),
    "Float(2**c)": (SCALAR, (-1, -2), "small"),
    "a+c*b": (SCALAR, (-1, -2, 1), "small"),
    "exp(c*a)": (SCALAR, (-1, -2), "small"),
    "c*a*b": (SCALAR, (-1, -2), "small"),
    "c*b": (SCALAR, (1,), "small"),
    "c*a|n_events=b": (SCALAR, (1, -1), "small"),
    "c*a|a without assumptions": (SCALAR, (1,), "small"),
    "p+c*q": (("boost",), (-1, -2, -3, 1), "mom"),
    "ArraySum(p,c*q)": (("boost",), (-1, -2), "mom"),
    "N(p+c*q)": (("boost",), (-1, -2), "mom"),
    "c*p": (("boost",), (1,), "mom"),
    "c*q|big": (("boost",), (1,), "mom"),
    "N(c*p)": (("boost",), (1,), "mom"),
}
SHAPE_CODE = {s: i for i, s in enumerate(SHAPES)}


def pool():
    """[{id, cls, shape, coeff, nev, range}] — plain data, no ampform needed"""
    out = []
    for shape, (classes, coeffs, rk) in SHAPES.items():
        for cls in classes:
            for c in coeffs:
                out.append({"id": f"{cls}:{shape}:{c}", "cls": cls, "shape": shape, "coeff": c,
                            "nev": 1 if "n_events=b" in shape else 0, "range": rk})
    return out


def model_line(e) -> str:
    return f"{e['cls']} {SHAPE_CODE[e['shape']]} {e['coeff']} {e['nev']}"


def make_points(rng):
    """sample points per range kind (JSON-able)"""
    def mom(mass, spread):
        v = [rng.uniform(-spread, spread) for _ in range(3)]
        return [math.sqrt(mass * mass + sum(x * x for x in v)), *v]

    return {
        "small": {"a": [rng.uniform(0.05, 0.3) for _ in range(N_EVENTS)], "b": [rng.uniform(0.05, 0.3) for _ in range(N_EVENTS)]},
        "big": {"a": [rng.uniform(1.5, 3.0) for _ in range(N_EVENTS)], "b": [rng.uniform(1.5, 3.0) for _ in range(N_EVENTS)]},
        "mom": {"p": [mom(1.0, 0.17) for _ in range(N_EVENTS)], "q": [mom(0.05, 0.03) for _ in range(N_EVENTS)]},
    }


def arg_value(e, points):
    """numeric value of the argument of pool entry `e` on its sample points (numpy; independent of sympy)"""
    import numpy as np

    P = points[e["range"]]
    c = e["coeff"]
    s = e["shape"]
    if e["range"] == "mom":
        p, q = np.array(P["p"]), np.array(P["q"])
        neg = np.array([1.0, -1.0, -1.0, -1.0])
        return {"p+c*q": lambda: p + c * q, "ArraySum(p,c*q)": lambda: p + c * q, "N(p+c*q)": lambda: (p + c * q) * neg,
                "c*p": lambda: c * p, "c*q|big": lambda: c * q, "N(c*p)": lambda: c * p * neg}[s]()
    a, b = np.array(P["a"]), np.array(P["b"])
    one = np.ones_like(a)
    return {"c*a": lambda: c * a, "a**c": lambda: a ** float(c), "Integer(c)": lambda: c * one,
            "Rational(c,3)": lambda: c / 3 * one, "Float(2**c)": lambda: 2.0 ** c * one, "a+c*b": lambda: a + c * b,
            "exp(c*a)": lambda: np.exp(c * a), "c*a*b": lambda: c * a * b, "c*b": lambda: c * b,
            "c*a|n_events=b": lambda: c * a, "c*a|a without assumptions": lambda: c * a}[s]()


def textbook(e, points):
    """(n,4,4) textbook matrix of pool entry `e` at the value of its own argument"""
    import numpy as np

    v = arg_value(e, points)
    n = len(v)
    M = np.zeros((n, 4, 4))
    for i in range(4):
        M[:, i, i] = 1.0
    if e["cls"] == "rotY":
        M[:, 1, 1], M[:, 1, 3], M[:, 3, 1], M[:, 3, 3] = np.cos(v), np.sin(v), -np.sin(v), np.cos(v)
    elif e["cls"] == "rotZ":
        M[:, 1, 1], M[:, 1, 2], M[:, 2, 1], M[:, 2, 2] = np.cos(v), -np.sin(v), np.sin(v), np.cos(v)
    elif e["cls"] == "boostZ":
        g = 1 / np.sqrt(1 - v * v)
        M[:, 0, 0], M[:, 0, 3], M[:, 3, 0], M[:, 3, 3] = g, -g * v, -g * v, g
    else:
        E, k = v[:, 0], v[:, 1:]
        beta = k / E[:, None]
        b2 = np.sum(beta * beta, axis=1)
        g = 1 / np.sqrt(1 - b2)
        M[:, 0, 0] = g
        M[:, 0, 1:] = M[:, 1:, 0] = -g[:, None] * beta
        M[:, 1:, 1:] = np.eye(3)[None] + ((g - 1) / b2)[:, None, None] * beta[:, :, None] * beta[:, None, :]
    return M


# --------------------------------------------------------------------------------------------- real side


def _env():
    import sympy as sp

    from ampform.kinematics import lorentz as lz
    from ampform.sympy._array_expressions import ArraySum

    a, b = sp.symbols("a b", real=True)
    return {"sp": sp, "lz": lz, "ArraySum": ArraySum, "a": a, "b": b, "a_plain": sp.Symbol("a"),
            "p": lz.FourMomentumSymbol("p", shape=[]), "q": lz.FourMomentumSymbol("q", shape=[])}


def build_expr(e, env):
    """(matrix expression, lambdify arguments) of a pool entry — built anew on every call, never kept"""
    sp, lz = env["sp"], env["lz"]
    a, b, p, q = env["a"], env["b"], env["p"], env["q"]
    c = sp.Integer(e["coeff"])
    s = e["shape"]
    N = lz.NegativeMomentum
    if e["cls"] == "boost":
        arg = {"p+c*q": lambda: p + c * q, "ArraySum(p,c*q)": lambda: env["ArraySum"](p, c * q),
               "N(p+c*q)": lambda: N(p + c * q), "c*p": lambda: c * p, "c*q|big": lambda: c * q,
               "N(c*p)": lambda: N(c * p)}[s]()
        return lz.BoostMatrix(arg), [p, q]
    if s == "c*a|a without assumptions":
        a = env["a_plain"]
    arg = {"c*a": lambda: c * a, "a**c": lambda: a**c, "Integer(c)": lambda: c, "Rational(c,3)": lambda: sp.Rational(e["coeff"], 3),
           "Float(2**c)": lambda: sp.Float(2.0 ** e["coeff"]), "a+c*b": lambda: a + c * b, "exp(c*a)": lambda: sp.exp(c * a),
           "c*a*b": lambda: c * a * b, "c*b": lambda: c * b, "c*a|n_events=b": lambda: c * a,
           "c*a|a without assumptions": lambda: c * a}[s]()
    n_events = lz.ArraySize(b if e["nev"] else a)
    return getattr(lz, CLASSES[e["cls"]])(arg, n_events=n_events), [a, b]


def _arrays(e, points):
    import numpy as np

    P = points[e["range"]]
    return [np.array(P["p"]), np.array(P["q"])] if e["range"] == "mom" else [np.array(P["a"]), np.array(P["b"])]


def _matrix_values(val, n):
    import numpy as np

    if isinstance(val, (list, tuple)):  # nested lists of scalars / (n,) arrays (explicit matrices)
        arr = np.empty((n, 4, 4), dtype=complex)
        for i in range(4):
            for j in range(4):
                arr[:, i, j] = np.broadcast_to(np.asarray(val[i][j], dtype=complex), (n,))
    else:
        arr = np.broadcast_to(np.asarray(val), (n, 4, 4)).astype(complex)
    real = np.where(np.abs(arr.imag) > 0, np.nan, arr.real)
    return [float(x) for x in real.reshape(-1)]


def _values(f, e, points):
    """(values, error of the numeric call) — the text of the operation is kept when only the call fails"""
    import numpy as np

    try:
        with np.errstate(all="ignore"):
            return _matrix_values(f(*_arrays(e, points)), N_EVENTS), None
    except Exception as ex:  # noqa: BLE001
        return None, type(ex).__name__ + ": " + str(ex)[:120]


def do_op(e, op, env, points):
    """one operation on a freshly built expression → {"out": text, "vals": floats or None}"""
    import inspect

    sp = env["sp"]
    expr, args = build_expr(e, env)
    if op == "evaluate":
        return {"out": sp.srepr(expr.evaluate()), "vals": None}
    if op == "doit":
        return {"out": sp.srepr(expr.doit()), "vals": None}
    if op == "latex":
        return {"out": sp.latex(expr) + " |unfolded| " + sp.latex(expr.doit()), "vals": None}
    if op == "explicit":
        m = expr.as_explicit()
        vals, verr = _values(sp.lambdify(args, m.doit().tolist(), "numpy", cse=True), e, points)
        return {"out": sp.srepr(m), "vals": vals, "valerr": verr}
    f = sp.lambdify(args, expr.doit(), "numpy", cse=(op == "lambdify1"))
    vals, verr = _values(f, e, points)
    return {"out": inspect.getsource(f), "vals": vals, "valerr": verr}


def run_history(hist, by_id, points, env=None):
    """[(pool id, op)] in THIS process, in order"""
    env = env or _env()
    res = []
    for pid, op in hist:
        t0 = time.time()
        try:
            r = do_op(by_id[pid], op, env, points)
            r["err"] = None
        except Exception as ex:  # noqa: BLE001
            r = {"out": "", "vals": None, "err": type(ex).__name__ + ": " + str(ex)[:160]}
        r.update(id=pid, op=op, t=round(time.time() - t0, 4))
        res.append(r)
    return res


def hash_table(by_id):
    env = _env()
    out = {}
    for pid, e in by_id.items():
        expr, _ = build_expr(e, env)
        out[pid] = {"expr": str(hash(expr)), "arg": str(hash(expr.args[0]))}
    return out


# --------------------------------------------------------------------------------------------- worker


def _forked(fn, cap: float):
    """run fn() in a forked child (a process in which nothing but the imports has happened)"""
    r, w = os.pipe()
    pid = os.fork()
    if pid == 0:
        code = 0
        try:
            os.close(r)
            try:
                data = json.dumps({"ok": fn()}).encode()
            except BaseException as ex:  # noqa: BLE001
                data = json.dumps({"fatal": type(ex).__name__ + ": " + str(ex)[:300]}).encode()
            with os.fdopen(w, "wb") as f:
                f.write(data)
        except BaseException:  # noqa: BLE001
            code = 1
        os._exit(code)
    os.close(w)
    chunks = []
    deadline = time.time() + cap
    timed_out = False
    while True:
        left = deadline - time.time()
        if left <= 0:
            timed_out = True
            break
        rl, _, _ = select.select([r], [], [], min(left, 1.0))
        if not rl:
            continue
        b = os.read(r, 1 << 16)
        if not b:
            break
        chunks.append(b)
    os.close(r)
    if timed_out:
        try:
            os.kill(pid, signal.SIGKILL)
        except ProcessLookupError:
            pass
    os.waitpid(pid, 0)
    if timed_out:
        return {"timeout": cap}
    try:
        return json.loads(b"".join(chunks).decode())
    except Exception:  # noqa: BLE001
        return {"fatal": "child died without a result"}


def worker_main():
    """stdin: {"mode": "hashes"} or {"mode": "histories", "points", "histories", "cap"} → stdout JSON"""
    sys.path.insert(0, str(ROOT))
    from tools.lib import common

    common.use_repo_source()
    req = json.loads(sys.stdin.read())
    import numpy  # noqa: F401, ICN001  (imports happen BEFORE the forks: the children start from "imported, nothing built")
    import sympy  # noqa: F401, ICN001

    import ampform.kinematics.lorentz  # noqa: F401
    import ampform.sympy._array_expressions  # noqa: F401

    x = sympy.Symbol("warm_up")  # first use of lambdify / the printers costs 0.1 s: pay it once, before the forks
    sympy.lambdify([x], [[sympy.sin(x) + sympy.sqrt(x), x**2]], "numpy", cse=True)(numpy.ones(2))
    sympy.lambdify([x], sympy.cos(x) * x, "numpy", cse=False)
    sympy.latex(sympy.sin(x) / x)
    sympy.srepr(x + 1)
    by_id = {e["id"]: e for e in pool()}
    if req["mode"] == "hashes":
        out = _forked(lambda: hash_table(by_id), 60.0)
    else:
        out = [_forked(lambda h=h: run_history(h, by_id, req["points"]), req["cap"]) for h in req["histories"]]
    sys.stdout.write(json.dumps(out))


def call_worker(request, timeout: float, hashseed: str | None = None):
    from tools.lib import common

    env = dict(os.environ)
    if hashseed is not None:
        env["PYTHONHASHSEED"] = hashseed
    try:
        p = subprocess.run([sys.executable, "-m", "tools.corr.C08_history"], cwd=ROOT, input=json.dumps(request),
                           capture_output=True, text=True, timeout=timeout, env=env)
    except subprocess.TimeoutExpired as ex:
        raise common.InfraError("C08 history worker timed out") from ex
    if p.returncode != 0:
        raise RuntimeError("C08 history worker failed: " + p.stderr[-800:])
    return json.loads(p.stdout)


# --------------------------------------------------------------------------------------------- driver side


def _close(a, b, tol):
    if a is None or b is None or len(a) != len(b):
        return False, float("inf")
    worst = 0.0
    for x, y in zip(a, b):
        if math.isnan(x) and math.isnan(y):
            continue
        d = abs(x - y)
        if not d <= tol * max(1.0, abs(y)):
            return False, d
        worst = max(worst, d)
    return True, worst


def plan_pairs(entries, hashes, rng, n_plain: int):
    """[(kind, id_x, id_y)]"""
    by_key = {}
    for e in entries:
        by_key[(e["cls"], e["shape"], e["coeff"])] = e["id"]
    pairs = []
    seen = set()

    def add(kind, x, y):
        if x != y and (x, y) not in seen and (y, x) not in seen:
            seen.add((x, y))
            pairs.append((kind, x, y))

    for e in entries:  # (a) declared: the integers -1 / -2 in one open position
        if e["coeff"] == -1 and (e["cls"], e["shape"], -2) in by_key:
            add("declared -1/-2", e["id"], by_key[(e["cls"], e["shape"], -2)])
    groups = {}
    for pid, h in hashes.items():  # (b) equal hash() observed in this run
        groups.setdefault(h["expr"], []).append(pid)
    for g in groups.values():
        for i in range(len(g)):
            for j in range(i + 1, len(g)):
                add("equal hash observed", g[i], g[j])
    n_equal_arg = 0
    agroups = {}
    for pid, h in hashes.items():  # equal hash of the ARGUMENT across classes / within a class
        agroups.setdefault(h["arg"], []).append(pid)
    for g in agroups.values():
        for i in range(len(g)):
            for j in range(i + 1, len(g)):
                n_equal_arg += 1
                if rng.random() < 0.12:  # noqa: PLR2004
                    add("equal argument hash", g[i], g[j])
    for shape in ("c*a", "a+c*b"):  # (c) same argument in another class
        for c1, c2 in (("rotY", "rotZ"), ("boostZ", "rotY"), ("rotZ", "boostZ")):
            add("same argument, other class", by_key[(c1, shape, -1)], by_key[(c2, shape, -1)])
    for cls in SCALAR:
        add("same argument, other n_events", by_key[(cls, "c*a", 1)], by_key[(cls, "c*a|n_events=b", 1)])
        add("same argument, other n_events", by_key[(cls, "c*a", -1)], by_key[(cls, "c*a|n_events=b", -1)])
        add("same name, other assumptions", by_key[(cls, "c*a", 1)], by_key[(cls, "c*a|a without assumptions", 1)])
    add("inverted momentum", by_key[("boost", "c*p", 1)], by_key[("boost", "N(c*p)", 1)])
    add("sum written two ways", by_key[("boost", "p+c*q", -1)], by_key[("boost", "ArraySum(p,c*q)", -1)])
    add("sum written two ways", by_key[("boost", "p+c*q", -2)], by_key[("boost", "ArraySum(p,c*q)", -2)])
    for cls in CLASSES:  # (d) plain different arguments
        ids = [e["id"] for e in entries if e["cls"] == cls]
        for _ in range(n_plain):
            x, y = rng.sample(ids, 2)
            add("plain pair", x, y)
    return pairs, {"equal_expr_hash_groups": sum(1 for g in groups.values() if len(g) > 1),
                   "equal_arg_hash_pairs": n_equal_arg}


def pair_history(x, y, rng, k: int):
    first = OPS[k % len(OPS)]
    y_ops = ["evaluate", "doit", rng.choice(["lambdify0", "lambdify1"]), rng.choice(["explicit", "latex", "lambdify1"])]
    return [(x, first), *[(y, op) for op in y_ops], (x, "doit"), (x, rng.choice(["lambdify0", "lambdify1"]))]


def run(chk, rng, tier: str):  # noqa: C901, PLR0912, PLR0915
    """Histories correspondence + oracle. Returns the list of failing inputs (dicts with "what")."""
    from tools.lib import common

    t_start = time.time()
    entries = pool()
    by_id = {e["id"]: e for e in entries}
    points = make_points(rng)
    found = []

    # ---- the integer-hash model against the running interpreter (coverage information, never gating)
    ints = list(range(-6, 7))
    model_out = common.lean_run("Ampverif/Drivers/C08Memo.lean", "".join(f"pyhash {n}\n" for n in ints)).split()
    import sympy as sp

    agree = len(model_out) == len(ints) and all(
        (model_out[i] == model_out[j]) == (hash(ints[i]) == hash(ints[j])) == (hash(sp.Integer(ints[i])) == hash(sp.Integer(ints[j])))
        for i in range(len(ints)) for j in range(len(ints)))
    chk.info("history_int_hash_model_agrees_with_interpreter", bool(agree))

    # one hash seed for all worker interpreters of this run (texts are compared across them), seeded → reproducible
    hashseed = str(rng.randrange(1, 2**31))
    hashes = call_worker({"mode": "hashes"}, 120, hashseed).get("ok")
    if not isinstance(hashes, dict):
        chk.broken_correspondence("history-model", {"what": "the pool of matrix expressions could not be built", "detail": str(hashes)[:600]})
        return found
    n_plain = {"quick": 2, "thorough": 12}[tier]
    pairs, hinfo = plan_pairs(entries, hashes, rng, n_plain)
    declared = [(x, y) for k, x, y in pairs if k == "declared -1/-2"]
    declared_colliding = sum(1 for x, y in declared if hashes[x]["expr"] == hashes[y]["expr"])

    pair_hists = []
    for k, (kind, x, y) in enumerate(pairs):
        pair_hists.append((kind, pair_history(x, y, rng, k)))
        pair_hists.append((kind, pair_history(y, x, rng, k + 3)))
    n_long = {"quick": 2, "thorough": 8}[tier]
    long_hists = []
    for _ in range(n_long):
        ids = [e["id"] for e in entries]
        rng.shuffle(ids)
        long_hists.append(("long", [(i, rng.choice(OPS)) for i in ids]))
    # ---- one long history for THIS process (run below, after everything the check built before)
    own = [e["id"] for e in entries]
    rng.shuffle(own)
    own_hist = [(i, rng.choice(OPS)) for i in own][: {"quick": 40, "thorough": len(own)}[tier]]
    # FRESH singles: thorough — every (expression, operation); quick — every call that occurs in a history, and the
    # explicit matrix and the cse code of every expression
    used = {s for _, h in pair_hists + long_hists for s in h} | set(own_hist)
    used |= {(e["id"], op) for e in entries for op in ("explicit", "lambdify0", "lambdify1")}
    fresh_hists = [[(e["id"], op)] for e in entries for op in OPS if tier == "thorough" or (e["id"], op) in used]
    hist_all = fresh_hists + [h for _, h in pair_hists] + [h for _, h in long_hists]
    # four fresh interpreters side by side, each forking once per history of its share
    from concurrent.futures import ThreadPoolExecutor

    n_workers = 4
    shares = [hist_all[k::n_workers] for k in range(n_workers)]
    with ThreadPoolExecutor(n_workers) as tp:
        parts = list(tp.map(lambda sh: call_worker({"mode": "histories", "points": points, "histories": sh, "cap": 60.0}, 900,
                                                   hashseed) if sh else [], shares))
    res = [None] * len(hist_all)
    for k, part in enumerate(parts):
        res[k::n_workers] = part
    t_worker = time.time() - t_start

    # ---- FRESH table
    fresh = {}
    stuck = 0
    for h, r in zip(fresh_hists, res[: len(fresh_hists)]):
        if "ok" not in r:
            stuck += 1
            fresh[h[0]] = {"out": "", "vals": None, "err": "no result", "stuck": True}
            if stuck <= 2:  # noqa: PLR2004
                chk.broken_correspondence("history-model", {"what": "a single call in a fresh process did not finish",
                                                            "call": list(h[0]), "detail": str(r)[:300]})
        else:
            fresh[h[0]] = r["ok"][0]
    rev = {}  # op -> text -> [ids]
    for (pid, op), r in fresh.items():
        if r["err"] is None and not r.get("stuck"):
            rev.setdefault(op, {}).setdefault(r["out"], []).append(pid)
    tol = 1e-9
    worst_clean = 0.0
    observations = []
    # fresh results themselves: (i) code = as_explicit() of the own argument, (iii) = textbook at the own argument
    for e in entries:
        pid = e["id"]
        tb = [float(x) for x in textbook(e, points).reshape(-1)]
        ex = fresh[(pid, "explicit")]
        for op in ("lambdify0", "lambdify1", "explicit"):
            r = fresh[(pid, op)]
            chk.count(("history-fresh", pid, op))
            if r.get("stuck"):
                continue
            if r["err"] is not None or r["vals"] is None:
                # the clean tree raises for some arguments (numbers as angles: the array template is inhomogeneous);
                # that is recorded, and every history must raise the SAME way — it is not a history matter
                observations.append({"expression": pid, "operation": op, "fresh_process": r["err"] or r.get("valerr")})
                continue
            ok1, d1 = _close(r["vals"], tb, tol)
            ok2, d2 = _close(r["vals"], ex["vals"], tol) if ex["vals"] is not None else (True, 0.0)
            if ok1 and ok2:
                worst_clean = max(worst_clean, d1, d2)
            else:
                found.append({"what": "history: generated code / explicit matrix differs from the textbook matrix at its own argument (fresh process)",
                              "expression": pid, "operation": op, "max_abs_diff": max(d1, d2), "tolerance": tol,
                              "values": r["vals"][:16], "textbook": tb[:16]})

    # ---- histories: text = fresh text (correspondence, through the Lean model), numbers = own argument (oracle)
    def judge(label, kind, hist, recs, text_ops=OPS):
        lines, real = ["reset"], []
        diffs = []
        for step, ((pid, op), r) in enumerate(zip(hist, recs)):
            e = by_id[pid]
            ref = fresh[(pid, op)]
            lines.append("eval " + model_line(e))
            chk.count(("history", label, step))
            canon = pid
            if ref.get("stuck"):
                pass  # reported once below
            elif (r["err"] or "").split(":")[0] != (ref["err"] or "").split(":")[0]:
                canon = "error:" + str(r["err"])[:80]
            elif r["err"] is None and op in text_ops and r["out"] != ref["out"]:
                cands = rev.get(op, {}).get(r["out"], [])
                canon = cands[0] if cands else "none of the pool"
            real.append(model_line(by_id[canon]) if canon in by_id else canon)
            if canon != pid:
                diffs.append({"step": step, "expression": pid, "operation": op, "result_is_fresh_result_of": canon})
            if r["err"] is None and op in ("lambdify0", "lambdify1", "explicit") and not ref.get("stuck"):
                tb = [float(x) for x in textbook(e, points).reshape(-1)]
                ex = fresh[(pid, "explicit")]
                if r["vals"] is None:
                    ok1, d1, ok2, d2 = ref["vals"] is None, float("inf"), True, 0.0  # raises like the fresh call does
                else:
                    ok1, d1 = _close(r["vals"], tb, tol)
                    ok2, d2 = _close(r["vals"], ex["vals"], tol) if ex.get("vals") is not None else (True, 0.0)
                if not (ok1 and ok2):
                    found.append({"what": "history: after other matrix expressions were unfolded in the same process, the generated "
                                          "code / explicit matrix of an expression is not the matrix of ITS OWN argument",
                                  "history_kind": kind, "history": [list(s) for s in hist[: step + 1]][-8:], "step": step,
                                  "expression": pid, "operation": op, "max_abs_diff": max(d1, d2), "tolerance": tol,
                                  "error_of_the_numeric_call": r.get("valerr"),
                                  "values_event0": (r["vals"] or [])[:16], "textbook_event0": tb[:16],
                                  "as_explicit_of_own_argument_event0": (ex.get("vals") or [])[:16]})
        return lines, real, diffs

    model_in, real_out, all_diffs = [], [], []
    n_hist = 0
    offset = len(fresh_hists)
    for (kind, hist), r in zip(pair_hists + long_hists, res[offset:]):
        n_hist += 1
        if "ok" not in r:
            stuck += 1
            chk.broken_correspondence("history-model", {"what": "a history did not finish", "kind": kind, "history": hist[:8], "detail": str(r)[:300]})
            continue
        lines, real, diffs = judge(f"{kind}#{n_hist}", kind, hist, r["ok"])
        model_in += lines
        real_out += real
        for d in diffs:
            all_diffs.append({"history_kind": kind, "history": [list(s) for s in hist][:9], **d})

    # ---- one long history in THIS process (after everything the check built before)
    t0 = time.time()
    try:
        from tools.search.C08_oracle import _TimeLimit

        with _TimeLimit(180.0):
            own_res = run_history(own_hist, by_id, points)
        lines, real, diffs = judge("own-process", "check's own process", own_hist, own_res, text_ops=TEXT_OPS_STABLE)
        model_in += lines
        real_out += real
        for d in diffs:
            all_diffs.append({"history_kind": "check's own process", "history": [list(s) for s in own_hist][: d["step"] + 1][-9:], **d})
    except Exception as ex:  # noqa: BLE001
        chk.broken_correspondence("history-model", {"what": "history in the check's own process raised", "error": repr(ex)[:300]})
    t_own = time.time() - t0

    # ---- the Lean model (key = the expression itself) on the same histories
    out = common.lean_run("Ampverif/Drivers/C08Memo.lean", "\n".join(model_in) + "\n").strip().split("\n")
    if len(out) != len(real_out):
        chk.broken_correspondence("history-model", f"driver returned {len(out)} lines for {len(real_out)} calls")
    else:
        n_diff = sum(1 for a, b in zip(out, real_out) if a != b)
        if n_diff != len(all_diffs):  # the model IS the identity on its argument; both counts must agree
            chk.broken_correspondence("history-model", f"{n_diff} model differences vs {len(all_diffs)} canonicalisation differences")
    for d in all_diffs[:3]:
        chk.broken_correspondence("history-model", {
            "meaning": "a call returned what a fresh process returns for ANOTHER expression (model: evaluate() is a function of "
                       "the expression; Props/C08Memo.lean memo_pure_iff_injective)", **d})
    chk.info("history_correspondence", {
        "pool_expressions": len(entries), "operations": list(OPS), "PYTHONHASHSEED_of_the_workers": hashseed, "fresh_single_call_processes": len(fresh_hists),
        "pair_histories_both_orders": len(pair_hists), "pairs_by_kind": {k: sum(1 for kk, _, _ in pairs if kk == k) for k in dict.fromkeys(k for k, _, _ in pairs)},
        "declared_pairs": len(declared), "declared_pairs_with_really_equal_hash": declared_colliding, **hinfo,
        "long_forked_histories": len(long_hists), "own_process_history_calls": len(own_hist),
        "calls_compared_with_model": len(real_out), "differences": len(all_diffs), "stuck": stuck,
        "numeric_tolerance": tol, "worst_clean_numeric_deviation": worst_clean,
        "observations": observations[:12], "n_observations": len(observations),
        "seconds": {"worker": round(t_worker, 1), "own_process": round(t_own, 1), "total": round(time.time() - t_start, 1)}})
    if pair_hists:
        chk.sample({"history": [list(s) for s in pair_hists[0][1]], "kind": pair_hists[0][0]})
    return found


if __name__ == "__main__":
    worker_main()
