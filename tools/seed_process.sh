#!/bin/bash
# tools/seed_process.sh <property> <worktree dir> <name> [extra property ...]
# confirm an independently written change, run the property's check against it, drop the worktree
P=$1; WT=$2; NAME=$3; shift 3
cd /verif
tools/confirm_seed.sh $P $WT $NAME 2>&1 | tail -3 || exit 1
[ -d seeded/$NAME ] || exit 1
for q in $P "$@"; do tools/run_seeded.sh $NAME $q 2>&1 | tail -3; done
git -C /repo worktree remove --force $WT 2>/dev/null; rm -rf $WT
