"""One-off generator of the C04 reaction corpus (qrules only; no ampform output is stored).

    /venv/bin/python tools/search/C04_make_corpus.py

Writes corpus/C04/<id>.json with qrules.io.write. The checks only load these files.
"""
from __future__ import annotations

import sys
from pathlib import Path

ROOT = Path(__file__).resolve().parents[2]

REACTIONS = {
    # single topology 0(12); decaying opposite-helicity child; coherent f0/f2 helicities
    "jpsi_gamma_pi0_pi0": dict(initial_state=("J/psi(1S)", [-1, 0, +1]), final_state=["gamma", "pi0", "pi0"],
                               allowed_intermediate_particles=["f(0)(980)", "f(2)(1270)"],
                               allowed_interaction_types=["strong", "EM"]),
    # three topologies (01)2, (02)1, 0(12); spinless final state
    "jpsi_pi0_pip_pim_rho": dict(initial_state=("J/psi(1S)", [-1, 0, +1]), final_state=["pi0", "pi+", "pi-"],
                                 allowed_intermediate_particles=["rho(770)"],
                                 allowed_interaction_types=["strong", "EM"]),
    # spin-1/2 initial and final state, three topologies
    "lambdac_p_km_pip": dict(initial_state=("Lambda(c)+", [-0.5, 0.5]), final_state=["p", "K-", "pi+"],
                             allowed_intermediate_particles=["Lambda(1520)", "Delta(1232)++", "K*(892)0"]),
    # four-body cascades ((01)2)3 and 0(1(23)), single topology each
    "jpsi_kp_pim_pip_km_cascade": dict(initial_state=("J/psi(1S)", [-1, 0, +1]), final_state=["K+", "pi-", "pi+", "K-"],
                                       allowed_intermediate_particles=["K(1)(1270)+", "K*(892)0"],
                                       allowed_interaction_types=["strong"]),
    "jpsi_km_pip_kp_pim_cascade": dict(initial_state=("J/psi(1S)", [-1, 0, +1]), final_state=["K-", "pi+", "K+", "pi-"],
                                       allowed_intermediate_particles=["K(1)(1270)+", "K*(892)0"],
                                       allowed_interaction_types=["strong"]),
    # four-body two-resonance topology (01)(23)
    "jpsi_kstar_kstarbar": dict(initial_state=("J/psi(1S)", [-1, 0, +1]), final_state=["K+", "pi-", "K-", "pi+"],
                                allowed_intermediate_particles=["K*(892)0", "K*(892)~0"],
                                allowed_interaction_types=["strong"]),
    # four-body, two cascade topologies ((01)2)3 and ((01)3)2, no decaying opposite-helicity child
    "jpsi_kp_pim_pip_km_two_cascades": dict(initial_state=("J/psi(1S)", [-1, 0, +1]), final_state=["K+", "pi-", "pi+", "K-"],
                                            allowed_intermediate_particles=["K(1)(1270)+", "b(1)(1235)-", "K*(892)0"],
                                            allowed_interaction_types=["strong"]),
    # axis-angle territory with INTEGER spins: massive spin-1 omega below b1 in (01)2, direct child in (02)1
    "jpsi_pip_omega_pim": dict(initial_state=("J/psi(1S)", [-1, 0, +1]), final_state=["pi+", "omega(782)", "pi-"],
                               allowed_intermediate_particles=["b(1)(1235)+", "f(2)(1270)"],
                               allowed_interaction_types=["strong"]),
    # spin-0 initial state, spin-1/2 final states, topologies (01)2 and (02)1
    "etac_pi0_p_pbar": dict(initial_state=("eta(c)(1S)", [0]), final_state=["pi0", "p", "p~"],
                            allowed_intermediate_particles=["N(1440)"]),
}


def synthetic_heavy_parent():
    """A(J=1, 20 GeV) -> a(0, 0.14) b(1, 0.05) c(0, 0.05) with R1(J=1, 1 GeV) -> a b [(01)2] and
    S1(J=0, 1.1 GeV) -> a c [(02)1]: hand-built particles, every spin projection, helicity
    conservation only. Light, fast resonance and daughter: Wigner rotations beyond 90 degrees occur."""
    import itertools

    from qrules.particle import Particle
    from qrules.quantum_numbers import InteractionProperties
    from qrules.topology import FrozenTransition, create_isobar_topologies
    from qrules.transition import ReactionInfo, State

    def particle(name, spin, mass, pid):
        return Particle(name=name, pid=pid, spin=spin, mass=mass, width=0.1 * mass)

    def spin_range(s):
        return [-s + i for i in range(int(round(2 * s)) + 1)]

    def topology(pair, spectator):
        base = create_isobar_topologies(3)[0]  # 0 spectator, edge 3 -> 1, 2
        return base.relabel_edges({0: spectator, 1: pair[0], 2: pair[1]})

    A = particle("A", 1, 20.0, 9001)
    finals = [particle("a", 0, 0.14, 9002), particle("b", 1, 0.05, 9003), particle("c", 0, 0.05, 9004)]
    chains = [(topology((0, 1), 2), particle("R1", 1, 1.0, 9005)), (topology((0, 2), 1), particle("S1", 0, 1.1, 9007))]
    transitions = []
    for top, res in chains:
        pools = [spin_range(A.spin), *[spin_range(p.spin) for p in finals], spin_range(res.spin)]
        for combo in itertools.product(*pools):
            states = {-1: State(A, float(combo[0])), 3: State(res, float(combo[4]))}
            for i, p in enumerate(finals):
                states[i] = State(p, float(combo[1 + i]))
            ok = True
            for node in top.nodes:
                (parent,) = top.get_edge_ids_ingoing_to_node(node)
                c1, c2 = sorted(top.get_edge_ids_outgoing_from_node(node))
                if abs(states[c1].spin_projection - states[c2].spin_projection) > states[parent].particle.spin:
                    ok = False
            if ok:
                transitions.append(FrozenTransition(top, states, {n: InteractionProperties() for n in top.nodes}))
    return ReactionInfo(transitions, formalism="helicity")


def main():
    import qrules
    import qrules.io

    out = ROOT / "corpus" / "C04"
    out.mkdir(parents=True, exist_ok=True)
    only = set(sys.argv[1:])
    for name, kw in REACTIONS.items():
        if only and name not in only:
            continue
        r = qrules.generate_transitions(formalism="helicity", **kw)
        qrules.io.write(r, str(out / f"{name}.json"))
        tops = {t.topology for t in r.transitions}
        inter = sorted({s.particle.name for t in r.transitions for i, s in t.states.items()
                        if i in t.topology.intermediate_edge_ids})
        print(name, len(r.transitions), "transitions", len(tops), "topologies", inter, flush=True)
    if not only or "synthetic_heavy_parent" in only:
        r = synthetic_heavy_parent()
        qrules.io.write(r, str(out / "synthetic_heavy_parent.json"))
        print("synthetic_heavy_parent", len(r.transitions), "transitions", flush=True)


if __name__ == "__main__":
    main()
