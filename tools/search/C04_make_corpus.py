"""One-off generator of the C04 reaction corpus (qrules only; no ampform output is stored).

    /venv/bin/python tools/search/C04_make_corpus.py

Writes corpus/C04/<id>.json with qrules.io.write. The checks only load these files.
"""
from __future__ import annotations

import sys
from pathlib import Path

ROOT = Path(__file__).resolve().parents[2]

REACTIONS = {
    # single topology 0(12); decaying opposite-helicity child; coherent f0/f2 helicities
    "jpsi_gamma_pi0_pi0": dict(initial_state=("J/psi(1S)", [-1, 0, +1]), final_state=["gamma", "pi0", "pi0"],
                               allowed_intermediate_particles=["f(0)(980)", "f(2)(1270)"],
                               allowed_interaction_types=["strong", "EM"]),
    # three topologies (01)2, (02)1, 0(12); spinless final state
    "jpsi_pi0_pip_pim_rho": dict(initial_state=("J/psi(1S)", [-1, 0, +1]), final_state=["pi0", "pi+", "pi-"],
                                 allowed_intermediate_particles=["rho(770)"],
                                 allowed_interaction_types=["strong", "EM"]),
    # spin-1/2 initial and final state, three topologies
    "lambdac_p_km_pip": dict(initial_state=("Lambda(c)+", [-0.5, 0.5]), final_state=["p", "K-", "pi+"],
                             allowed_intermediate_particles=["Lambda(1520)", "Delta(1232)++", "K*(892)0"]),
    # four-body cascades ((01)2)3 and 0(1(23)), single topology each
    "jpsi_kp_pim_pip_km_cascade": dict(initial_state=("J/psi(1S)", [-1, 0, +1]), final_state=["K+", "pi-", "pi+", "K-"],
                                       allowed_intermediate_particles=["K(1)(1270)+", "K*(892)0"],
                                       allowed_interaction_types=["strong"]),
    "jpsi_km_pip_kp_pim_cascade": dict(initial_state=("J/psi(1S)", [-1, 0, +1]), final_state=["K-", "pi+", "K+", "pi-"],
                                       allowed_intermediate_particles=["K(1)(1270)+", "K*(892)0"],
                                       allowed_interaction_types=["strong"]),
    # four-body two-resonance topology (01)(23)
    "jpsi_kstar_kstarbar": dict(initial_state=("J/psi(1S)", [-1, 0, +1]), final_state=["K+", "pi-", "K-", "pi+"],
                                allowed_intermediate_particles=["K*(892)0", "K*(892)~0"],
                                allowed_interaction_types=["strong"]),
    # four-body, two cascade topologies ((01)2)3 and ((01)3)2, no decaying opposite-helicity child
    "jpsi_kp_pim_pip_km_two_cascades": dict(initial_state=("J/psi(1S)", [-1, 0, +1]), final_state=["K+", "pi-", "pi+", "K-"],
                                            allowed_intermediate_particles=["K(1)(1270)+", "b(1)(1235)-", "K*(892)0"],
                                            allowed_interaction_types=["strong"]),
    # axis-angle territory with INTEGER spins: massive spin-1 omega below b1 in (01)2, direct child in (02)1
    "jpsi_pip_omega_pim": dict(initial_state=("J/psi(1S)", [-1, 0, +1]), final_state=["pi+", "omega(782)", "pi-"],
                               allowed_intermediate_particles=["b(1)(1235)+", "f(2)(1270)"],
                               allowed_interaction_types=["strong"]),
    # massless spin-1 particle at the other final-state positions (single topology each)
    "jpsi_pi0_pi0_gamma": dict(initial_state=("J/psi(1S)", [-1, 0, +1]), final_state=["pi0", "pi0", "gamma"],
                               allowed_intermediate_particles=["f(0)(980)", "f(2)(1270)"],
                               allowed_interaction_types=["strong", "EM"]),
    "jpsi_pi0_gamma_pi0": dict(initial_state=("J/psi(1S)", [-1, 0, +1]), final_state=["pi0", "gamma", "pi0"],
                               allowed_intermediate_particles=["f(0)(980)", "f(2)(1270)"],
                               allowed_interaction_types=["strong", "EM"]),
    # spin-0 initial state, spin-1/2 final states, topologies (01)2 and (02)1
    "etac_pi0_p_pbar": dict(initial_state=("eta(c)(1S)", [0]), final_state=["pi0", "p", "p~"],
                            allowed_intermediate_particles=["N(1440)"]),
}


def _particle(name, spin, mass, pid):
    from qrules.particle import Particle

    return Particle(name=name, pid=pid, spin=spin, mass=mass, width=0.1 * mass)


def _spin_range(s):
    return [-s + i for i in range(int(round(2 * s)) + 1)]


def _build(initial, finals, chains):
    """Every spin projection of every state; helicity conservation |l1 - l2| <= J at each node only."""
    import itertools

    from qrules.quantum_numbers import InteractionProperties
    from qrules.topology import FrozenTransition
    from qrules.transition import ReactionInfo, State

    transitions = []
    for top, resonances in chains:
        inter = sorted(resonances)
        pools = [_spin_range(initial.spin), *[_spin_range(p.spin) for p in finals],
                 *[_spin_range(resonances[i].spin) for i in inter]]
        for combo in itertools.product(*pools):
            states = {-1: State(initial, float(combo[0]))}
            for i, p in enumerate(finals):
                states[i] = State(p, float(combo[1 + i]))
            for k, i in enumerate(inter):
                states[i] = State(resonances[i], float(combo[1 + len(finals) + k]))
            ok = True
            for node in top.nodes:
                (parent,) = top.get_edge_ids_ingoing_to_node(node)
                c1, c2 = sorted(top.get_edge_ids_outgoing_from_node(node))
                if abs(states[c1].spin_projection - states[c2].spin_projection) > states[parent].particle.spin:
                    ok = False
            if ok:
                transitions.append(FrozenTransition(top, states, {n: InteractionProperties() for n in top.nodes}))
    return ReactionInfo(transitions, formalism="helicity")


def _three_body_topology(pair, spectator):
    from qrules.topology import create_isobar_topologies

    base = create_isobar_topologies(3)[0]  # 0 spectator, edge 3 -> 1, 2
    return base.relabel_edges({0: spectator, 1: pair[0], 2: pair[1]})


def synthetic_three_body(j_initial=1, spin_pos=1, m_initial=20.0):
    """A(J, 20 GeV) -> three light particles, the one at final-state id `spin_pos` has spin 1 (50 MeV),
    with R1(J=1, 1 GeV) in (01)2 and S1 in (02)1: hand-built particles, every spin projection. No decaying
    opposite-helicity child. spin_pos = 1: below R1 in (01)2, spectator in (02)1; spin_pos = 2: spectator
    in (01)2, below S1 in (02)1; spin_pos = 0: below a resonance in both. Light, fast resonances and
    daughters: Wigner rotations beyond 90 degrees occur."""
    A = _particle("A", j_initial, m_initial, 9001)
    masses = [0.14, 0.05, 0.05]
    finals = [_particle("abc"[i], 1 if i == spin_pos else 0, masses[i], 9002 + i) for i in range(3)]
    # the resonance that contains the spin-1 particle gets spin 1, the other spin 0 (1 if it contains it too)
    r1 = _particle("R1", 1 if spin_pos in (0, 1) else 0, 1.0, 9005)
    s1 = _particle("S1", 1 if spin_pos in (0, 2) else 0, 1.1, 9007)
    if j_initial == 0 and spin_pos == 2:
        r1 = _particle("R1", 1, 1.0, 9005)  # spin-0 parent: resonance and spin-1 spectator must match helicities
    if j_initial == 0 and spin_pos == 1:
        s1 = _particle("S1", 1, 1.1, 9007)
    chains = [(_three_body_topology((0, 1), 2), {3: r1}), (_three_body_topology((0, 2), 1), {3: s1})]
    return _build(A, finals, chains)


def synthetic_heavy_parent():
    return synthetic_three_body(1, 1)


def synthetic_four_body():
    """A(J=1, 6 GeV) -> a(0) b(1) c(0) d(0): cascades ((01)2)3 via X(012, J=1) -> R(01, J=1) c and
    ((01)3)2 via Y(013, J=1) -> R(01, J=1) d: spin-1 final state two levels below the root, two coherent
    topologies, no decaying opposite-helicity child."""
    from qrules.topology import create_isobar_topologies

    A = _particle("A", 1, 6.0, 9101)
    finals = [_particle("a", 0, 0.14, 9102), _particle("b", 1, 0.3, 9103), _particle("c", 0, 0.14, 9104),
              _particle("d", 0, 0.2, 9105)]
    R = _particle("R", 1, 0.9, 9106)
    X = _particle("X", 1, 2.0, 9107)
    Y = _particle("Y", 1, 2.2, 9108)
    tops = list(create_isobar_topologies(4))

    def shape_of(t):
        sys.path.insert(0, str(ROOT))
        from tools.search.C04_oracle import topology_facts

        return topology_facts(t)["shape"]

    import itertools

    base = next(t for t in tops if not any(
        all(t.edges[c].ending_node_id is not None for c in t.get_edge_ids_outgoing_from_node(n)) for n in t.nodes))
    out = {}
    ids = sorted(base.outgoing_edge_ids)
    for pm in itertools.permutations(ids):
        t = base.relabel_edges(dict(zip(ids, pm)))
        out.setdefault(shape_of(t), t)
    t1, t2 = out["(((01)2)3)"], out["(((01)3)2)"]

    def resonances(t, outer):
        res = {}
        for e in t.intermediate_edge_ids:
            n_att = len(t.get_originating_final_state_edge_ids(t.edges[e].ending_node_id))
            res[e] = R if n_att == 2 else outer
        return res

    return _build(A, finals, [(t1, resonances(t1, X)), (t2, resonances(t2, Y))])


def main():
    import qrules
    import qrules.io

    out = ROOT / "corpus" / "C04"
    out.mkdir(parents=True, exist_ok=True)
    only = set(sys.argv[1:])
    for name, kw in REACTIONS.items():
        if only and name not in only:
            continue
        r = qrules.generate_transitions(formalism="helicity", **kw)
        qrules.io.write(r, str(out / f"{name}.json"))
        tops = {t.topology for t in r.transitions}
        inter = sorted({s.particle.name for t in r.transitions for i, s in t.states.items()
                        if i in t.topology.intermediate_edge_ids})
        print(name, len(r.transitions), "transitions", len(tops), "topologies", inter, flush=True)
    synth = {
        "synthetic_heavy_parent": lambda: synthetic_three_body(1, 1),
        "synthetic_J1_spin_at_0": lambda: synthetic_three_body(1, 0),
        "synthetic_J1_spin_at_2": lambda: synthetic_three_body(1, 2),
        "synthetic_J0_spin_at_1": lambda: synthetic_three_body(0, 1),
        "synthetic_J0_spin_at_2": lambda: synthetic_three_body(0, 2),
        "synthetic_J2_spin_at_1": lambda: synthetic_three_body(2, 1),
        "synthetic_J2_spin_at_2": lambda: synthetic_three_body(2, 2),
        "synthetic_four_body": synthetic_four_body,
    }
    for name, fn in synth.items():
        if only and name not in only:
            continue
        r = fn()
        qrules.io.write(r, str(out / f"{name}.json"))
        print(name, len(r.transitions), "transitions", len({t.topology for t in r.transitions}), "topologies", flush=True)


if __name__ == "__main__":
    main()
