"""C16 — independent oracles on the real `perform_cached_doit` (no model involved).

The oracle is the property statement itself: the call returns something deep-equal to
`expr.doit()` (computed directly, no cache) and raises nothing, whatever the directory held.

* `sequential(...)`: hook-free, in-process: directories pre-populated with colliding records,
  every/selected byte prefixes of a real record, old-format files, garbage, foreign picklable
  objects, trailing garbage, dangling symlinks, stale temp files; under PYTHONHASHSEED unset and
  set (as seen by get_readable_hash).
* `processes(...)`: REAL processes (tools/corr/C16_worker.py): hash seeds unset/0/other through
  the interpreter's environment, concurrent hammering of one directory with SIGKILLs, real death
  in the middle of a write after k bytes.
"""

from __future__ import annotations

import json
import os
import pickle
import re
import shutil
import signal
import subprocess
import tempfile
import time
from pathlib import Path

from tools.corr import C16_exprs as X
from tools.corr.C16_harness import JUNK, hash_mode
from tools.lib import common


CALL_CAP_S = 30


class Stuck(BaseException):
    """A single call exceeded its wall-clock cap (BaseException: `except Exception` cannot eat it)."""


_STUCK = {"n": 0}


class _cap:
    """Wall-clock cap for one call (main thread only; a no-op elsewhere)."""

    def __init__(self, seconds: int = CALL_CAP_S):
        self.s = seconds
        self.on = False

    def __enter__(self):
        import threading

        if threading.current_thread() is threading.main_thread() and hasattr(signal, "setitimer"):
            def handler(signum, frame):
                raise Stuck

            self.old = signal.signal(signal.SIGALRM, handler)
            signal.setitimer(signal.ITIMER_REAL, self.s)
            self.on = True
        return self

    def __exit__(self, *a):
        if self.on:
            signal.setitimer(signal.ITIMER_REAL, 0)
            signal.signal(signal.SIGALRM, self.old)
        return False


def _check_call(fn, expr, expected, d, use_default_dir: bool = False) -> dict | None:
    """The property on one call: no exception, result structurally identical to expr.doit() AND
    behaving like it, the argument left untouched, within the wall-clock cap."""
    if _STUCK["n"] >= 2:  # never burn the budget on a function that hangs: remaining cases are skipped
        return {"observed": "skipped"}
    try:
        snapshot = pickle.dumps(expr)
    except Exception:  # noqa: BLE001  (expression that cannot be pickled: observation cases only)
        snapshot = None
    h0 = hash(expr)
    try:
        with _cap():
            r = fn(expr) if use_default_dir else fn(expr, d)
    except Stuck:
        _STUCK["n"] += 1
        return {"observed": "stuck", "error": f"the call did not return within {CALL_CAP_S} s"}
    except Exception as ex:  # noqa: BLE001
        return {"observed": "raised", "error": f"{type(ex).__name__}: {ex}"[:300]}
    why = X.behaves_same(r, expected)
    if why is not None:
        return {"observed": "wrong value", "difference": why, "got": str(r)[:300], "got_type": type(r).__name__,
                "expected": str(expected)[:300]}
    if hash(expr) != h0 or (snapshot is not None and not X.deep_equal(pickle.loads(snapshot), expr)):
        return {"observed": "argument modified", "error": "the expression passed in is no longer what it was before the call"}
    return None


def foreign_objects(expr, result):
    import sympy as sp

    return {
        "pickled str": "hello",
        "pickled int": 7,
        "pickled None": None,
        "pickled list": [1, 2, 3],
        "pickled 2-tuple of ints": (1, 2),
        "pickled 3-tuple": (expr, result, 1),
        "pickled 1-tuple": (expr,),
        "pickled (str(expr), result)": (str(expr), result),
        "pickled dict": {"a": 1},
        "pickled sympy Tuple of two": sp.Tuple(sp.Symbol("q"), sp.Integer(3)),
        "pickled 2-element Matrix": sp.Matrix([sp.Symbol("q"), 3]),
        "pickled (other symbol, 42)": (sp.Symbol("zz"), sp.Integer(42)),
    }


def sequential(chk, rng, n_prefix: int | None, families: dict, modes=("sha", "seed0", "seed424242")) -> list[dict]:
    """Returns failing inputs (dicts). n_prefix=None: every byte prefix of every chosen record."""
    from ampform.sympy import perform_cached_doit as fn
    from ampform.sympy._cache import get_readable_hash

    fails: list[dict] = []
    dist = {"collision": 0, "prefix": 0, "old": 0, "junk": 0, "foreign": 0, "tail": 0, "symlink": 0,
            "stale-temp": 0, "other-record": 0}
    root = Path(tempfile.mkdtemp(prefix="c16seq_"))

    def fresh() -> Path:
        d = Path(tempfile.mkdtemp(prefix="d", dir=root))
        return d

    def report(what, fam, idx, mode, content, res):
        if res.get("observed") == "skipped":
            return
        fails.append({"what": what, "family": fam, "expr_index": idx, "mode": mode, "file": content, **res})

    try:
        for fam, exprs in families.items():
            doits = [e.doit() for e in exprs]
            records = [pickle.dumps((e, r)) for e, r in zip(exprs, doits)]
            for mode in modes:
                with hash_mode(mode):
                    names = [get_readable_hash(e) for e in exprs]
                    # 1. collisions: every expression of the group, random order, twice over
                    if len(exprs) > 1:
                        d = fresh()
                        order = list(range(len(exprs))) * 2
                        rng.shuffle(order)
                        for i in order:
                            res = _check_call(fn, exprs[i], doits[i], d)
                            chk.count(("collision", fam, mode, i))
                            dist["collision"] += 1
                            if res:
                                report("string-equal expressions sharing the directory", fam, i, mode,
                                       f"calls in order {order}", res)
                                break
                        shutil.rmtree(d, ignore_errors=True)
                    # the remaining cases use the first expression (and the second as 'other')
                    e, r, rec, name = exprs[0], doits[0], records[0], names[0]
                    d = fresh()
                    f = d / f"{name}.pkl"

                    def with_file(data: bytes, what: str, key, content_desc: str):
                        f.write_bytes(data)
                        res = _check_call(fn, e, r, d)
                        chk.count(key)
                        if res:
                            report(what, fam, 0, mode, content_desc, res)

                    # 2. byte prefixes of the real record
                    if mode == modes[0] or n_prefix is None:
                        if n_prefix is None and len(rec) <= 1500 and (mode == modes[0] or len(rec) <= 500):
                            ks = range(len(rec))
                        else:
                            ks = sorted({0, 1, 2, len(rec) - 1, len(rec) - 2,
                                         *[rng.randrange(len(rec)) for _ in range(n_prefix or 150)]})
                        for k in ks:
                            with_file(rec[:k], "truncated record under the cache file name", ("prefix", fam, k),
                                      f"first {k} of {len(rec)} bytes of pickle.dumps((expr, expr.doit()))")
                            dist["prefix"] += 1
                    # 3. old format (bare result), own and foreign, whole and truncated
                    for j in range(min(2, len(exprs))):
                        bare = pickle.dumps(doits[j])
                        with_file(bare, "old-format file (bare result)", ("old", fam, mode, j),
                                  f"pickle.dumps(doit of expression {j})")
                        with_file(bare[: len(bare) // 2], "truncated old-format file", ("oldtrunc", fam, mode, j),
                                  "half of a bare result pickle")
                        dist["old"] += 2
                    # 4. garbage, empty
                    for g in [b"", *JUNK]:
                        with_file(g, "garbage bytes under the cache file name", ("junk", fam, mode, g[:6]), repr(g))
                        dist["junk"] += 1
                    # 5. foreign loadable objects
                    for label, obj in foreign_objects(e, r).items():
                        with_file(pickle.dumps(obj), "foreign pickled object under the cache file name",
                                  ("foreign", fam, mode, label), label)
                        dist["foreign"] += 1
                    # 6. complete record followed by garbage; record of another expression
                    with_file(rec + b"\x00trailing garbage", "record followed by garbage", ("tail", fam, mode), "record + bytes")
                    dist["tail"] += 1
                    for j in range(1, len(exprs)):
                        with_file(records[j], "record of a different expression that prints identically",
                                  ("other-record", fam, mode, j), f"pickle.dumps((expr_{j}, doit(expr_{j})))")
                        dist["other-record"] += 1
                    # 7. dangling symlink, stale temp file of this very pid
                    f.unlink(missing_ok=True)
                    os.symlink(d / "does-not-exist", f)
                    res = _check_call(fn, e, r, d)
                    chk.count(("symlink", fam, mode))
                    dist["symlink"] += 1
                    if res:
                        report("dangling symlink under the cache file name", fam, 0, mode, "symlink", res)
                    if f.is_symlink():
                        f.unlink()
                    f.unlink(missing_ok=True)
                    (d / f"{name}.pkl.{os.getpid()}.tmp").write_bytes(rec[:5])
                    res = _check_call(fn, e, r, d)
                    chk.count(("stale-temp", fam, mode))
                    dist["stale-temp"] += 1
                    if res:
                        report("stale temp file of the same pid", fam, 0, mode, "5 bytes", res)
                    shutil.rmtree(d, ignore_errors=True)
    finally:
        shutil.rmtree(root, ignore_errors=True)
    chk.info("sequential_oracle_distribution", dist)
    return fails


def outside_model_observations() -> list[dict]:
    """Directory entries that no history of calls can produce (recorded, no verdict)."""
    from ampform.sympy import perform_cached_doit as fn
    from ampform.sympy._cache import get_readable_hash

    e = X.families()["single_kallen"][0]
    obs = []
    root = Path(tempfile.mkdtemp(prefix="c16obs_"))
    try:
        with hash_mode("sha"):
            name = get_readable_hash(e)
            for label, mk in {
                "sub-directory named like the cache file": lambda d: (d / f"{name}.pkl").mkdir(),
                "sub-directory named like the temp file": lambda d: (d / f"{name}.pkl.{os.getpid()}.tmp").mkdir(),
            }.items():
                d = Path(tempfile.mkdtemp(prefix="d", dir=root))
                mk(d)
                res = _check_call(fn, e, e.doit(), d)
                obs.append({"directory_entry": label, "result": "ok" if res is None else res})
            # not about the directory's contents at all: an expression pickle cannot serialise
            d = Path(tempfile.mkdtemp(prefix="d", dir=root))
            u = X.unpicklable_expression()
            res = _check_call(fn, u, u.doit(), d)
            left = sorted(x.name[-12:] for x in d.iterdir())
            after = _check_call(fn, e, e.doit(), d)
            obs.append({"directory_entry": "none (the EXPRESSION cannot be pickled: class defined inside a function)",
                        "result": "ok" if res is None else res, "left_in_directory": left,
                        "next_call_of_a_normal_expression": "ok" if after is None else after})
            # directory without write permission / a file where the directory should be
            d = Path(tempfile.mkdtemp(prefix="d", dir=root))
            os.chmod(d, 0o555)
            res = _check_call(fn, e, e.doit(), d)
            os.chmod(d, 0o755)
            obs.append({"directory_entry": "none (cache directory mode 0555)" + (" — running as root, permissions are not enforced" if os.geteuid() == 0 else ""),
                        "result": "ok" if res is None else res})
            f = Path(tempfile.mkdtemp(prefix="d", dir=root)) / "a-file"
            f.write_text("x")
            res = _check_call(fn, e, e.doit(), f)
            obs.append({"directory_entry": "none (cache_directory is a regular file)", "result": "ok" if res is None else res})
    finally:
        shutil.rmtree(root, ignore_errors=True)
    return obs


def one_process_histories(chk, rng, families: dict, modes=("sha", "seed0")) -> list[dict]:
    """Rule 'histories, not single calls': an in-memory layer or module-level state in front of the
    disk cache would show here.  In ONE process: repeated calls after a confirmed disk hit, string-equal
    expressions alternating, several directories, the file deleted / replaced behind the function's back."""
    from ampform.sympy import perform_cached_doit as fn
    from ampform.sympy._cache import get_readable_hash

    fails: list[dict] = []
    stats = {"sequences": 0, "calls": 0, "confirmed_disk_hits": 0, "directories": 0}
    root = Path(tempfile.mkdtemp(prefix="c16mem_"))
    try:
        for fam, exprs in families.items():
            doits = [e.doit() for e in exprs]
            n = len(exprs)
            for mode in modes:
                with hash_mode(mode):
                    names = [get_readable_hash(e) for e in exprs]
                    dirs = [Path(tempfile.mkdtemp(prefix="d", dir=root)) for _ in range(3)]
                    stats["directories"] += 3
                    trace: list[str] = []

                    def call(i, d, note=""):
                        res = _check_call(fn, exprs[i], doits[i], dirs[d])
                        stats["calls"] += 1
                        trace.append(f"expr{i}@dir{d}{note}")
                        chk.count(("one-process", fam, mode, len(trace), i, d))
                        if res and res.get("observed") != "skipped" and not any(f["family"] == fam and f["mode"] == mode for f in fails):
                            fails.append({"what": "sequence of calls in ONE process (repeats after a disk hit, string-equal "
                                          "expressions, several directories, file changed behind the function)",
                                          "family": fam, "mode": mode, "sequence": list(trace), "failed_call": trace[-1], **res})
                        return res

                    def stat(i, d):
                        f = dirs[d] / f"{names[i]}.pkl"
                        return (f.stat().st_ino, f.stat().st_mtime_ns) if f.exists() else None

                    stats["sequences"] += 1
                    j = 1 % n
                    call(0, 0)                       # miss, writes
                    before = stat(0, 0)
                    call(0, 0, " (repeat)")          # disk hit expected
                    if before is not None and stat(0, 0) == before:
                        stats["confirmed_disk_hits"] += 1
                    call(0, 0, " (repeat after the hit)")
                    call(j, 0)                       # string-equal other expression, same directory
                    call(j, 0, " (repeat)")
                    call(0, 0)
                    call(j, 1, " (fresh empty directory)")   # a layer keyed by name ignores the directory
                    call(0, 1)
                    call(0, 2, " (third directory)")
                    # the file disappears / is replaced behind the function's back
                    (dirs[2] / f"{names[0]}.pkl").unlink(missing_ok=True)
                    call(j, 2, " (after the cache file was deleted)")
                    (dirs[0] / f"{names[0]}.pkl").write_bytes(pickle.dumps((exprs[j], doits[j])))
                    call(0, 0, " (after the file was replaced by the other expression's record)")
                    (dirs[0] / f"{names[0]}.pkl").write_bytes(b"garbage")
                    call(j, 0, " (after the file was replaced by garbage)")
                    for _ in range(4):
                        call(rng.randrange(n), rng.randrange(3), " (random)")
    finally:
        shutil.rmtree(root, ignore_errors=True)
    chk.info("one_process_history_stats", stats)
    return fails


def ordered_pairs(n: int) -> list[tuple[int, int]]:
    return [(i, j) for i in range(n) for j in range(n) if i != j] if n <= 3 else \
        [(i, (i + 1) % n) for i in range(n)] + [((i + 1) % n, i) for i in range(n)]


def pair_histories(chk, rng, families: dict, modes=("sha", "seed0"), process_seeds=(None, "0", "424242"),
                   label="expressions differing only in a function-valued attribute") -> list[dict]:
    """For every ordered pair (A, B) of different expressions of a family: A then B then A through one
    fresh directory (i) in ONE process, (ii) A in a first process, B then A in a LATER process that
    builds its own expressions — for every hash-seed mode.  The key comparison `cached_key == expr`
    is the only thing that keeps B from being served A's record (they print identically, and may hash
    identically): this is the property evaluated where that comparison decides."""
    from ampform.sympy import perform_cached_doit as fn

    fails: list[dict] = []
    stats = {"families": len(families), "ordered_pairs": 0, "same_process_calls": 0, "later_process_calls": 0,
             "processes": 0}
    root = Path(tempfile.mkdtemp(prefix="c16pair_"))
    try:
        script1, script2 = [], []
        for fam, exprs in families.items():
            doits = [e.doit() for e in exprs]
            for (i, j) in ordered_pairs(len(exprs)):
                stats["ordered_pairs"] += 1
                script1.append([fam, i, f"{fam}/{i}-{j}"])
                script2 += [[fam, j, f"{fam}/{i}-{j}"], [fam, i, f"{fam}/{i}-{j}"]]
                for mode in modes:
                    d = Path(tempfile.mkdtemp(prefix="d", dir=root))
                    with hash_mode(mode):
                        for step, k in enumerate((i, j, i, j)):
                            res = _check_call(fn, exprs[k], doits[k], d)
                            stats["same_process_calls"] += 1
                            chk.count(("pair-same-process", fam, mode, i, j, step))
                            if res and res.get("observed") != "skipped":
                                if not any(f["family"] == fam and f["process"] == "same" for f in fails):
                                    fails.append({"what": f"{label}: one directory, one process", "process": "same",
                                                  "family": fam, "mode": mode, "order": [i, j, i, j], "failed_step": step,
                                                  "expr_str": str(exprs[k])[:160], **res})
                                break
                    shutil.rmtree(d, ignore_errors=True)
        for script, what in ((script1, "first"), (script2, "later")):
            ps = [(_spawn({"dir": str(root / f"proc-{s}"), "script": script}, s), s) for s in process_seeds]
            stats["processes"] += len(ps)
            for p, s in ps:
                try:
                    out, err = p.communicate(timeout=300)
                except subprocess.TimeoutExpired as e:
                    p.kill()
                    raise common.InfraError("C16 pair-history worker timed out") from e
                if p.returncode != 0 or '"done"' not in out:
                    raise common.InfraError(f"C16 pair-history worker failed: rc={p.returncode} {err[-800:]}")
                for line in out.splitlines():
                    try:
                        j = json.loads(line)
                    except json.JSONDecodeError:
                        continue
                    if "done" in j:
                        stats["later_process_calls"] += j["done"]
                        chk.count(("pair-process", what, s), j["done"])
                    if "fail" in j and not any(f.get("family") == j["family"] and f["process"] == what for f in fails):
                        fails.append({"what": f"{label}: one directory, {what} process: {j['fail']}", "process": what,
                                      "PYTHONHASHSEED": s or "unset",
                                      "history": "first process: A; later process: B, A (directory = family/A-B)", **j})
    finally:
        shutil.rmtree(root, ignore_errors=True)
    chk.info("pair_history_stats", stats)
    return fails


def default_directory(chk) -> tuple[list[dict], dict]:
    """`cache_directory=None`: resolution through get_system_cache_directory with XDG_CACHE_HOME / HOME
    pointing into scratch space (the real home is never touched: if the resolved path is not inside the
    scratch space the call is skipped and that is recorded)."""
    from importlib.metadata import version

    from ampform.sympy import perform_cached_doit as fn
    from ampform.sympy._cache import get_readable_hash, get_system_cache_directory

    fams = X.families()
    e0, e1 = fams["breakup_assumptions"][:2]
    r0, r1 = e0.doit(), e1.doit()
    fails: list[dict] = []
    info: dict = {"cases": []}
    root = Path(tempfile.mkdtemp(prefix="c16home_")).resolve()
    saved = {k: os.environ.get(k) for k in ("XDG_CACHE_HOME", "HOME")}
    try:
        for label, env in {
            "XDG_CACHE_HOME set": {"XDG_CACHE_HOME": str(root / "xdg"), "HOME": str(root / "home1")},
            "XDG_CACHE_HOME unset, HOME set": {"XDG_CACHE_HOME": None, "HOME": str(root / "home2")},
            "XDG_CACHE_HOME with spaces and unicode": {"XDG_CACHE_HOME": str(root / "x dg µ"), "HOME": str(root / "home3")},
        }.items():
            for k, v in env.items():
                if v is None:
                    os.environ.pop(k, None)
                else:
                    os.environ[k] = v
                    Path(v).mkdir(parents=True, exist_ok=True)
            sysdir = Path(get_system_cache_directory()).resolve()
            case = {"env": label, "system_cache_directory_inside_scratch": root in sysdir.parents or sysdir == root}
            info["cases"].append(case)
            if not case["system_cache_directory_inside_scratch"]:
                case["skipped"] = f"resolved to {sysdir}, outside the scratch space: not called"
                continue
            before = set(root.rglob("*.pkl"))
            with hash_mode("sha"):
                expected_dir = sysdir / "ampform" / f"sympy-v{version('sympy')}"
                # pre-populate the default directory with the OTHER expression's record (same file name)
                expected_dir.mkdir(parents=True, exist_ok=True)
                (expected_dir / f"{get_readable_hash(e0)}.pkl").write_bytes(pickle.dumps((e1, r1)))
                seq = [(e0, r0), (e0, r0), (e1, r1), (e0, r0)]
                for n, (e, r) in enumerate(seq):
                    res = _check_call(fn, e, r, None, use_default_dir=(n % 2 == 0))
                    chk.count(("default-dir", label, n))
                    if res and res.get("observed") != "skipped":
                        fails.append({"what": "cache_directory=None (default directory under the system cache directory)",
                                      "env": label, "call_index": n, **res})
                        break
                case["files_in_expected_default_directory"] = len(list(expected_dir.glob("*.pkl")))
                case["written_elsewhere_in_scratch"] = sorted(
                    str(p.relative_to(root)) for p in set(root.rglob("*.pkl")) - before if expected_dir not in p.parents)[:5]
    finally:
        for k, v in saved.items():
            if v is None:
                os.environ.pop(k, None)
            else:
                os.environ[k] = v
        shutil.rmtree(root, ignore_errors=True)
    return fails, info


# --------------------------------------------------------------------------- real processes


def _spawn(cfg: dict, seed_env: str | None) -> subprocess.Popen:
    env = dict(os.environ)
    env.pop("PYTHONHASHSEED", None)
    if seed_env is not None:
        env["PYTHONHASHSEED"] = seed_env
    cfg = {**cfg, "repo_src": str(common.REPO / "src"), "verif_root": str(common.ROOT)}
    return subprocess.Popen(
        [common.PY, str(common.ROOT / "tools" / "corr" / "C16_worker.py"), json.dumps(cfg)],
        stdout=subprocess.PIPE, stderr=subprocess.PIPE, text=True, env=env, cwd=str(common.ROOT))


def _collect(p: subprocess.Popen, timeout: float, what: str, fails: list, stats: dict, allow_kill=False):
    try:
        out, err = p.communicate(timeout=timeout)
    except subprocess.TimeoutExpired as e:
        p.kill()
        raise common.InfraError(f"C16 worker timed out ({what})") from e
    if p.returncode != 0 and not (allow_kill and p.returncode in (-9, 9)):
        raise common.InfraError(f"C16 worker failed ({what}): rc={p.returncode} {err[-800:]}")
    for line in out.splitlines():
        try:
            j = json.loads(line)
        except json.JSONDecodeError:
            continue
        if "fail" in j:
            fails.append({"what": f"real process: {j['fail']}", "scenario": what, **j})
        if "summary" in j:
            s = j["summary"]
            stats["calls"] += s["calls"]
            stats["wrong"] += s["wrong"]
            stats["raised"] += s["raised"]
            stats["workers"] += 1
            stats.setdefault("first_file_name_by_hash_mode", {}).setdefault(s["mode"], set()).add(s["first_name"])
            stats["workers_using_seeded_names"] = stats.get("workers_using_seeded_names", 0) + (s["seeded_names"] > 0)
            stats["workers_using_sha_names"] = stats.get("workers_using_sha_names", 0) + (s["sha_names"] > 0)


def processes(chk, rng, tier: str) -> list[dict]:
    fails: list[dict] = []
    stats = {"calls": 0, "wrong": 0, "raised": 0, "workers": 0, "sigkills": 0, "mid_write_deaths": 0}
    root = Path(tempfile.mkdtemp(prefix="c16proc_"))
    thorough = tier == "thorough"
    fam_sets = [["breakup_assumptions", "single_kallen"], ["width_phsp"], ["kallen_assumptions", "pick_larger"]]
    try:
        # (a) hash seeds through the interpreter environment, one shared directory, sequential processes
        d = root / "seeds"
        order = [None, "0", "424242", "0", None] if thorough else [None, "0", "424242"]
        for n, seed_env in enumerate(order):
            p = _spawn({"dir": str(d), "families": fam_sets[0] + (fam_sets[1] if thorough else []),
                        "iters": 40 if thorough else 16, "seed": rng.randrange(10**9), "prepopulate": n < 3}, seed_env)
            _collect(p, 300, f"PYTHONHASHSEED={seed_env or 'unset'} (process {n} on the shared directory)", fails, stats)
            chk.count(("seed-process", n, seed_env))
        # (b) real death in the middle of a write after k bytes, then a fresh process
        ks = [0, 1, 7, 60, 200, 381] if thorough else [0, 60]
        for k in ks:
            d = root / f"die{k}"
            p = _spawn({"dir": str(d), "families": ["single_breakup"], "iters": 1, "seed": 1, "kill_after_bytes": k}, None)
            try:
                p.communicate(timeout=300)
            except subprocess.TimeoutExpired as e:
                p.kill()
                raise common.InfraError("C16 dying worker timed out") from e
            if p.returncode == 9:
                stats["mid_write_deaths"] += 1
            left = sorted(os.listdir(d)) if d.exists() else []
            p2 = _spawn({"dir": str(d), "families": ["single_breakup"], "iters": 2, "seed": 2}, None)
            _collect(p2, 300, f"call after a process died having written {k} bytes (directory then held {left})", fails, stats)
            chk.count(("mid-write-death", k))
        # (c) hammer: concurrent processes on one directory, some slow writers, SIGKILLs
        d = root / "hammer"
        nworkers = 6 if thorough else 3
        secs = 8.0 if thorough else 2.5
        rounds = 3 if thorough else 1
        hammer_fams = [["breakup_assumptions", "single_kallen"], ["kallen_assumptions", "pick_larger"],
                       ["phsp_assumptions", "breakup_assumptions"]]
        for rd in range(rounds):
            fams = hammer_fams[rd % len(hammer_fams)]
            ws = []
            t0 = time.time()
            for w in range(nworkers):
                seed_env = [None, None, "0", "424242"][w % 4]
                ws.append((_spawn({"dir": str(d), "families": fams, "seconds": secs + 2.5, "seed": rng.randrange(10**9),
                                   "slow": w % 2 == 0}, seed_env), w))
            # kill a third of them at random moments while they are busy; start a fresh one for each
            victims = rng.sample(ws, k=max(1, nworkers // 3))
            restarted = []
            moments = sorted(rng.uniform(3.0, 2.5 + secs) for _ in victims)
            for (p, w), at in zip(victims, moments):
                time.sleep(max(0.0, t0 + at - time.time()))
                if p.poll() is None:
                    p.send_signal(signal.SIGKILL)
                    stats["sigkills"] += 1
                restarted.append((_spawn({"dir": str(d), "families": fams, "seconds": 2.0,
                                          "seed": rng.randrange(10**9), "slow": False}, None), w))
            for p, w in ws:
                _collect(p, 600, f"hammer round {rd}, worker {w} ({fams})", fails, stats, allow_kill=True)
            for p, w in restarted:
                _collect(p, 600, f"hammer round {rd}, restarted worker {w} ({fams})", fails, stats)
            chk.count(("hammer", rd))
        chk.count(None, stats["calls"])
    finally:
        shutil.rmtree(root, ignore_errors=True)
    stats["first_file_name_by_hash_mode"] = {k: sorted(v) for k, v in stats.get("first_file_name_by_hash_mode", {}).items()}
    stats["distinct_key_functions_observed"] = len({re.match(r"pythonhashseed-\d+", n).group(0) if n.startswith("pythonhashseed-") else "sha256"
                                                    for v in stats["first_file_name_by_hash_mode"].values() for n in v})
    chk.info("real_process_stats", stats)
    return fails
