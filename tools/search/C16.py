"""C16 — independent oracles on the real `perform_cached_doit` (no model involved).

The oracle is the property statement itself: the call returns something deep-equal to
`expr.doit()` (computed directly, no cache) and raises nothing, whatever the directory held.

* `sequential(...)`: hook-free, in-process: directories pre-populated with colliding records,
  every/selected byte prefixes of a real record, old-format files, garbage, foreign picklable
  objects, trailing garbage, dangling symlinks, stale temp files; under PYTHONHASHSEED unset and
  set (as seen by get_readable_hash).
* `processes(...)`: REAL processes (tools/corr/C16_worker.py): hash seeds unset/0/other through
  the interpreter's environment, concurrent hammering of one directory with SIGKILLs, real death
  in the middle of a write after k bytes.
"""

from __future__ import annotations

import json
import os
import pickle
import shutil
import signal
import subprocess
import tempfile
import time
from pathlib import Path

from tools.corr import C16_exprs as X
from tools.corr.C16_harness import JUNK, hash_mode
from tools.lib import common


def _check_call(fn, expr, expected, d) -> dict | None:
    try:
        r = fn(expr, d)
    except Exception as ex:  # noqa: BLE001
        return {"observed": "raised", "error": f"{type(ex).__name__}: {ex}"[:300]}
    if not X.deep_equal(r, expected):
        return {"observed": "wrong value", "got": str(r)[:300], "got_type": type(r).__name__,
                "expected": str(expected)[:300]}
    return None


def foreign_objects(expr, result):
    import sympy as sp

    return {
        "pickled str": "hello",
        "pickled int": 7,
        "pickled None": None,
        "pickled list": [1, 2, 3],
        "pickled 2-tuple of ints": (1, 2),
        "pickled 3-tuple": (expr, result, 1),
        "pickled 1-tuple": (expr,),
        "pickled (str(expr), result)": (str(expr), result),
        "pickled dict": {"a": 1},
        "pickled sympy Tuple of two": sp.Tuple(sp.Symbol("q"), sp.Integer(3)),
        "pickled 2-element Matrix": sp.Matrix([sp.Symbol("q"), 3]),
        "pickled (other symbol, 42)": (sp.Symbol("zz"), sp.Integer(42)),
    }


def sequential(chk, rng, n_prefix: int | None, families: dict, modes=("sha", "seed0", "seed424242")) -> list[dict]:
    """Returns failing inputs (dicts). n_prefix=None: every byte prefix of every chosen record."""
    from ampform.sympy import perform_cached_doit as fn
    from ampform.sympy._cache import get_readable_hash

    fails: list[dict] = []
    dist = {"collision": 0, "prefix": 0, "old": 0, "junk": 0, "foreign": 0, "tail": 0, "symlink": 0,
            "stale-temp": 0, "other-record": 0}
    root = Path(tempfile.mkdtemp(prefix="c16seq_"))

    def fresh() -> Path:
        d = Path(tempfile.mkdtemp(prefix="d", dir=root))
        return d

    def report(what, fam, idx, mode, content, res):
        fails.append({"what": what, "family": fam, "expr_index": idx, "mode": mode, "file": content, **res})

    try:
        for fam, exprs in families.items():
            doits = [e.doit() for e in exprs]
            records = [pickle.dumps((e, r)) for e, r in zip(exprs, doits)]
            for mode in modes:
                with hash_mode(mode):
                    names = [get_readable_hash(e) for e in exprs]
                    # 1. collisions: every expression of the group, random order, twice over
                    if len(exprs) > 1:
                        d = fresh()
                        order = list(range(len(exprs))) * 2
                        rng.shuffle(order)
                        for i in order:
                            res = _check_call(fn, exprs[i], doits[i], d)
                            chk.count(("collision", fam, mode, i))
                            dist["collision"] += 1
                            if res:
                                report("string-equal expressions sharing the directory", fam, i, mode,
                                       f"calls in order {order}", res)
                                break
                        shutil.rmtree(d, ignore_errors=True)
                    # the remaining cases use the first expression (and the second as 'other')
                    e, r, rec, name = exprs[0], doits[0], records[0], names[0]
                    d = fresh()
                    f = d / f"{name}.pkl"

                    def with_file(data: bytes, what: str, key, content_desc: str):
                        f.write_bytes(data)
                        res = _check_call(fn, e, r, d)
                        chk.count(key)
                        if res:
                            report(what, fam, 0, mode, content_desc, res)

                    # 2. byte prefixes of the real record
                    if mode == modes[0] or n_prefix is None:
                        ks = range(len(rec)) if n_prefix is None else sorted(
                            {0, 1, 2, len(rec) - 1, len(rec) - 2, *[rng.randrange(len(rec)) for _ in range(n_prefix)]})
                        for k in ks:
                            with_file(rec[:k], "truncated record under the cache file name", ("prefix", fam, k),
                                      f"first {k} of {len(rec)} bytes of pickle.dumps((expr, expr.doit()))")
                            dist["prefix"] += 1
                    # 3. old format (bare result), own and foreign, whole and truncated
                    for j in range(min(2, len(exprs))):
                        bare = pickle.dumps(doits[j])
                        with_file(bare, "old-format file (bare result)", ("old", fam, mode, j),
                                  f"pickle.dumps(doit of expression {j})")
                        with_file(bare[: len(bare) // 2], "truncated old-format file", ("oldtrunc", fam, mode, j),
                                  "half of a bare result pickle")
                        dist["old"] += 2
                    # 4. garbage, empty
                    for g in [b"", *JUNK]:
                        with_file(g, "garbage bytes under the cache file name", ("junk", fam, mode, g[:6]), repr(g))
                        dist["junk"] += 1
                    # 5. foreign loadable objects
                    for label, obj in foreign_objects(e, r).items():
                        with_file(pickle.dumps(obj), "foreign pickled object under the cache file name",
                                  ("foreign", fam, mode, label), label)
                        dist["foreign"] += 1
                    # 6. complete record followed by garbage; record of another expression
                    with_file(rec + b"\x00trailing garbage", "record followed by garbage", ("tail", fam, mode), "record + bytes")
                    dist["tail"] += 1
                    for j in range(1, len(exprs)):
                        with_file(records[j], "record of a different expression that prints identically",
                                  ("other-record", fam, mode, j), f"pickle.dumps((expr_{j}, doit(expr_{j})))")
                        dist["other-record"] += 1
                    # 7. dangling symlink, stale temp file of this very pid
                    f.unlink(missing_ok=True)
                    os.symlink(d / "does-not-exist", f)
                    res = _check_call(fn, e, r, d)
                    chk.count(("symlink", fam, mode))
                    dist["symlink"] += 1
                    if res:
                        report("dangling symlink under the cache file name", fam, 0, mode, "symlink", res)
                    if f.is_symlink():
                        f.unlink()
                    f.unlink(missing_ok=True)
                    (d / f"{name}.pkl.{os.getpid()}.tmp").write_bytes(rec[:5])
                    res = _check_call(fn, e, r, d)
                    chk.count(("stale-temp", fam, mode))
                    dist["stale-temp"] += 1
                    if res:
                        report("stale temp file of the same pid", fam, 0, mode, "5 bytes", res)
                    shutil.rmtree(d, ignore_errors=True)
    finally:
        shutil.rmtree(root, ignore_errors=True)
    chk.info("sequential_oracle_distribution", dist)
    return fails


def outside_model_observations() -> list[dict]:
    """Directory entries that no history of calls can produce (recorded, no verdict)."""
    from ampform.sympy import perform_cached_doit as fn
    from ampform.sympy._cache import get_readable_hash

    e = X.families()["single_kallen"][0]
    obs = []
    root = Path(tempfile.mkdtemp(prefix="c16obs_"))
    try:
        with hash_mode("sha"):
            name = get_readable_hash(e)
            for label, mk in {
                "sub-directory named like the cache file": lambda d: (d / f"{name}.pkl").mkdir(),
                "sub-directory named like the temp file": lambda d: (d / f"{name}.pkl.{os.getpid()}.tmp").mkdir(),
            }.items():
                d = Path(tempfile.mkdtemp(prefix="d", dir=root))
                mk(d)
                res = _check_call(fn, e, e.doit(), d)
                obs.append({"directory_entry": label, "result": "ok" if res is None else res})
    finally:
        shutil.rmtree(root, ignore_errors=True)
    return obs


# --------------------------------------------------------------------------- real processes


def _spawn(cfg: dict, seed_env: str | None) -> subprocess.Popen:
    env = dict(os.environ)
    env.pop("PYTHONHASHSEED", None)
    if seed_env is not None:
        env["PYTHONHASHSEED"] = seed_env
    cfg = {**cfg, "repo_src": str(common.REPO / "src"), "verif_root": str(common.ROOT)}
    return subprocess.Popen(
        [common.PY, str(common.ROOT / "tools" / "corr" / "C16_worker.py"), json.dumps(cfg)],
        stdout=subprocess.PIPE, stderr=subprocess.PIPE, text=True, env=env, cwd=str(common.ROOT))


def _collect(p: subprocess.Popen, timeout: float, what: str, fails: list, stats: dict, allow_kill=False):
    try:
        out, err = p.communicate(timeout=timeout)
    except subprocess.TimeoutExpired as e:
        p.kill()
        raise common.InfraError(f"C16 worker timed out ({what})") from e
    if p.returncode != 0 and not (allow_kill and p.returncode in (-9, 9)):
        raise common.InfraError(f"C16 worker failed ({what}): rc={p.returncode} {err[-800:]}")
    for line in out.splitlines():
        try:
            j = json.loads(line)
        except json.JSONDecodeError:
            continue
        if "fail" in j:
            fails.append({"what": f"real process: {j['fail']}", "scenario": what, **j})
        if "summary" in j:
            s = j["summary"]
            stats["calls"] += s["calls"]
            stats["wrong"] += s["wrong"]
            stats["raised"] += s["raised"]
            stats["workers"] += 1


def processes(chk, rng, tier: str) -> list[dict]:
    fails: list[dict] = []
    stats = {"calls": 0, "wrong": 0, "raised": 0, "workers": 0, "sigkills": 0, "mid_write_deaths": 0}
    root = Path(tempfile.mkdtemp(prefix="c16proc_"))
    thorough = tier == "thorough"
    fam_sets = [["breakup_assumptions", "single_kallen"], ["width_phsp"], ["kallen_assumptions", "pick_larger"]]
    try:
        # (a) hash seeds through the interpreter environment, one shared directory, sequential processes
        d = root / "seeds"
        order = [None, "0", "424242", "0", None] if thorough else [None, "0", "424242"]
        for n, seed_env in enumerate(order):
            p = _spawn({"dir": str(d), "families": fam_sets[0] + (fam_sets[1] if thorough else []),
                        "iters": 40 if thorough else 16, "seed": rng.randrange(10**9), "prepopulate": n < 3}, seed_env)
            _collect(p, 300, f"PYTHONHASHSEED={seed_env or 'unset'} (process {n} on the shared directory)", fails, stats)
            chk.count(("seed-process", n, seed_env))
        # (b) real death in the middle of a write after k bytes, then a fresh process
        ks = [0, 1, 7, 60, 200, 381] if thorough else [0, 60]
        for k in ks:
            d = root / f"die{k}"
            p = _spawn({"dir": str(d), "families": ["single_breakup"], "iters": 1, "seed": 1, "kill_after_bytes": k}, None)
            try:
                p.communicate(timeout=300)
            except subprocess.TimeoutExpired as e:
                p.kill()
                raise common.InfraError("C16 dying worker timed out") from e
            if p.returncode == 9:
                stats["mid_write_deaths"] += 1
            left = sorted(os.listdir(d)) if d.exists() else []
            p2 = _spawn({"dir": str(d), "families": ["single_breakup"], "iters": 2, "seed": 2}, None)
            _collect(p2, 300, f"call after a process died having written {k} bytes (directory then held {left})", fails, stats)
            chk.count(("mid-write-death", k))
        # (c) hammer: concurrent processes on one directory, some slow writers, SIGKILLs
        d = root / "hammer"
        nworkers = 6 if thorough else 3
        secs = 8.0 if thorough else 2.5
        rounds = 3 if thorough else 1
        hammer_fams = [["breakup_assumptions", "single_kallen"], ["kallen_assumptions", "pick_larger"],
                       ["phsp_assumptions", "breakup_assumptions"]]
        for rd in range(rounds):
            fams = hammer_fams[rd % len(hammer_fams)]
            ws = []
            t0 = time.time()
            for w in range(nworkers):
                seed_env = [None, None, "0", "424242"][w % 4]
                ws.append((_spawn({"dir": str(d), "families": fams, "seconds": secs + 2.5, "seed": rng.randrange(10**9),
                                   "slow": w % 2 == 0}, seed_env), w))
            # kill a third of them at random moments while they are busy; start a fresh one for each
            victims = rng.sample(ws, k=max(1, nworkers // 3))
            restarted = []
            moments = sorted(rng.uniform(3.0, 2.5 + secs) for _ in victims)
            for (p, w), at in zip(victims, moments):
                time.sleep(max(0.0, t0 + at - time.time()))
                if p.poll() is None:
                    p.send_signal(signal.SIGKILL)
                    stats["sigkills"] += 1
                restarted.append((_spawn({"dir": str(d), "families": fams, "seconds": 2.0,
                                          "seed": rng.randrange(10**9), "slow": False}, None), w))
            for p, w in ws:
                _collect(p, 600, f"hammer round {rd}, worker {w} ({fams})", fails, stats, allow_kill=True)
            for p, w in restarted:
                _collect(p, 600, f"hammer round {rd}, restarted worker {w} ({fams})", fails, stats)
            chk.count(("hammer", rd))
        chk.count(None, stats["calls"])
    finally:
        shutil.rmtree(root, ignore_errors=True)
    chk.info("real_process_stats", stats)
    return fails
