"""NOT USED BY THE CHECK. Development-time generator of the table-driven sections of Props/C19.lean"""
import sys, itertools; sys.path.insert(0,'/verif')
from tools.lib import common; common.use_repo_source()
from tools.props import C19
table = C19.probe()
ARGS = "m_0 m_1 m_2 m_3 m_12 m_13 m_23"
HC = "(hc : m_12 ^ 2 + m_13 ^ 2 + m_23 ^ 2 = m_0 ^ 2 + m_1 ^ 2 + m_2 ^ 2 + m_3 ^ 2)"
HK = "(hK : Kibble (m_23 ^ 2) (m_13 ^ 2) (m_12 ^ 2) m_0 m_1 m_2 m_3 ≤ 0)"
fam_info = {f: (a,c,n) for f,a,c,n in C19.FAMILIES}
def bullets(fam, some_tac):
    apre,cpre,ar = fam_info[fam]
    lines=[]
    for idx in itertools.product(range(4), repeat=ar):
        ent = table[fam, idx]
        if ent[0] in ("acos","negAcos"):
            lines.append("  · obtain rfl := Option.some.inj h; " + some_tac(C19._name(cpre, idx)))
        else:
            lines.append(f"  · simp [{fam}Cos] at h")
    return "\n".join(lines)
def intro(fam):
    ar = fam_info[fam][2]
    vs = ["i","j","k"][:ar]
    q = " ".join(f"∀ {v} < 4," for v in vs)
    it = " ".join(f"{v} h{v}" for v in vs)
    ic = " <;> ".join(f"interval_cases {v}" for v in vs)
    return vs, q, it, ic
out=[]
out.append('''/-! ### Arguments of all arccosines lie in [−1, 1] on the physical region

The physical region is described in the library's own variables: `σ₁+σ₂+σ₃ = Σ m²` and
`Kibble ≤ 0` (the library's `Kibble`, regenerated). Each bound comes from the identity
`4 m₀² (λ_a λ_b − N²) = −c · Kibble` with `c ∈ {σ_k, m₀², m_i²}` (lemmas `…_range`). Where a Källén
factor is `≤ 0` (outside the region, or on its edge where the real code divides by zero)
`Real.sqrt` is `0` and the quotient is `0` by Lean's conventions, so the statement needs no
further guard; the evidence file lists what the real code does there. -/

section range
variable {m_0 m_1 m_2 m_3 m_12 m_13 m_23 : ℝ}
''')
for fam, doc in (("theta","scattering angles"),("thetaHat","θ̂ angles"),("zeta","ζ angles")):
    vs,q,it,ic = intro(fam)
    out.append(f'''/-- every arccos argument of the {doc} lies in `[-1, 1]` -/
theorem {fam}_cos_range (hm : m_0 ≠ 0)
    {HC}
    {HK} :
    {q} ∀ x, {fam}Cos {' '.join(vs)} {ARGS} = some x → |x| ≤ 1 := by
  intro {it} x h
  {ic}
{bullets(fam, lambda n: f"exact {n}_range hm hc hK")}
''')
out.append("end range\n")
print("\n".join(out))

out=[]
for fam in ("theta","thetaHat","zeta"):
    vs,q,it,ic = intro(fam)
    rhs = {"theta": "-V4.covCos (pick p1 p2 p3 i + pick p1 p2 p3 j) (pick p1 p2 p3 i) (pick p1 p2 p3 (6 - i - j))",
           "thetaHat": "V4.covCos (p1 + p2 + p3) (pick p1 p2 p3 i) (pick p1 p2 p3 j)",
           "zeta": "V4.covCos (pick p1 p2 p3 i) (pick p1 p2 p3 (zetaDir i j)) (pick p1 p2 p3 (zetaDir i (if k = 0 then i else k)))"}[fam]
    doc = {"theta": "`cos θ_ij = −covCos (p_i+p_j) p_i p_k`: minus the cosine between `i` and the spectator `k` in the `(ij)` frame",
           "thetaHat": "`cos θ̂_{i(j)} = covCos p₀ p_i p_j`: the cosine between `i` and `j` seen from the parent",
           "zeta": "`cos ζⁱ_{j(k)} = covCos p_i d_j d_k`: the cosine, seen from particle `i` (from the parent for `i = 0`), between the directions attached to chains `j` and `k`"}[fam]
    out.append(f'''/-- {doc} — for all index tuples and ANY three four-vectors (no frame condition). -/
theorem {fam}_cos_covariant (h : Masses p1 p2 p3 {ARGS}) :
    {q} ∀ x, {fam}Cos {' '.join(vs)} {ARGS} = some x →
      x = {rhs} := by
  intro {it} x h'
  {ic}
{bullets(fam, lambda n: f"exact {n}_cov h").replace(" at h", " at h'").replace("inj h;", "inj h';")}
''')
print("\n".join(out))
