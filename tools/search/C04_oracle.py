"""C04 — independent numeric oracle: the property statement evaluated on the real code.

For a reaction (qrules JSON from corpus/C04, optionally restricted to some resonances) and an
alignment choice the real `HelicityAmplitudeBuilder` formulates the model; physical events are
generated in the initial-state rest frame (numpy), every final-state momentum is rotated by a
proper rotation, the REAL kinematic-variable expressions (`model.kinematic_variables`,
lambdified) are evaluated on both momentum sets and fed into the REAL lambdified intensity at
random coupling values. Rotated and unrotated intensities must agree.

Nothing here uses ampform's own helpers to decide what is expected: topology facts (attached
final states, opposite-helicity child, "decays further") are recomputed from the qrules
topology.
"""

from __future__ import annotations

import math
import time
from dataclasses import dataclass, field

import numpy as np

from tools.lib import common

CORPUS = common.ROOT / "corpus" / "C04"
RTOL = 1e-9

KNOWN_CLASS = "multi-topology with a decaying opposite-helicity child"
DPD_CLASS = "Dalitz-plot-decomposition alignment with several topologies"
AXIS_SIGN_CLASS = "axis-angle alignment with half-integer spins: relative sign of topologies"


# ----------------------------------------------------------------------------- cases


@dataclass(frozen=True)
class Case:
    reaction: str  # corpus file stem
    keep: tuple = ()  # names of intermediate particles to keep (empty: all)
    alignment: str = "none"  # none | axis | dpd1 | dpd2 | dpd3
    tier: str = "quick"
    events: str = "uniform"  # uniform | lowpair:i,j (pair mass in the lowest 12 % of its range: fast resonance and daughters)
    rtol: float = RTOL
    opts: tuple = ()  # non-default builder options: "stable" (all final-state masses fixed), "scalar" (initial mass fixed),
    #                   "couplings" (use_helicity_couplings)

    @property
    def id(self) -> str:
        k = "+".join(self.keep) if self.keep else "all"
        ev = "" if self.events == "uniform" else f"/{self.events}"
        op = "" if not self.opts else "/" + "+".join(self.opts)
        return f"{self.reaction}[{k}]/{self.alignment}{ev}{op}"


RHO = "jpsi_pi0_pip_pim_rho"
LC = "lambdac_p_km_pip"
SYN = "synthetic_heavy_parent"
CASES = [
    # axis-angle, two topologies (01)2 + (02)1, integer spins, spin-1 final state below a resonance; the second
    # family has a light fast resonance and daughter, so that Wigner rotations beyond 90 degrees occur
    Case(SYN, (), "axis", events="lowpair:0,1", rtol=1e-7),
    Case(SYN, (), "axis", rtol=1e-7),
    # the spin-1 particle at final-state id 2 (spectator in (01)2, below S1 in (02)1) and a spin-0 parent
    Case("synthetic_J1_spin_at_2", (), "axis", events="lowpair:0,2", rtol=1e-7),
    Case("synthetic_J0_spin_at_1", (), "axis", events="lowpair:0,1", rtol=1e-7),
    Case("synthetic_J0_spin_at_2", (), "axis", events="lowpair:0,2", rtol=1e-7),
    Case("jpsi_gamma_pi0_pi0"),
    Case(RHO, ("rho(770)+", "rho(770)-")),
    Case(RHO),
    Case("jpsi_kp_pim_pip_km_cascade"),
    Case("jpsi_km_pip_kp_pim_cascade"),
    Case("jpsi_kstar_kstarbar"),
    Case("jpsi_kp_pim_pip_km_two_cascades"),
    Case(RHO, ("rho(770)+", "rho(770)-"), "axis"),
    Case("jpsi_kstar_kstarbar", (), "axis"),
    # ---- thorough
    Case(RHO, ("rho(770)+", "rho(770)0"), tier="thorough"),
    Case(RHO, ("rho(770)0", "rho(770)-"), tier="thorough"),
    Case(RHO, ("rho(770)+",), tier="thorough"),
    Case(RHO, ("rho(770)0",), tier="thorough"),
    Case(RHO, ("rho(770)-",), tier="thorough"),
    Case(RHO, (), "axis", tier="thorough"),
    Case(RHO, ("rho(770)0",), "axis", tier="thorough"),
    Case(RHO, ("rho(770)0",), "dpd1", tier="thorough"),
    Case(RHO, ("rho(770)+",), "dpd2", tier="thorough"),
    Case(RHO, ("rho(770)+", "rho(770)-"), "dpd1", tier="thorough"),
    Case("jpsi_gamma_pi0_pi0", (), "dpd1", tier="thorough"),
    Case("jpsi_kp_pim_pip_km_cascade", (), "axis", tier="thorough"),
    Case("jpsi_km_pip_kp_pim_cascade", (), "axis", tier="thorough"),
    Case("jpsi_kp_pim_pip_km_two_cascades", (), "axis", tier="thorough"),
    Case("jpsi_kp_pim_pip_km_two_cascades", ("K(1)(1270)+", "K*(892)0"), tier="thorough"),
    Case("jpsi_kp_pim_pip_km_two_cascades", ("b(1)(1235)-", "K*(892)0"), tier="thorough"),
    Case(LC, ("Lambda(1520)",), tier="thorough"),
    Case(LC, ("Delta(1232)++",), tier="thorough"),
    Case(LC, ("K*(892)0",), tier="thorough"),
    Case(LC, ("Lambda(1520)", "Delta(1232)++"), tier="thorough"),  # out of domain (spinful, unaligned)
    Case(LC, ("Lambda(1520)", "Delta(1232)++"), "axis", tier="thorough"),
    Case(LC, ("Lambda(1520)", "K*(892)0"), "axis", tier="thorough"),
    Case(LC, ("K*(892)0",), "axis", tier="thorough"),
    Case(LC, ("Lambda(1520)",), "dpd1", tier="thorough"),
    Case(LC, ("K*(892)0",), "dpd3", tier="thorough"),
    Case(LC, ("Lambda(1520)", "Delta(1232)++"), "dpd1", tier="thorough"),
    Case("synthetic_J1_spin_at_0", (), "axis", tier="thorough", events="lowpair:0,1", rtol=1e-7),
    Case("synthetic_J1_spin_at_0", (), "axis", tier="thorough", rtol=1e-7),
    Case("synthetic_J1_spin_at_2", (), "axis", tier="thorough", rtol=1e-7),
    Case("synthetic_J2_spin_at_1", (), "axis", tier="thorough", events="lowpair:0,1", rtol=1e-7),
    Case("synthetic_J2_spin_at_2", (), "axis", tier="thorough", events="lowpair:0,2", rtol=1e-7),
    Case("synthetic_J2_spin_at_2", (), "none", tier="thorough"),  # out of domain (spinful, unaligned): recorded only
    Case("synthetic_four_body", (), "axis", tier="thorough", rtol=1e-8),
    Case("jpsi_pi0_pi0_gamma", tier="thorough"),
    Case("jpsi_pi0_gamma_pi0", tier="thorough"),
    Case(RHO, ("rho(770)+", "rho(770)-"), tier="thorough", opts=("stable", "scalar")),
    Case(RHO, ("rho(770)+", "rho(770)-"), "axis", tier="thorough", opts=("stable", "scalar", "couplings")),
    Case(RHO, ("rho(770)+", "rho(770)-"), tier="thorough", opts=("couplings",)),
    Case("jpsi_pip_omega_pim", (), "axis", tier="thorough"),
    Case("jpsi_pip_omega_pim", ("b(1)(1235)+",), "axis", tier="thorough"),
    Case(SYN, ("R1",), "axis", tier="thorough", events="lowpair:0,1", rtol=1e-7),
    Case(SYN, (), "axis", tier="thorough", events="lowpair:0,2", rtol=1e-7),
    Case("etac_pi0_p_pbar", ("N(1440)+",), tier="thorough"),
    Case("etac_pi0_p_pbar", ("N(1440)+",), "axis", tier="thorough"),
    Case("etac_pi0_p_pbar", ("N(1440)~-",), "dpd1", tier="thorough"),
    Case("etac_pi0_p_pbar", (), "axis", tier="thorough"),
    Case("etac_pi0_p_pbar", (), "dpd2", tier="thorough"),
]


# ----------------------------------------------------------------------------- topology facts


def topology_facts(topology) -> dict:
    """Recomputed from the qrules topology only (edges with originating / ending node)."""
    edges = topology.edges
    children = {}
    for eid, e in edges.items():
        if e.originating_node_id is not None:
            children.setdefault(e.originating_node_id, []).append(eid)

    def attached(eid):
        e = edges[eid]
        if e.ending_node_id is None:
            return (eid,)
        out = []
        for c in children.get(e.ending_node_id, []):
            out += attached(c)
        return tuple(sorted(out))

    def shape(eid):
        e = edges[eid]
        if e.ending_node_id is None:
            return str(eid)
        cs = sorted(children[e.ending_node_id], key=attached)
        return "(" + "".join(shape(c) for c in cs) + ")"

    decaying_opposite = False
    both_decay = False
    for node, cs in children.items():
        if len(cs) != 2:
            raise ValueError("not an isobar topology")
        a, b = sorted(cs, key=attached)  # b is the opposite-helicity child
        if edges[b].ending_node_id is not None:
            decaying_opposite = True
        if edges[a].ending_node_id is not None and edges[b].ending_node_id is not None:
            both_decay = True
    root = next(eid for eid, e in edges.items() if e.originating_node_id is None)
    return {
        "shape": shape(root),
        "decaying_opposite_helicity_child": decaying_opposite,
        "both_children_decay": both_decay,
        "n_final": sum(1 for e in edges.values() if e.ending_node_id is None),
    }


# ----------------------------------------------------------------------------- events


def _two_body(M, ma, mb):
    lam = (M * M - (ma + mb) ** 2) * (M * M - (ma - mb) ** 2)
    return np.sqrt(np.maximum(lam, 0.0)) / (2 * M)


def _iso(g, n):
    c = g.uniform(-1, 1, n)
    ph = g.uniform(-np.pi, np.pi, n)
    s = np.sqrt(1 - c * c)
    return np.stack([s * np.cos(ph), s * np.sin(ph), c], axis=1)


def _boost(p, frame):
    """p given in the rest frame of `frame`; returns p in the frame where `frame` is measured."""
    M = np.sqrt(frame[:, 0] ** 2 - np.sum(frame[:, 1:] ** 2, axis=1))
    b = frame[:, 1:] / frame[:, [0]]
    gam = frame[:, 0] / M
    b2 = np.sum(b * b, axis=1)
    bp = np.sum(b * p[:, 1:], axis=1)
    g2 = np.where(b2 > 0, (gam - 1) / np.where(b2 > 0, b2, 1), 0)
    E = gam * (p[:, 0] + bp)
    v = p[:, 1:] + (g2 * bp)[:, None] * b + (gam * p[:, 0])[:, None] * b
    return np.concatenate([E[:, None], v], axis=1)


def phase_space(g, M, masses, n):
    """n events of M -> masses in the rest frame of M (sequential two-body decays, unweighted)."""
    k = len(masses)
    u = np.sort(g.uniform(0.02, 0.98, (n, k - 2)), axis=1) if k > 2 else np.zeros((n, 0))
    T = M - sum(masses)
    Ms = [np.full(n, masses[0])]
    for j in range(1, k - 1):
        Ms.append(sum(masses[: j + 1]) + u[:, j - 1] * T)
    Ms.append(np.full(n, M))
    out = [None] * k
    frame = np.concatenate([np.full((n, 1), M), np.zeros((n, 3))], axis=1)
    for j in range(k - 1, 0, -1):
        q = _two_body(Ms[j], Ms[j - 1], masses[j])
        d = _iso(g, n)
        pj = np.concatenate([np.sqrt(masses[j] ** 2 + q * q)[:, None], q[:, None] * d], axis=1)
        ps = np.concatenate([np.sqrt(Ms[j - 1] ** 2 + q * q)[:, None], -q[:, None] * d], axis=1)
        if j < k - 1:
            out[j] = _boost(pj, frame)
            frame = _boost(ps, frame)
        else:
            out[j] = pj
            frame = ps
    out[0] = frame
    return out


def low_pair_mass(g, M, masses, pair, n, frac=0.12):
    """Three-body events M -> k + X, X -> i j with m_X in the lowest `frac` of its range."""
    i, j = pair
    (k,) = [x for x in range(3) if x not in pair]
    lo, hi = masses[i] + masses[j], M - masses[k]
    mx = lo + (hi - lo) * g.uniform(0.002, frac, n)
    q = _two_body(M, mx, masses[k])
    d = _iso(g, n)
    px = np.concatenate([np.sqrt(mx ** 2 + q * q)[:, None], q[:, None] * d], axis=1)
    pk = np.concatenate([np.sqrt(masses[k] ** 2 + q * q)[:, None], -q[:, None] * d], axis=1)
    r = _two_body(mx, masses[i], masses[j])
    e = _iso(g, n)
    pi = np.concatenate([np.sqrt(masses[i] ** 2 + r * r)[:, None], r[:, None] * e], axis=1)
    pj = np.concatenate([np.sqrt(masses[j] ** 2 + r * r)[:, None], -r[:, None] * e], axis=1)
    out = [None, None, None]
    out[k], out[i], out[j] = pk, _boost(pi, px), _boost(pj, px)
    return out


def random_rotations(g, n):
    """n proper rotations: Haar-random ones plus a few fixed axis rotations."""
    A = g.normal(size=(n, 3, 3))
    Q, R = np.linalg.qr(A)
    Q = Q * np.sign(np.diagonal(R, axis1=1, axis2=2))[:, None, :]
    det = np.linalg.det(Q)
    Q[:, :, 0] *= det[:, None]
    c, s = math.cos(0.7), math.sin(0.7)
    fixed = [
        np.array([[c, 0, s], [0, 1, 0], [-s, 0, c]]),  # about y by 0.7 (the design's witness)
        np.array([[c, -s, 0], [s, c, 0], [0, 0, 1]]),  # about z
        np.array([[1, 0, 0], [0, c, -s], [0, s, c]]),  # about x
        np.array([[-1, 0, 0], [0, -1, 0], [0, 0, 1.0]]),  # half turn about z
    ]
    for i, F in enumerate(fixed[: min(len(fixed), n)]):
        Q[i] = F
    return Q


def rotate(ev, R):
    return [np.concatenate([e[:, [0]], np.einsum("nij,nj->ni", R, e[:, 1:])], axis=1) for e in ev]


# ----------------------------------------------------------------------------- model


def load_reaction(name: str):
    import qrules.io

    return qrules.io.load(str(CORPUS / f"{name}.json"))


def restrict(reaction, keep):
    from qrules.transition import ReactionInfo

    if not keep:
        return reaction
    sel = [
        t for t in reaction.transitions
        if all(t.states[i].particle.name in keep for i in t.topology.intermediate_edge_ids)
    ]
    if not sel:
        raise ValueError(f"no transitions left for {keep}")
    return ReactionInfo(sel, formalism=reaction.formalism)


@dataclass
class Built:
    case: Case
    facts: list
    n_topologies: int
    spinless_final: bool
    required: bool
    why: str
    pars: list = field(default_factory=list)
    kin: list = field(default_factory=list)
    f_int: object = None
    f_kin: dict = field(default_factory=dict)
    ids: list = field(default_factory=list)
    masses: list = field(default_factory=list)
    M: float = 0.0
    defaults: dict = field(default_factory=dict)
    t_formulate: float = 0.0
    half_integer: bool = False
    par_topology: list = field(default_factory=list)  # topology index of each parameter (or None)


def build(case: Case) -> Built:
    import sympy as sp

    import ampform
    from ampform.kinematics.lorentz import create_four_momentum_symbols

    reaction = restrict(load_reaction(case.reaction), case.keep)
    tops = []
    for t in reaction.transitions:
        if t.topology not in tops:
            tops.append(t.topology)
    facts = [topology_facts(t) for t in tops]
    spinless = all(p.spin == 0 for p in reaction.final_state.values())
    if len(tops) == 1:
        required, why = True, "single topology"
    elif spinless:
        required, why = True, "several topologies, spinless final state"
    elif case.alignment != "none":
        required, why = True, "several topologies, spin alignment selected"
    else:
        required, why = False, "several topologies, final state with spin, no alignment: outside the property"
    b = Built(case, facts, len(tops), spinless, required, why)
    outer = [*reaction.initial_state.values(), *reaction.final_state.values()]
    b.half_integer = any(int(round(2 * float(p.spin))) % 2 == 1 for p in outer)
    if not required:
        return b
    latex_of = []
    for top in tops:
        names = set()
        for t in reaction.transitions:
            if t.topology == top:
                for i in top.intermediate_edge_ids:
                    names.add(t.states[i].particle.latex or t.states[i].particle.name)
        latex_of.append(names)
    t0 = time.time()
    if case.alignment.startswith("dpd"):
        from ampform.helicity.align.dpd import DalitzPlotDecomposition, relabel_edge_ids

        reaction = relabel_edge_ids(reaction)
        builder = ampform.get_builder(reaction)
        builder.config.spin_alignment = DalitzPlotDecomposition(reference_subsystem=int(case.alignment[3]))
    else:
        builder = ampform.get_builder(reaction)
        if case.alignment == "axis":
            from ampform.helicity.align.axisangle import AxisAngleAlignment

            builder.config.spin_alignment = AxisAngleAlignment()
    if "stable" in case.opts:
        builder.config.stable_final_state_ids = set(reaction.final_state)
    if "scalar" in case.opts:
        builder.config.scalar_initial_state_mass = True
    if "couplings" in case.opts:
        builder.config.use_helicity_couplings = True
    model = builder.formulate()
    expr = unfold(model.expression)
    pars = list(model.parameter_defaults)
    kin = [s for s in model.kinematic_variables if s in expr.free_symbols]
    extra = [s for s in expr.free_symbols if s not in pars and s not in kin]
    if extra:
        raise RuntimeError(f"intensity has symbols that are neither parameters nor kinematic variables: {extra}")
    b.f_int = sp.lambdify(pars + kin, expr, "numpy", cse=True)
    p = create_four_momentum_symbols(reaction.transitions[0].topology)
    b.ids = sorted(p)
    psyms = [p[i] for i in b.ids]
    b.f_kin = {s: sp.lambdify(psyms, model.kinematic_variables[s].doit(), "numpy", cse=True) for s in kin}
    b.pars, b.kin = pars, kin
    b.masses = [float(reaction.final_state[i].mass) for i in b.ids]
    b.M = float(next(iter(reaction.initial_state.values())).mass)
    b.defaults = {s: model.parameter_defaults[s] for s in pars}
    for s_ in pars:
        hits = [k for k, names in enumerate(latex_of) if any(nm in s_.name for nm in names)]
        b.par_topology.append(hits[0] if len(hits) == 1 else None)
    b.t_formulate = time.time() - t0
    return b


def unfold(expr):
    """`expr.doit()`, but every distinct WignerD is unfolded once (32 s -> 4 s for aligned models)."""
    from sympy.physics.quantum.spin import WignerD

    expr = expr.xreplace({w: w.doit() for w in expr.atoms(WignerD)})
    if any(hasattr(node, "evaluate") or hasattr(node, "doit") and type(node).__name__ in ("WignerD", "PoolSum", "CG")
           for node in _nodes(expr)):
        expr = expr.doit()
    return expr


def _nodes(expr):
    import sympy as sp

    return sp.preorder_traversal(expr)


def parameter_values(b: Built, g) -> list:
    vals = []
    for s in b.pars:
        d = b.defaults[s]
        if s.name.startswith("C_") or s.name.startswith("H_") or getattr(s, "is_real", None) is not True:
            vals.append(complex(g.normal(), g.normal()))
        else:
            vals.append(complex(d) if isinstance(d, complex) else float(d))
    return vals


def intensity(b: Built, pv, ev):
    with np.errstate(all="ignore"):
        kv = [b.f_kin[s](*ev) for s in b.kin]
        val = b.f_int(*pv, *kv)
    return np.broadcast_to(np.asarray(val), (len(ev[0]),)).astype(complex)


def run_case(b: Built, g, n_events: int) -> dict:
    """Returns {'worst': float, 'n': int, 'skipped': int, 'fail': dict|None}."""
    if b.case.events.startswith("lowpair:"):
        pair = tuple(int(x) for x in b.case.events.split(":")[1].split(","))
        ev = low_pair_mass(g, b.M, b.masses, pair, n_events)
    else:
        ev = phase_space(g, b.M, b.masses, n_events)
    R = random_rotations(g, n_events)
    ev2 = rotate(ev, R)
    pv = parameter_values(b, g)
    I1 = intensity(b, pv, ev)
    I2 = intensity(b, pv, ev2)
    ok = np.isfinite(I1) & np.isfinite(I2)
    scale = np.maximum(np.abs(I1), np.abs(I2))
    typical = np.median(scale[ok]) if ok.any() else 0.0
    ok &= scale > 1e-9 * typical  # intensity zeros are ill-conditioned for a relative comparison
    rel = np.where(ok, np.abs(I1 - I2) / np.where(scale > 0, scale, 1), 0.0)
    imag = float(np.max(np.abs(I1.imag[ok]) / np.where(scale[ok] > 0, scale[ok], 1))) if ok.any() else 0.0
    i = int(np.argmax(rel))
    rtol = b.case.rtol
    res = {"worst": float(rel[i]), "n": int(ok.sum()), "skipped": int((~ok).sum()), "fail": None,
           "imag": imag, "wigner_beyond_90deg": wigner_beyond_90(b, ev, ev2)}
    if rel[i] > rtol:
        res["fail"] = {
            "event": {str(k): [float(x) for x in e[i]] for k, e in zip(b.ids, ev)},
            "rotation": [[float(x) for x in row] for row in R[i]],
            "parameters": {s.name: [complex(v).real, complex(v).imag] for s, v in zip(b.pars, pv)},
            "intensity": float(I1[i].real),
            "intensity_rotated": float(I2[i].real),
            "relative_change": float(rel[i]),
            "events_failing": int((rel > rtol).sum()),
            "events": int(ok.sum()),
        }
        res["sign_flip_explains_all"] = _sign_flip_explains(b, pv, ev2, I1, np.where(rel > rtol)[0])
    return res


def wigner_beyond_90(b: Built, ev, ev2) -> int:
    """Number of (event, rotated event) sets in which some Wigner rotation exceeds 90 degrees, judged
    independently of the library's polar-angle formula: the ZZ element of the Wigner rotation
    matrix is negative, i.e. cos(beta) < 0 whatever inverse function extracts beta. Uses the
    library's alpha, gamma-free information only through `beta` symbols when the matrix is not
    exposed: beta is recomputed here as acos(cos beta) from the model's own variables."""
    names = [s for s in b.kin if s.name.startswith("beta_")]
    if not names:
        return 0
    hit = np.zeros(len(ev[0]), dtype=bool)
    with np.errstate(all="ignore"):
        for s in names:
            for e in (ev, ev2):
                hit |= np.real(np.asarray(b.f_kin[s](*e))) > np.pi / 2
    return int(hit.sum())


def _sign_flip_explains(b: Built, pv, ev2, I1, bad) -> bool:
    """True iff on EVERY failing event the rotated intensity equals the unrotated one after the
    couplings of some subset of topologies change sign (the double-valuedness of half-integer
    Wigner functions); only meaningful for axis-angle models with half-integer spins."""
    if not (b.case.alignment == "axis" and b.half_integer and b.n_topologies >= 2):
        return False
    if any(t is None for t, s_ in zip(b.par_topology, b.pars) if s_.name.startswith("C_")):
        return False
    if len(bad) == 0 or b.n_topologies > 6:
        return False
    sub = [e[bad] for e in ev2]
    explained = np.zeros(len(bad), dtype=bool)
    for mask in range(1, 2 ** (b.n_topologies - 1)):
        flipped = {k for k in range(b.n_topologies - 1) if mask >> k & 1}
        pv2 = [(-v if t in flipped else v) for v, t in zip(pv, b.par_topology)]
        I2 = intensity(b, pv2, sub)
        sc = np.maximum(np.abs(I1[bad]), np.abs(I2))
        explained |= np.abs(I1[bad] - I2) <= RTOL * np.where(sc > 0, sc, 1)
    return bool(explained.all())


def _degenerate_events(b: Built, g, pair, n, kind, eps=0.0):
    """Three-body events on/near the sets the theorems exclude: the pair's momentum along +-z (`+z`, `-z`),
    at angle eps to z (`near`), a daughter exactly along the pair's flight direction (`daughter`), the pair at
    rest in the parent frame (`rest`)."""
    i, j = pair
    (k,) = [x for x in range(3) if x not in pair]
    m, M = b.masses, b.M
    lo, hi = m[i] + m[j], M - m[k]
    mx = np.full(n, hi) if kind == "rest" else lo + (hi - lo) * g.uniform(0.2, 0.8, n)
    q = _two_body(M, mx, m[k])
    if kind in ("+z", "-z", "near"):
        d = np.tile(np.array([math.sin(eps), 0.0, (-1.0 if kind == "-z" else 1.0) * math.cos(eps)]), (n, 1))
    else:
        d = _iso(g, n)
    px = np.concatenate([np.sqrt(mx ** 2 + q * q)[:, None], q[:, None] * d], axis=1)
    pk = np.concatenate([np.sqrt(m[k] ** 2 + q * q)[:, None], -q[:, None] * d], axis=1)
    r = _two_body(mx, m[i], m[j])
    e = d.copy() if kind == "daughter" else _iso(g, n)
    pi = np.concatenate([np.sqrt(m[i] ** 2 + r * r)[:, None], r[:, None] * e], axis=1)
    pj = np.concatenate([np.sqrt(m[j] ** 2 + r * r)[:, None], -r[:, None] * e], axis=1)
    out = [None, None, None]
    out[k] = pk
    out[i], out[j] = (pi, pj) if kind == "rest" else (_boost(pi, px), _boost(pj, px))
    return out


DEGENERATE_FAMILIES = [("near", 1e-3), ("near", 1e-6), ("near", 1e-9), ("+z", 0.0), ("-z", 0.0), ("daughter", 0.0),
                       ("rest", 0.0)]


def degenerate_probe(b: Built, g, pair=(0, 1), n: int = 8) -> list[dict]:
    """What the real code returns on/near the degenerate sets (condition-aware). `near` families are
    judged with the tolerance max(rtol, 1e-14/eps) (Phi of a vector at angle eps to the axis has
    condition number 1/eps); the exactly degenerate families are only recorded."""
    out = []
    pv = parameter_values(b, g)
    for kind, eps in DEGENERATE_FAMILIES:
        ev = _degenerate_events(b, g, pair, n, kind, eps)
        R = random_rotations(g, n + 4)[4:]  # Haar-random only
        I1 = intensity(b, pv, ev)
        I2 = intensity(b, pv, rotate(ev, R))
        fin = np.isfinite(I1) & np.isfinite(I2)
        sc = np.maximum(np.abs(I1), np.abs(I2))
        okk = fin & (sc > 0)
        rel = np.abs(I1 - I2)[okk] / sc[okk]
        rec = {"family": kind, "eps": eps, "events": n, "finite_unrotated": int(np.isfinite(I1).sum()),
               "finite_rotated": int(np.isfinite(I2).sum()), "worst_relative_change": float(rel.max()) if rel.size else None,
               "gating": kind == "near"}
        if kind == "near":
            rec["tolerance"] = max(b.case.rtol, 1e-14 / eps)
            rec["ok"] = bool(fin.all() and (rel.size == 0 or rel.max() <= rec["tolerance"]))
        out.append(rec)
    return out


def classify(b: Built, res: dict | None = None) -> dict:
    """Signature of a failing case (for the known-findings matcher)."""
    multi = b.n_topologies >= 2
    dec_opp = any(f["decaying_opposite_helicity_child"] for f in b.facts)
    if multi and dec_opp:
        return {"class": KNOWN_CLASS}
    if multi and b.case.alignment.startswith("dpd"):
        return {"class": DPD_CLASS}
    if multi and b.case.alignment == "axis" and b.half_integer and res and res.get("sign_flip_explains_all"):
        return {"class": AXIS_SIGN_CLASS}
    return {"class": "rotation non-invariance", "case": b.case.id,
            "topologies": [f["shape"] for f in b.facts]}


def replay_single(rep: dict) -> dict:
    """Re-evaluates one stored failing event on the current source tree."""
    c = rep["case"]
    case = Case(c["reaction"], tuple(c["keep"]), c["alignment"], opts=tuple(c.get("opts", ())))
    b = build(case)
    ev = [np.array([rep["event"][str(k)]]) for k in b.ids]
    R = np.array([rep["rotation"]])
    pv = [complex(*rep["parameters"][s.name]) for s in b.pars]
    I1 = intensity(b, pv, ev)[0]
    I2 = intensity(b, pv, rotate(ev, R))[0]
    sc = max(abs(I1), abs(I2)) or 1.0
    return {"intensity": I1.real, "intensity_rotated": I2.real, "relative_change": abs(I1 - I2) / sc}
