"""C18 — independent oracle: the clauses of the property evaluated directly on real PoolSum objects.

No Lean, no model: `itertools.product`, SymPy's plain `xreplace` on PoolSum-free trees, exact
rational evaluation. Every function returns failing inputs as dicts with a `class` (signature).
"""

from __future__ import annotations

import itertools
from fractions import Fraction

KNOWN_CLEANUP = "cleanup drops an unused index whose pool size is not 1"


def explicit(e):
    """The explicit finite sum a PoolSum stands for (inner sums first, so shadowing is respected)."""
    import sympy as sp

    from ampform.sympy import PoolSum

    if isinstance(e, PoolSum):
        body = explicit(e.expression)
        idxs = [s for s, _ in e.indices]
        pools = [tuple(v) for _, v in e.indices]
        return sp.Add(*[body.xreplace(dict(zip(idxs, combi))) for combi in itertools.product(*pools)])
    if e.args:
        return e.func(*[explicit(a) for a in e.args])
    return e


def pool_sums(e):
    from ampform.sympy import PoolSum

    out = []
    if isinstance(e, PoolSum):
        out.append(e)
    for a in e.args:
        out += pool_sums(a)
    return out


def has_repeated_index(e) -> bool:
    for ps in pool_sums(e):
        ss = [s for s, _ in ps.indices]
        if len(set(ss)) < len(ss):
            return True
    return False


def ill_formed(e) -> str:
    """Why the cartesian-product reading does not apply (the hypotheses of the theorems, re-stated on real
    objects): a pool value that mentions an index of its own sum (the pools of one sum are independent), a pool
    value that mentions a symbol bound inside the summand (inserting it captures), a pool sum inside a pool."""
    for ps in pool_sums(e):
        own = {s for s, _ in ps.indices}
        inner_bound = all_bound(ps.expression)
        for _, vals in ps.indices:
            for v in vals:
                if pool_sums(v):
                    return "pool value contains a pool sum"
                fs = v.free_symbols
                if fs & own:
                    return "pool value mentions an index of the same sum"
                if fs & inner_bound:
                    return "pool value mentions a symbol bound inside the summand"
    return ""


def all_bound(e) -> set:
    return {s for ps in pool_sums(e) for s, _ in ps.indices}


def value(e, env: dict) -> Fraction:
    """Exact value of a PoolSum-free polynomial/function-application tree."""
    import sympy as sp
    from sympy.core.function import AppliedUndef

    if isinstance(e, sp.Symbol):
        return env[e]
    if isinstance(e, sp.Rational):
        return Fraction(int(e.p), int(e.q))
    if isinstance(e, sp.Add):
        return sum((value(a, env) for a in e.args), Fraction(0))
    if isinstance(e, sp.Mul):
        r = Fraction(1)
        for a in e.args:
            r *= value(a, env)
        return r
    if isinstance(e, sp.Pow) and e.exp.is_Integer:
        return value(e.base, env) ** int(e.exp)
    if isinstance(e, (AppliedUndef, sp.Indexed)):
        args = e.args if isinstance(e, AppliedUndef) else e.indices
        vals = [value(a, env) for a in args]
        name = str(e.func) if isinstance(e, AppliedUndef) else "idx" + str(e.base)
        h = sum(map(ord, name)) % 13 + 2
        return Fraction(h, 7) + sum((Fraction(j + 3, h + 2 * j) * v * v + (j + 1) * v for j, v in enumerate(vals)), Fraction(0))
    msg = f"cannot evaluate {e!r}"
    raise ValueError(msg)


def same_value(a, b, envs) -> bool:
    import sympy as sp

    if a == b:
        return True
    try:
        if sp.expand(a - b) == 0:
            return True
    except Exception:  # noqa: BLE001, S110
        pass
    try:
        return all(value(a, env) == value(b, env) for env in envs)
    except (ValueError, ZeroDivisionError):
        return True  # not decidable exactly (non-polynomial unfolded node, pole): never a false alarm


def random_envs(rng, symbols, n=3):
    return [{s: Fraction(rng.randint(-5, 5), rng.choice([1, 2, 3, 7])) for s in symbols} for _ in range(n)]


def check_term(real, rng, subs_requests, all_symbols):  # noqa: C901, PLR0912
    """All clauses of C18 on one real expression. Returns (failing inputs, excluded-point notes)."""
    import sympy as sp

    from ampform.sympy import PoolSum

    fails, notes = [], []
    envs = random_envs(rng, all_symbols)
    repeated = has_repeated_index(real)
    ill = ill_formed(real)
    done = real.doit()
    expl = explicit(real).doit()  # (.doit(): unfolds unevaluated nodes that enclose or occur in a sum)
    # second call == first call (SymPy caches by equality), round trips leave the sum intact
    again = real.doit()
    if again != done:
        fails.append({"class": "doit gives different results on repeated calls", "expr": sp.srepr(real), "first": str(done)[:300], "second": str(again)[:300]})
    import copy
    import pickle  # noqa: S403

    for how, fn in (("pickle", lambda e: pickle.loads(pickle.dumps(e))), ("copy.deepcopy", copy.deepcopy), ("copy.copy", copy.copy)):  # noqa: S301
        try:
            back = fn(real)
        except Exception as exc:  # noqa: BLE001
            back = f"{type(exc).__name__}: {exc}"
        if back != real or sp.srepr(back) != sp.srepr(real):
            fails.append({"class": "round trip of a pool sum is not the identity", "how": how, "expr": sp.srepr(real), "result": str(back)[:300]})
    # (1) denotation
    if pool_sums(done):
        fails.append({"class": "doit leaves a PoolSum", "expr": sp.srepr(real), "doit": str(done)})
    elif not same_value(done, expl, envs):
        if repeated or ill:
            notes.append({"excluded": ill or "repeated index symbol", "expr": str(real), "doit": str(done)[:200], "nested-sum reading": str(expl)[:200]})
        else:
            fails.append({"class": "doit != explicit sum over the cartesian product", "expr": sp.srepr(real),
                          "doit": str(done), "explicit": str(expl)})
    for ps in pool_sums(real):
        # (2) free symbols
        idx = {s for s, _ in ps.indices}
        # (pool values are arguments too: a symbol that occurs only in a pool is a free symbol of the sum — the value
        # depends on it —, which is judged semantically below: clause (4) substitutes it)
        in_pools = set().union(*[v.free_symbols for _, vals in ps.indices for v in vals]) if ps.indices else set()
        want = (ps.expression.free_symbols | in_pools) - idx
        if ps.free_symbols != want:
            fails.append({"class": "free_symbols != free(summand) - indices", "expr": sp.srepr(ps),
                          "free_symbols": sorted(map(str, ps.free_symbols)), "expected": sorted(map(str, want)),
                          "note": "expected = free symbols of the summand and of the pool values, minus the indices"})
        elif not has_repeated_index(ps) and not ill_formed(ps):
            # semantic reading of clause (2): the explicit sum depends exactly on symbols reported free
            ex = explicit(ps)
            labels = {ix.base.label for ix in ex.atoms(sp.Indexed)}
            ex_free = {s_ for s_ in ex.free_symbols if isinstance(s_, sp.Symbol) and s_ not in labels}
            if not ex_free <= ps.free_symbols:
                fails.append({"class": "free_symbols != free(summand) - indices", "expr": sp.srepr(ps),
                              "free_symbols": sorted(map(str, ps.free_symbols)),
                              "explicit_sum_depends_on": sorted(map(str, ex_free))})
        # (3) cleanup
        if has_repeated_index(ps) or ill_formed(ps):
            continue
        cl = ps.cleanup()
        if ps.cleanup() != cl:
            fails.append({"class": "cleanup gives different results on repeated calls", "expr": sp.srepr(ps)})
        v_ps, v_cl = explicit(ps).doit(), explicit(cl).doit()
        if not same_value(v_ps, v_cl, envs):
            body_free = ps.expression.free_symbols
            mult = 1
            for s, vals in ps.indices:
                if s not in body_free:
                    mult *= len(vals)
            if mult != 1 and same_value(v_ps, mult * v_cl, envs):
                fails.append({"class": KNOWN_CLEANUP, "expr": sp.srepr(ps), "doit": str(v_ps)[:300],
                              "cleanup": str(cl)[:300], "multiplicity": mult})
            else:
                fails.append({"class": "cleanup changes the value", "expr": sp.srepr(ps), "doit": str(v_ps)[:300],
                              "cleanup": str(cl)[:300], "cleanup_value": str(v_cl)[:300]})
    # (4)/(5) substitution laws
    bound = all_bound(real)
    for pairs in subs_requests:
        if len(pairs) != 1:
            continue
        (x, a), = pairs
        if x in real.free_symbols and x not in bound and not (a.free_symbols & bound):
            lhs = real.subs(x, a).doit()
            rhs = done.subs(x, a)
            if pool_sums(lhs):
                fails.append({"class": "doit leaves a PoolSum", "expr": sp.srepr(real.subs(x, a)), "doit": str(lhs)[:300]})
            elif not repeated and not ill and not same_value(lhs, rhs, envs):
                fails.append({"class": "subs of a free symbol does not commute with evaluation", "expr": sp.srepr(real),
                              "old": str(x), "new": str(a), "subs_then_doit": str(lhs)[:300], "doit_then_subs": str(rhs)[:300]})
            lhs = real.xreplace({x: a}).doit()
            rhs = done.xreplace({x: a})
            if not repeated and not ill and not same_value(lhs, rhs, envs):
                fails.append({"class": "xreplace of a free symbol does not commute with evaluation", "expr": sp.srepr(real),
                              "old": str(x), "new": str(a)})
        elif x not in real.free_symbols and x in bound:
            for how, res in (("subs", real.subs(x, a)), ("xreplace", real.xreplace({x: a}))):
                if res != real:
                    fails.append({"class": "substitution for a summation index changes the sum", "how": how,
                                  "expr": sp.srepr(real), "old": str(x), "new": str(a), "result": str(res)[:300]})
        elif isinstance(real, PoolSum) and x in {s for s, _ in real.indices}:
            # index of the outermost sum that also occurs free elsewhere cannot happen for a bare PoolSum
            res = real.subs(x, a)
            if res != real:
                fails.append({"class": "substitution for a summation index changes the sum", "how": "subs",
                              "expr": sp.srepr(real), "old": str(x), "new": str(a), "result": str(res)[:300]})
        elif a.free_symbols & bound:
            notes.append({"excluded": "substituted term mentions a summation index (capture)", "expr": str(real)[:120],
                          "old": str(x), "new": str(a), "result": str(real.subs(x, a))[:160]})
    return fails, notes


def float_pool_cases(rng, n=6):
    """Pools holding SymPy Floats / Python floats / ints mixed (outside the model's rational pools:
    oracle only, compared with a tolerance)."""
    import sympy as sp

    from ampform.sympy import PoolSum

    i, j, x = sp.symbols("i j x")
    f = sp.Function("f")
    fails = []
    for _ in range(n):
        p1 = [rng.choice([0.5, -0.5, 1, sp.Float(1.5), sp.Rational(1, 2), 2.0, sp.Integer(0)]) for _ in range(rng.randint(1, 3))]
        p2 = [rng.choice([1.0, sp.Float(-1), 2, sp.Rational(3, 2)]) for _ in range(rng.randint(1, 3))]
        e = PoolSum(i**2 * x + i * j + 3 * j, (i, p1), (j, p2))
        want = sum((sp.sympify(a) ** 2 * x + sp.sympify(a) * sp.sympify(b) + 3 * sp.sympify(b) for a in p1 for b in p2), sp.Integer(0))
        got = e.doit()
        diff = sp.expand(got - want)
        coeffs = [abs(complex(c)) for c in sp.Poly(diff, x).all_coeffs()] if diff != 0 else [0.0]
        if max(coeffs) > 1e-12:
            fails.append({"class": "doit != explicit sum over the cartesian product", "expr": sp.srepr(e), "doit": str(got), "explicit": str(want),
                          "note": "pool with Floats/ints/Rationals mixed"})
        if e.free_symbols != {x}:
            fails.append({"class": "free_symbols != free(summand) - indices", "expr": sp.srepr(e), "free_symbols": sorted(map(str, e.free_symbols))})
        fe = PoolSum(f(i) * x, (i, p1))
        if fe.subs(x, 2).doit() != fe.doit().subs(x, 2) or fe.subs(i, 7) != fe:
            fails.append({"class": "subs of a free symbol does not commute with evaluation", "expr": sp.srepr(fe), "old": "x", "new": "2",
                          "note": "pool with Floats/ints/Rationals mixed"})
    return fails


def witness_bound():
    """The replayable input of the Lean witness `C18_witness_bound` on the real code."""
    import sympy as sp

    from ampform.sympy import PoolSum

    i, j = sp.symbols("i j")
    f = sp.Function("f")
    e = PoolSum(f(i, j), (i, (1, 2)))
    out = []
    r = e.subs(i, 5)
    if r != e:
        out.append({"class": "substitution for a summation index changes the sum", "how": "subs", "expr": sp.srepr(e),
                    "old": "i", "new": "5", "result": str(r), "python": "PoolSum(f(i,j),(i,(1,2))).subs(i,5)"})
    r = e.xreplace({i: sp.Integer(5)})
    if r != e:
        out.append({"class": "substitution for a summation index changes the sum", "how": "xreplace", "expr": sp.srepr(e),
                    "old": "i", "new": "5", "result": str(r), "python": "PoolSum(f(i,j),(i,(1,2))).xreplace({i:5})"})
    # a nested sum that shadows the outer index, with the literal 3 in the inner summand
    inner = PoolSum(f(i) * 3, (i, (1, 2)))
    outer = PoolSum(inner + i, (i, (3, 4)))
    want = 2 * (3 * f(1) + 3 * f(2)) + 7
    got = outer.doit()
    if sp.expand(got - want) != 0:
        out.append({"class": "doit != explicit sum over the cartesian product", "expr": sp.srepr(outer), "doit": str(got),
                    "explicit": str(want), "python": "PoolSum(PoolSum(3*f(i),(i,(1,2)))+i,(i,(3,4))).doit()"})
    return out


def probe_excluded():
    """Behaviour at the points the theorems exclude (recorded in the evidence, never judged)."""
    import sympy as sp

    from ampform.sympy import PoolSum

    i, j, x = sp.symbols("i j x")
    f = sp.Function("f")
    out = {}
    e = PoolSum(f(i, j), (i, (1, 2)), (j, (i, 4)))
    out["pool value mentions an earlier index: PoolSum(f(i,j),(i,(1,2)),(j,(i,4))).doit()"] = str(e.doit())
    e = PoolSum(f(i, j), (i, (j, 2)), (j, (3, 4)))
    out["pool value mentions a later index (sequential subs): PoolSum(f(i,j),(i,(j,2)),(j,(3,4))).doit()"] = str(e.doit())
    e = PoolSum(f(i), (i, (1, 2)), (i, (3, 4)))
    out["repeated index symbol (dict keeps the last pool): PoolSum(f(i),(i,(1,2)),(i,(3,4))).doit()"] = str(e.doit())
    e = PoolSum(f(i, x), (i, (1, 2)))
    out["capture: PoolSum(f(i,x),(i,(1,2))).subs(x,i)"] = str(e.subs(x, i))
    try:
        PoolSum(f(i), (i, ()))
        out["empty pool"] = "accepted"
    except ValueError as exc:
        out["empty pool: PoolSum(f(i),(i,()))"] = f"ValueError: {exc}"
    return out
