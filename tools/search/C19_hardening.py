"""C19 — additional oracle clauses (notes/HARDENING.md rules 1, 3, 4, 5, 7, 8, 9, 10).

Every function returns a list of failing-input dicts (empty on a clean tree) and is used twice:
by `build_definitions` (as facts = "no failure") and by `search` (the failing inputs themselves).

* index_type_checks   — indices given as sympy/numpy integers, repeated and re-ordered calls
* dpd_requests        — which (rotated, aligned, reference) tuples helicity/align/dpd.py asks for
* exact_checks        — exact rational events (interior, ON the boundary, equal / zero masses):
                        three substitution routes agree exactly, cos² and sign equal the Gram
                        determinants of the four-momenta, |cos| = 1 exactly on the boundary
* substitution_checks — equal mass symbols identified / all symbols renamed, then evaluated
* accuracy_checks     — float64 value of every arccos argument vs the 50-digit value at the same
                        float inputs, in units of the rounding model (worst ratio recorded)
* builder_checks      — the zeta definitions the real HelicityAmplitudeBuilder puts into
                        `kinematic_variables` (DPD alignment, all reference subsystems, with and
                        without stable masses) evaluated on four-momentum arrays
"""

from __future__ import annotations

import itertools
import json
import math
import re
import time

from tools.lib import common

CORPUS = common.ROOT / "corpus" / "C19" / "lambdac_p_k_pi.hel.json"
ACCURACY_LIMIT = 32.0  # clean tree: worst ratio over 4 seeds x 1500 events x 42 cosines is 2.4 (recorded per run in the evidence)


def _c19():
    from tools.props import C19

    return C19


# ------------------------------------------------------------------ index types / histories


def index_type_checks() -> list[dict]:
    import numpy as np
    import sympy as sp

    C19 = _c19()
    fns = C19._functions()
    bad = []

    def outcome(fam, idx):
        try:
            s, e = fns[fam](*idx)
            return ("ok", str(s), sp.srepr(sp.sympify(e)))
        except ValueError:
            return ("err", "valueError")
        except NotImplementedError:
            return ("err", "notImplementedError")
        except Exception as ex:  # noqa: BLE001
            return ("err", "otherError:" + type(ex).__name__)

    ref = {}
    for fam, _, _, arity in C19.FAMILIES:
        for idx in itertools.product(range(4), repeat=arity):
            ref[fam, idx] = outcome(fam, idx)
    # same calls in reverse order (the functions must be pure)
    for key in reversed(list(ref)):
        if outcome(*key) != ref[key]:
            bad.append({"what": f"{key[0]}{key[1]} gives a different result when called again in another order"})
    for conv, cname in ((sp.Integer, "sympy.Integer"), (np.int64, "numpy.int64")):
        for (fam, idx), r in ref.items():
            o = outcome(fam, tuple(conv(i) for i in idx))
            if o != r:
                bad.append({"what": f"{fam}{idx} differs when the indices are {cname}", "int": r[:2], cname: o[:2]})
    return bad


# ------------------------------------------------------------------ dpd.py usage


def dpd_requests():
    """Drives the real `_DPDAlignmentWignerGenerator` (helicity/align/dpd.py) for every
    reference subsystem, rotated state 0..3 and aligned subsystem 1..3 with the module-level
    name `formulate_zeta_angle` replaced by a recorder. Returns (table, failures): table =
    sorted list of (reference, i, j, k) with (i, j, k) the arguments dpd.py really passed."""
    import sympy as sp

    import ampform.helicity.align.dpd as dpd
    from ampform.kinematics import angles

    table, bad = [], []
    orig = dpd.formulate_zeta_angle
    calls = []

    def recorder(*a, **k):
        calls.append((a, k))
        return orig(*a, **k)

    dpd.formulate_zeta_angle = recorder
    try:
        for ref in (1, 2, 3):
            gen = dpd._DPDAlignmentWignerGenerator(ref)
            for rotated in (0, 1, 2, 3):
                for aligned in (1, 2, 3):
                    calls.clear()
                    try:
                        d = gen(sp.Rational(1, 2), sp.Rational(1, 2), -sp.Rational(1, 2), rotated, aligned)
                    except Exception as e:  # noqa: BLE001
                        bad.append({"what": f"dpd.py alignment generator raises for reference {ref}, rotated state {rotated}, aligned subsystem {aligned}",
                                    "error": f"{type(e).__name__}: {e}"[:300]})
                        continue
                    if len(calls) != 1:
                        bad.append({"what": f"dpd.py requests {len(calls)} zeta angles for one Wigner d (reference {ref}, rotated {rotated}, aligned {aligned})"})
                        continue
                    a, k = calls[0]
                    names = ("rotated_state", "aligned_subsystem", "reference_subsystem")
                    full = list(a) + [k[n] for n in names[len(a):] if n in k]
                    if len(full) != 3:
                        bad.append({"what": "dpd.py calls formulate_zeta_angle with an unexpected signature", "call": str(calls[0])})
                        continue
                    tup = tuple(int(x) for x in full)
                    table.append((ref, *tup))
                    if tup != (rotated, aligned, ref):
                        bad.append({"what": f"dpd.py requests zeta{tup} for rotated state {rotated}, aligned subsystem {aligned}, reference {ref}"})
                    # the Wigner d must carry the symbol of exactly that angle, defined by that expression
                    sym, expr = angles.formulate_zeta_angle(*tup)
                    if sym not in d.free_symbols or gen.angle_definitions.get(sym) != expr:
                        bad.append({"what": f"dpd.py does not register zeta{tup} under its own symbol with its own expression",
                                    "wigner_d": str(d), "registered": {str(s): str(v)[:80] for s, v in gen.angle_definitions.items()}})
            # spin 0: no rotation, no request
            calls.clear()
            one = gen(sp.Integer(0), sp.Integer(0), sp.Integer(0), 1, 2)
            if one != 1 or calls:
                bad.append({"what": "dpd.py formulates a rotation for a spin-0 particle", "returned": str(one)})
    finally:
        dpd.formulate_zeta_angle = orig
    return sorted(set(table)), bad


# ------------------------------------------------------------------ exact rational events


def _frames(fam, idx):
    """("zero",) | (factor, Q, a, b, convention_sign): Q, a, b as tuples of particle ids whose
    momenta are summed; cos = factor * Gram(Q; a, b) / sqrt(Gram(Q; a, a) Gram(Q; b, b))."""
    C19 = _c19()
    P0 = (1, 2, 3)
    if fam == "theta":
        i, j = idx
        return (-1, (i, j), (i,), (6 - i - j,), 1)
    if fam == "thetaHat" or (fam == "zeta" and idx[0] == 0):
        i, j = idx[-2:]
        if i == j:
            return ("zero",)
        return (1, P0, (i,), (j,), 1 if (i, j) in C19.CYCLIC else -1)
    i, j, k0 = idx
    k = i if k0 == 0 else k0
    if j == k:
        return ("zero",)
    d = lambda x: P0 if x == i else (6 - i - x,)  # noqa: E731
    pos = ((j - i) % 3 + 1, (k - i) % 3 + 1) in {(1, 3), (2, 1), (2, 3)}
    return (1, (i,), d(j), d(k), 1 if pos else -1)


def _rational_events(rng, n_random):
    from sympy import Rational as R

    def ev(name, p2, p3, e1, e2, e3, boundary):
        p1 = [-(a + b) for a, b in zip(p2, p3)]
        return name, [[R(e1), *map(R, p1)], [R(e2), *map(R, p2)], [R(e3), *map(R, p3)]], boundary

    out = [
        ev("massive, interior", (3, 0, 0), (0, 4, 0), 13, 5, 5, False),
        ev("all massless, interior", (3, 4, 0), (3, -4, 0), 6, 5, 5, False),
        ev("one massless (2), interior", (3, 4, 0), (1, -2, 2), 9, 5, 7, False),
        ev("equal masses 60, ON the boundary (collinear)", (11, 0, 0), (80, 0, 0), 109, 61, 100, True),
        ev("massless 2, ON the boundary (collinear)", (3, 0, 0), (4, 0, 0), 25, 3, 5, True),
        ev("all massless, ON the boundary (collinear)", (2, 0, 0), (5, 0, 0), 7, 2, 5, True),
        ev("massive, ON the boundary (anti-collinear 2,3)", (0, 0, 6), (0, 0, -2), 5, 10, 3, True),
        ev("two equal masses, interior", (4, 3, 0), (-4, 3, 0), 10, 13, 13, False),
    ]
    for n in range(n_random):
        while True:
            p2 = [R(rng.randint(-9, 9), rng.randint(1, 4)) for _ in range(3)]
            p3 = [R(rng.randint(-9, 9), rng.randint(1, 4)) for _ in range(3)]
            p1 = [-(a + b) for a, b in zip(p2, p3)]
            cross = [p2[1] * p3[2] - p2[2] * p3[1], p2[2] * p3[0] - p2[0] * p3[2], p2[0] * p3[1] - p2[1] * p3[0]]
            if any(c != 0 for c in cross) and any(p1):
                break
        es = [sum(abs(c) for c in p) + R(rng.randint(0, 12), rng.randint(1, 5)) for p in (p1, p2, p3)]
        out.append((f"random rational event {n}", [[es[0], *p1], [es[1], *p2], [es[2], *p3]], False))
    return out


def exact_checks(chk, rng, n_random: int, budget_s: float = 45.0) -> list[dict]:
    import sympy as sp

    C19 = _c19()
    table = C19.probe()
    syms = C19._param_symbols()
    bad = []
    t0 = time.time()
    n_eval = 0
    n_degenerate = 0
    threshold_probe = {}

    def msq(p):
        return p[0] ** 2 - p[1] ** 2 - p[2] ** 2 - p[3] ** 2

    def dot(a, b):
        return a[0] * b[0] - a[1] * b[1] - a[2] * b[2] - a[3] * b[3]

    def vsum(P, ids):
        return [sum(P[i][c] for i in ids) for c in range(4)]

    for name, ps, boundary in _rational_events(rng, n_random):
        if time.time() - t0 > budget_s:
            chk.note(f"exact checks stopped after {budget_s}s ({n_eval} evaluations)")
            break
        P = {1: ps[0], 2: ps[1], 3: ps[2]}
        tot = vsum(P, (1, 2, 3))
        vals = dict(zip(syms, [
            sp.sqrt(msq(tot)), sp.sqrt(msq(P[1])), sp.sqrt(msq(P[2])), sp.sqrt(msq(P[3])),
            sp.sqrt(msq(vsum(P, (1, 2)))), sp.sqrt(msq(vsum(P, (1, 3)))), sp.sqrt(msq(vsum(P, (2, 3))))]))
        rep = {"label": "exact: " + name, "four_momenta": [[str(x) for x in p] for p in ps],
               "substituted": {str(k): str(v) for k, v in vals.items()}}
        for (fam, idx), ent in table.items():
            if ent[0] == "err":
                continue
            fr = _frames(fam, idx) if C19._domain(fam, idx) else None
            if fr is None:
                continue
            ang_expr = ent[2]
            if fr != ("zero",):
                factor, Q, a, b, conv = fr
                q, va, vb = vsum(P, Q), vsum(P, a), vsum(P, b)
                num = dot(q, va) * dot(q, vb) - dot(q, q) * dot(va, vb)
                ga = dot(q, va) ** 2 - dot(q, q) * dot(va, va)
                gb = dot(q, vb) ** 2 - dot(q, q) * dot(vb, vb)
                if ga * gb == 0:
                    n_degenerate += 1
                    continue  # a Kallen factor vanishes exactly: 0/0 in the real code (guarded domain)
            # rule 1: numbers substituted before / after unfolding, with subs and with xreplace
            r1 = ang_expr.xreplace(vals).doit()
            r2 = ang_expr.subs(vals).doit()
            r3 = ang_expr.doit().xreplace(vals)
            n_eval += 3
            if not (r1 == r2 == r3):
                bad.append({"what": f"{fam}{idx}: substituting exact numbers before and after unfolding disagree",
                            "xreplace_then_doit": str(r1), "subs_then_doit": str(r2), "doit_then_xreplace": str(r3), **rep})
                continue
            if fr == ("zero",):
                if r1 != 0:
                    bad.append({"what": f"{fam}{idx} != 0 on an exact event", "value": str(r1), **rep})
                continue
            if ent[1] is None:
                continue
            x = ent[1].xreplace(vals).doit()
            n_eval += 1
            chk.count(("exact", name, fam, idx))
            xsq = sp.nsimplify(x ** 2) if not isinstance(x ** 2, sp.Rational) else x ** 2
            if not isinstance(xsq, sp.Rational):
                xsq = sp.simplify(x ** 2)
            if not isinstance(xsq, sp.Rational):
                bad.append({"what": f"arccos argument of {fam}{idx} is not a real algebraic number on an exact physical event", "value": str(x), **rep})
                continue
            if xsq > 1:
                bad.append({"what": f"arccos argument of {fam}{idx} outside [-1,1] on an exact physical event", "argument_squared": str(xsq), **rep})
                continue
            exp_sq = num ** 2 / (ga * gb)
            exp_sign = factor * (1 if num > 0 else -1 if num < 0 else 0)
            got_sign = 1 if x.is_positive else -1 if x.is_negative else 0
            if xsq != exp_sq or got_sign != exp_sign:
                bad.append({"what": f"cos {fam}{idx} differs from the Gram determinants of the four-momenta (exact)",
                            "library_cos": str(x), "expected_cos_squared": str(exp_sq), "expected_sign": exp_sign, **rep})
                continue
            if boundary and xsq != 1:
                bad.append({"what": f"|cos {fam}{idx}| != 1 exactly ON the boundary (collinear event)", "library_cos": str(x), **rep})
                continue
            expected_angle = conv * sp.acos(exp_sign * sp.sqrt(exp_sq))
            if boundary:
                ok = r1 == expected_angle  # 0, pi or -pi, exactly
            else:
                ok = abs(sp.N(r1 - expected_angle, 40)) < sp.Float("1e-30")
            if not ok:
                bad.append({"what": f"{fam}{idx} differs from the (signed) angle of the exact event", "library": str(r1), "expected": str(expected_angle), **rep})
    # what the real code returns exactly AT a pair threshold (guarded in the theorems): p1 and p2 move together
    R = sp.Rational
    ps = [[R(5), R(3), 0, 0], [R(10), R(6), 0, 0], [R(12), R(-9), 0, 0]]
    P = {1: ps[0], 2: ps[1], 3: ps[2]}
    tot = vsum(P, (1, 2, 3))
    vals = dict(zip(syms, [sp.sqrt(msq(tot)), sp.sqrt(msq(P[1])), sp.sqrt(msq(P[2])), sp.sqrt(msq(P[3])),
                           sp.sqrt(msq(vsum(P, (1, 2)))), sp.sqrt(msq(vsum(P, (1, 3)))), sp.sqrt(msq(vsum(P, (2, 3))))]))
    for key in (("theta", (1, 2)), ("zeta", (1, 1, 3)), ("zeta", (3, 3, 2))):
        ent = table.get(key)
        if ent and ent[0] != "err" and ent[1] is not None:
            try:
                threshold_probe[f"{key[0]}{key[1]} arccos argument exactly at the threshold m_12 = m_1 + m_2"] = {
                    "numbers substituted, then unfolded": str(ent[1].xreplace(vals).doit()),
                    "unfolded, then numbers substituted": str(ent[1].doit().xreplace(vals))}
            except Exception as e:  # noqa: BLE001
                threshold_probe[f"{key[0]}{key[1]} arccos argument exactly at the threshold m_12 = m_1 + m_2"] = type(e).__name__
    chk.info("exact_checks", {"evaluations": n_eval, "skipped_exactly_degenerate": n_degenerate, "seconds": round(time.time() - t0, 1), "threshold_probe": threshold_probe})
    return bad


# ------------------------------------------------------------------ substitution of symbols


def substitution_checks(rng) -> list[dict]:
    """The returned expressions are used with their mass symbols replaced (helicity/__init__.py
    xreplace's them): identify equal masses symbolically, rename all symbols, then compare with
    the original evaluated at the same numbers."""
    import numpy as np
    import sympy as sp

    C19 = _c19()
    table = C19.probe()
    syms = C19._param_symbols()
    bad = []
    pts = []
    for _ in range(3):
        m = rng.uniform(0.1, 1.2)
        m0 = 3 * m + rng.uniform(0.3, 2.0)
        ev = C19._event(C19._Float, m0, [m, m, m], rng.uniform(0.1, 0.9), rng.uniform(-0.9, 0.9), rng)
        inv = C19._invariants(C19._Float, ev, [m, m, m])
        pts.append([inv["m0"], m, m, m, inv["m12"], inv["m13"], inv["m23"]])
    m0s, m1s, m2s, m3s, m12s, m13s, m23s = syms
    fresh = [sp.Symbol(n, positive=True) for n in ("M", "ma", "mb", "mc", "s_ab", "s_ac", "s_bc")]
    rename = dict(zip(syms, fresh))
    equal = {m2s: m1s, m3s: m1s}
    for (fam, idx), ent in table.items():
        if ent[0] == "err" or ent[1] is None:
            continue
        expr = ent[2]
        f0 = sp.lambdify(syms, expr.doit(), "numpy")
        f_eq_a = sp.lambdify([m0s, m1s, m12s, m13s, m23s], expr.xreplace(equal).doit(), "numpy")
        f_eq_b = sp.lambdify([m0s, m1s, m12s, m13s, m23s], expr.doit().xreplace(equal), "numpy")
        f_ren = sp.lambdify(fresh, expr.xreplace(rename).doit(), "numpy")
        left = expr.xreplace(rename).free_symbols & set(syms)
        if left:
            bad.append({"what": f"{fam}{idx}: symbols survive a complete renaming", "symbols": sorted(map(str, left))})
        for pt in pts:
            with np.errstate(all="ignore"):
                v0 = float(np.real(f0(*pt)))
                va = float(np.real(f_eq_a(pt[0], pt[1], *pt[4:])))
                vb = float(np.real(f_eq_b(pt[0], pt[1], *pt[4:])))
                vr = float(np.real(f_ren(*pt)))
            if not math.isfinite(v0):
                continue
            if max(abs(va - v0), abs(vb - v0), abs(vr - v0)) > 1e-9:
                bad.append({"what": f"{fam}{idx} changes when equal mass symbols are identified / symbols are renamed",
                            "point_m0_m1_m2_m3_m12_m13_m23": pt, "original": v0, "equal_symbols_before_unfolding": va,
                            "equal_symbols_after_unfolding": vb, "renamed": vr})
                break
    return bad


# ------------------------------------------------------------------ float64 accuracy


def accuracy_checks(chk, rng, n: int) -> list[dict]:
    """float64 value of each arccos argument vs the 50-digit value at the SAME float inputs.
    Rounding model: every Kallen factor and the numerator are sums of O(10) products of size
    <= m0^4, so |dx| <~ u (1 + m0^4/sqrt(A B) + m0^4/A + m0^4/B), u = 2^-53."""
    import mpmath
    import numpy as np

    C19 = _c19()
    lib = C19._Lib()
    mpmath.mp.dps = 50
    u = 2.0 ** -53
    worst = {"ratio": 0.0}
    bad = []
    kinds = ["generic", "equal", "one_massless", "extreme_ratio"]
    for n_ev in range(n):
        kind = kinds[n_ev % len(kinds)]
        if kind == "generic":
            m = [rng.uniform(0.05, 2.0) for _ in range(3)]
        elif kind == "equal":
            m = [rng.uniform(0.05, 1.5)] * 3
        elif kind == "one_massless":
            m = [rng.uniform(0.05, 2.0) for _ in range(3)]
            m[rng.randrange(3)] = 0.0
        else:
            m = [rng.uniform(0.5, 2.0) * 10.0 ** rng.choice([-4, -2, 0]) for _ in range(3)]
        m0 = sum(m) + rng.uniform(0.05, 4.0) * (1.0 if kind != "extreme_ratio" else 10.0 ** rng.choice([-2, 0, 2]))
        eps = 10.0 ** -rng.choice([1, 2, 4, 6, 8])
        mode = rng.choice(["interior", "collinear+", "collinear-", "threshold", "endpoint"])
        frac = {"threshold": eps, "endpoint": 1 - eps}.get(mode, rng.uniform(0.05, 0.95))
        cs = {"collinear+": 1 - eps, "collinear-": -1 + eps}.get(mode, rng.uniform(-0.95, 0.95))
        ev = C19._event(C19._Float, m0, m, frac, cs, rng)
        inv = C19._invariants(C19._Float, ev, m)
        args = [inv["m0"], *m, inv["m12"], inv["m13"], inv["m23"]]
        margs = [mpmath.mpf(a) for a in args]
        for key, ent in lib.table.items():
            if ent[0] == "err" or ent[1] is None:
                continue
            with np.errstate(all="ignore"):
                try:
                    xf = float(np.real(lib.fn(key, "cos", "float")(*args)))
                except (ZeroDivisionError, ValueError):
                    continue
            try:
                xm = mpmath.mpmathify(lib.fn(key, "cos", "mpmath-50")(*margs))
            except (ZeroDivisionError, ValueError):
                continue
            if not math.isfinite(xf) or abs(mpmath.im(xm)) > 0:
                continue
            xm = mpmath.re(xm)
            # condition from the two Kallen factors this cosine divides by (taken from the exact value
            # of the radicands in high precision, independent of how the expression is written)
            lam = _kallen_pair(key, margs)
            if lam is None:
                continue
            A, B = lam
            if A <= 0 or B <= 0:
                continue
            s4 = margs[0] ** 4
            cond = 1 + s4 / mpmath.sqrt(A * B) + s4 / A + s4 / B
            if cond > 1e9:
                continue
            ratio = float(abs(xf - xm) / (u * cond))
            chk.count(("accuracy", n_ev, key))
            if ratio > worst["ratio"]:
                worst = {"ratio": ratio, "definition": f"{key[0]}{key[1]}", "masses": args, "condition": float(cond), "float64": xf, "mp50": str(xm)[:30], "kind": f"{kind}/{mode}"}
            if ratio > ACCURACY_LIMIT:
                bad.append({"what": f"float64 value of the arccos argument of {key[0]}{key[1]} is less accurate than the rounding model allows",
                            "ratio_to_model": ratio, "limit": ACCURACY_LIMIT, "float64": xf, "mp50": str(xm), "condition": float(cond),
                            "point_m0_m1_m2_m3_m12_m13_m23": args, "label": f"{kind}/{mode}"})
    chk.info("float64_accuracy", {"events": n, "limit_ratio": ACCURACY_LIMIT, "worst_ratio_this_run": worst,
                                  "model": "|x_float64 - x_mp50| / (2^-53 (1 + m0^4/sqrt(A B) + m0^4/A + m0^4/B)), A, B the two Kallen factors"})
    return bad


def _kallen_pair(key, margs):
    """The two Kallen factors under the square roots of a cosine, from the paper's definition
    (not from the library's expression)."""
    C19 = _c19()
    m0, m1, m2, m3, m12, m13, m23 = margs
    msq = {0: m0 ** 2, 1: m1 ** 2, 2: m2 ** 2, 3: m3 ** 2}
    sig = {1: m23 ** 2, 2: m13 ** 2, 3: m12 ** 2}
    lam = C19._kallen
    fam, idx = key
    if fam == "theta":
        i, j = idx
        k = 6 - i - j
        return lam(msq[0], msq[k], sig[k]), lam(sig[k], msq[i], msq[j])
    if fam == "thetaHat" or idx[0] == 0:
        i, j = idx[-2:]
        if i == j:
            return None
        return lam(msq[0], msq[i], sig[i]), lam(msq[0], msq[j], sig[j])
    i, j, k0 = idx
    k = i if k0 == 0 else k0
    if j == k:
        return None

    def one(x):
        if x == i:
            return lam(msq[0], msq[i], sig[i])
        return lam(sig[x], msq[i], msq[6 - i - x])  # pair (i, third) has sigma index x

    return one(j), one(k)


# ------------------------------------------------------------------ the real builder


def builder_checks(chk, rng, n_events: int) -> list[dict]:  # noqa: C901, PLR0912
    import numpy as np
    import qrules
    import sympy as sp

    import ampform
    import ampform.helicity.align.dpd as dpd

    C19 = _c19()
    bad = []
    reaction = dpd.relabel_edge_ids(qrules.io.fromdict(json.loads(CORPUS.read_text())))
    masses = [float(reaction.final_state[i].mass) for i in (1, 2, 3)]
    m0 = float(reaction.initial_state[0].mass)
    evs = [C19._event(C19._Float, m0, masses, rng.uniform(0.03, 0.97), rng.uniform(-0.97, 0.97), rng) for _ in range(n_events)]
    expected = [C19._expected(C19._Float, ev) for ev in evs]
    arr = {f"p{i}": np.array([[float(x) for x in e[i - 1]] for e in evs]) for i in (1, 2, 3)}
    requested = {}
    for ref in (1, 2, 3):
        for stable in (False, True):
            label = f"DalitzPlotDecomposition(reference_subsystem={ref}), stable masses {stable}, Lambda_c -> p K pi"
            dpd._formulate_aligned_amplitude.cache_clear()
            try:
                b = ampform.get_builder(reaction)
                b.config.spin_alignment = dpd.DalitzPlotDecomposition(reference_subsystem=ref)
                if stable:
                    b.config.stable_final_state_ids = {1, 2, 3}
                    b.config.scalar_initial_state_mass = True
                model = b.formulate()
            except Exception as e:  # noqa: BLE001
                bad.append({"what": "the aligned model cannot be formulated", "config": label, "error": f"{type(e).__name__}: {e}"[:400]})
                continue
            zs = {s: e for s, e in model.kinematic_variables.items() if s.name.startswith("\\zeta")}
            requested[f"ref{ref}/stable{int(stable)}"] = sorted(s.name for s in zs)
            if not zs:
                bad.append({"what": "the aligned model defines no zeta angle", "config": label})
            for s, e in zs.items():
                mt = re.fullmatch(r"\\zeta\^(\d)_\{(\d)\((\d)\)\}", s.name)
                if not mt:
                    bad.append({"what": "zeta symbol with an unexpected name in the model", "name": s.name, "config": label})
                    continue
                idx = tuple(map(int, mt.groups()))
                if not C19._domain("zeta", idx) or idx[2] != ref:
                    bad.append({"what": f"the model defines zeta{idx}, which is not an angle relative to reference subsystem {ref}", "config": label})
                    continue
                ee = e.doit()
                fs = sorted(ee.free_symbols, key=str)
                args = []
                ok = True
                for x in fs:
                    if str(x) in arr:
                        args.append(arr[str(x)])
                    elif x in model.parameter_defaults:
                        args.append(float(model.parameter_defaults[x]))
                    else:
                        bad.append({"what": f"the definition of {s.name} in the model contains a symbol that is neither a momentum nor a parameter", "symbol": str(x), "config": label})
                        ok = False
                if not ok:
                    continue
                with np.errstate(all="ignore"):
                    v = sp.lambdify(fs, ee, "numpy")(*args) if fs else complex(ee)
                v = np.real(np.broadcast_to(np.asarray(v), (len(evs),)))
                for n, ev in enumerate(evs):
                    ex = expected[n]["zeta", idx]
                    if ex is None or ex == "massless":
                        continue
                    chk.count(("builder", ref, stable, idx, n))
                    sin_e = math.sqrt(max(1 - float(ex[0]) ** 2, 0.0))
                    if not (abs(float(v[n]) - float(ex[1])) <= 1e-6 / max(sin_e, 1e-3)):
                        bad.append({"what": f"{s.name} as defined in the aligned HelicityModel differs from the (signed) angle computed from the four-momenta",
                                    "config": label, "library": float(v[n]), "geometric": float(ex[1]),
                                    "four_momenta": [[str(x) for x in p] for p in ev], "label": "builder path",
                                    "masses_m0_m1_m2_m3": [str(m0), *map(str, masses)], "backend": "float"})
                        break
    chk.info("builder_path", {"reaction": CORPUS.name, "events": n_events, "zeta_symbols_defined": requested})
    return bad
