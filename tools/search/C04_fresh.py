"""C04 — intensities of one case on a FIXED event set, for history / fresh-process / hash-seed comparisons.

In-process:  fixed_values(case)      (builds the model afresh, no oracle cache)
Stand-alone: /venv/bin/python tools/search/C04_fresh.py '<case json>'   -> one JSON line
(run by the check in fresh interpreters with different PYTHONHASHSEED values).
"""

from __future__ import annotations

import json
import sys
from pathlib import Path

ROOT = Path(__file__).resolve().parents[2]
if str(ROOT) not in sys.path:
    sys.path.insert(0, str(ROOT))

N_EVENTS = 6


def fixed_values(case) -> dict:
    import numpy as np

    from tools.search import C04_oracle as orc

    b = orc.build(case)
    g = np.random.default_rng(20260929)
    ev = orc.phase_space(g, b.M, b.masses, N_EVENTS)
    R = orc.random_rotations(g, N_EVENTS)
    # parameter values by NAME (independent of the order in which the model lists them)
    pv = []
    for s in b.pars:
        d = b.defaults[s]
        if s.name.startswith(("C_", "H_")) or getattr(s, "is_real", None) is not True:
            h = np.random.default_rng(abs(hash_name(s.name)) % (2**32))
            pv.append(complex(h.normal(), h.normal()))
        else:
            pv.append(complex(d) if isinstance(d, complex) else float(d))
    I1 = orc.intensity(b, pv, ev)
    I2 = orc.intensity(b, pv, orc.rotate(ev, R))
    import qrules

    reaction = orc.restrict(orc.load_reaction(case.reaction), case.keep)
    tops = []
    for t in reaction.transitions:
        if t.topology not in tops:
            tops.append(t.topology)
    # things whose iteration order may depend on the hash seed
    order = {
        "topology_set": [orc.topology_facts(t)["shape"] for t in {t.topology for t in reaction.transitions}],
        "particle_name_set": list({p.name for t in reaction.transitions for p in (s.particle for s in t.states.values())}),
        "kinematic_variable_set": [s.name for s in set(b.kin)],
    }
    return {"intensity": [float(x.real) for x in I1], "intensity_rotated": [float(x.real) for x in I2],
            "order": order, "qrules": qrules.__name__}


def hash_name(name: str) -> int:
    import hashlib

    return int.from_bytes(hashlib.sha256(name.encode()).digest()[:8], "big")


def main():
    from tools.lib import common

    common.use_repo_source()
    from tools.search import C04_oracle as orc

    c = json.loads(sys.argv[1])
    case = orc.Case(c["reaction"], tuple(c["keep"]), c["alignment"], opts=tuple(c.get("opts", ())))
    import logging
    import warnings

    logging.disable(logging.WARNING)
    warnings.filterwarnings("ignore")
    print("C04FRESH " + json.dumps(fixed_values(case)), flush=True)


if __name__ == "__main__":
    main()
