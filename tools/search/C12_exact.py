"""C12 hardening oracle (notes/HARDENING.md rules 1, 2, 5, 7, 9) — evaluated on the real code.

* numbers vs symbols: `EnergyDependentWidth`, `FormFactor`, `BlattWeisskopfSquared`,
  `SphericalHankel1`, `relativistic_breit_wigner(_with_ff)`, `formulate_form_factor` called with exact
  numbers (Rational / int / float, equal masses, zero mass, s exactly at threshold and at the pole) give
  the symbolic result with the numbers substituted; L as Python int, `sympy.Integer` and as a Symbol
  that is substituted afterwards (polynomial path vs Hankel path) agree;
* Γ(m0²) = Γ0 exactly with rationals, every phase-space factor, L given as a Python int;
* defaults: `FormFactor` radius 1, default `phsp_factor` of `EnergyDependentWidth` and
  `relativistic_breit_wigner_with_ff`, `name=None`; phase-space factors passed as classes, as plain
  functions, as lambdas (anything that complies with `PhaseSpaceFactorProtocol`), also through the builder;
* compound arguments (s := m², sums, products with a sum) — unfolded generated numpy code, cse off/on,
  complex and real inputs, against the plain function evaluated at the compound values.
"""

from __future__ import annotations

import cmath
import warnings

from tools.search.C11_exact import CaseTimeout, numeric, same, time_cap

RHO = ["PhaseSpaceFactor", "PhaseSpaceFactorAbs", "PhaseSpaceFactorComplex", "PhaseSpaceFactorSWave", "EqualMassPhaseSpaceFactor"]


def hardening_oracle(chk, rng, tier: str):  # noqa: C901, PLR0912, PLR0915
    import numpy as np
    import sympy as sp

    import ampform.dynamics as dyn
    from ampform.dynamics import builder as bld
    from ampform.dynamics import form_factor as ffm
    from ampform.dynamics import phasespace as ps

    bad, info = [], {}
    R = sp.Rational  # noqa: N806
    s, m0, g0, m1, m2, d, z, x = sp.symbols("s m0 Gamma0 m1 m2 d z x", real=True)
    ell = sp.Symbol("L", integer=True, nonnegative=True)
    lmax = 3 if tier == "quick" else 6

    def fail(what, **kw):
        bad.append({"what": what, **{k: (v if isinstance(v, (int, float, bool, type(None), list, dict)) else str(v)) for k, v in kw.items()}})

    below = []  # symbolic-L (Hankel) path vs integer-L (polynomial) path where z = q² d² <= 0: see notes/findings_C12.md

    def q2pos(sv, a, b):
        sv, a, b = (sp.sympify(v) for v in (sv, a, b))
        return sv != 0 and bool(((sv - (a + b) ** 2) * (sv - (a - b) ** 2) / (4 * sv)) > 0)

    def compare(label, build, syms, nums, lval, tol=1e-11, hankel_domain=True):
        """build(*args, L) with numbers and L in three spellings vs the symbolic form substituted.
        `hankel_domain`: z > 0 in every Blatt-Weisskopf factor of the call (the Hankel definition with a
        symbolic L is only compared there; outside, the disagreement is recorded, not judged)."""
        vals = {}
        try:
            with time_cap(30):
                sym_int = build(*syms, sp.Integer(lval))
                sym_int = sym_int.doit() if hasattr(sym_int, "doit") else sym_int
                sub = dict(zip(syms, [sp.sympify(v) for v in nums]))
                vals["symbolic, integer L, numbers substituted"] = numeric(sym_int.xreplace(sub))
                sym_l = build(*syms, ell)
                sym_l = sym_l.doit() if hasattr(sym_l, "doit") else sym_l
                vals["symbolic L, numbers and L substituted"] = numeric(sym_l.xreplace({**sub, ell: sp.Integer(lval)}))
                for spelling, lv in (("numbers, Python int L", int(lval)), ("numbers, sympy Integer L", sp.Integer(lval))):
                    try:
                        vals[spelling] = numeric(build(*nums, lv))
                    except ZeroDivisionError:
                        vals[spelling] = None
        except CaseTimeout:
            fail(f"{label} does not terminate within 30 s", arguments=[str(v) for v in nums], L=lval)
            return
        chk.count((label, str(nums), lval))
        ref = vals["symbolic, integer L, numbers substituted"]
        for k, v in vals.items():
            if k.startswith("symbolic L") and not hankel_domain:
                if not same(v, ref, tol):
                    below.append({"call": label, "arguments": [str(q) for q in nums], "L": lval, "integer_L": str(ref), "symbolic_L": str(v)})
                continue
            if not same(v, ref, tol):
                fail(f"{label}: spellings of the same call disagree (numbers vs symbols / int vs Integer vs symbolic L)",
                     arguments=[str(q) for q in nums], L=lval, values={a: str(b) for a, b in vals.items()}, differing=k)
                return

    # ---- rule 1
    z_values = [R(3, 2), 1, 0, R(1, 100), 7, 2.5, R(40, 3)]
    for lv in range(lmax + 1):
        for zv in z_values:
            compare("BlattWeisskopfSquared", lambda zz, ll: ffm.BlattWeisskopfSquared(zz, ll), [z], [zv], lv, hankel_domain=zv > 0)
        for xv in (1, R(3, 2), R(1, 7), 0.75, 4):
            compare("SphericalHankel1", lambda xx, ll: ffm.SphericalHankel1(ll, xx), [x], [xv], lv)
        for zv in (R(-3, 2), -1, R(-1, 100)):  # polynomial path vs Hankel path for z < 0: recorded only
            compare("BlattWeisskopfSquared", lambda zz, ll: ffm.BlattWeisskopfSquared(zz, ll), [z], [zv], lv, hankel_domain=False)
    ff_points = [(R(13, 4), 1, R(1, 2), 1), (2, R(1, 2), R(1, 2), R(3, 2)), (R(1, 2), R(1, 2), R(1, 2), 1), (R(9, 4), 1, R(1, 2), 2),
                 (4, 1, 0, 1), (4, 0, 0, 1), (10, 1, 2, R(1, 2)), (2.5, 0.3, 0.7, 1.0), (-3, R(1, 2), R(1, 2), 1), (R(7, 3), R(2, 3), R(2, 3), 3)]
    for lv in range(lmax + 1):
        for pt in ff_points:
            compare("FormFactor", lambda a, b, c, e, ll: ffm.FormFactor(a, b, c, ll, e), [s, m1, m2, d], list(pt), lv, hankel_domain=q2pos(*pt[:3]))
    with warnings.catch_warnings():
        warnings.simplefilter("ignore", DeprecationWarning)
        for pt in ff_points[:4]:
            compare("formulate_form_factor", lambda a, b, c, e, ll: dyn.formulate_form_factor(a, b, c, ll, e), [s, m1, m2, d], list(pt), 2, hankel_domain=q2pos(*pt[:3]))
            chk.count(("formulate_form_factor==FormFactor", str(pt)))
            if dyn.formulate_form_factor(*pt[:3], 2, pt[3]) != ffm.FormFactor(*pt[:3], 2, pt[3]):
                fail("formulate_form_factor is not FormFactor", arguments=[str(q) for q in pt])
    for pt in [(R(1, 2), 1, R(1, 10)), (1, 1, R(1, 10)), (2.0, 1.2, 0.3), (-1, 2, 1), (0, R(3, 2), R(1, 5))]:
        a = numeric(dyn.relativistic_breit_wigner(*pt))
        b = numeric(dyn.relativistic_breit_wigner(s, m0, g0).xreplace({s: sp.sympify(pt[0]), m0: sp.sympify(pt[1]), g0: sp.sympify(pt[2])}))
        want = complex(pt[2]) * complex(pt[1]) / (complex(pt[1]) ** 2 - complex(pt[0]) - 1j * complex(pt[2]) * complex(pt[1]))
        chk.count(("bw-numbers", str(pt)))
        if not (same(a, b, 1e-12) and same(a, want, 1e-12)):
            fail("relativistic_breit_wigner with numbers differs from the symbolic form / from Γ0 m0/(m0²-s-iΓ0 m0)", arguments=[str(q) for q in pt], numbers=a, symbolic=b, formula=want)
    w_points = [(R(13, 4), R(3, 2), R(1, 10), 1, R(1, 3), 1), (3, 2, R(1, 5), R(1, 2), R(1, 2), R(3, 2)), (R(1, 2), 2, R(1, 5), R(1, 2), R(1, 2), 1),
                (2.5, 1.4, 0.2, 0.3, 0.7, 1.0), (4, 3, R(1, 4), 1, 0, 1), (5, 3, R(1, 4), 1, 1, 2)]
    for i, pt in enumerate(w_points):
        for j, cname in enumerate(RHO):
            if tier == "quick" and (i + j) % 2:
                continue
            cls = getattr(ps, cname)
            lv = (i + j) % (lmax + 1)
            dom = q2pos(pt[0], pt[3], pt[4]) and q2pos(sp.sympify(pt[1]) ** 2, pt[3], pt[4])
            compare(f"EnergyDependentWidth[{cname}]",
                    lambda a, b, c, e, f, g, ll, cls=cls: dyn.EnergyDependentWidth(a, b, c, e, f, ll, g, phsp_factor=cls), [s, m0, g0, m1, m2, d], list(pt), lv, hankel_domain=dom)
            compare(f"relativistic_breit_wigner_with_ff[{cname}]",
                    lambda a, b, c, e, f, g, ll, cls=cls: dyn.relativistic_breit_wigner_with_ff(a, b, c, e, f, ll, g, phsp_factor=cls), [s, m0, g0, m1, m2, d], list(pt), lv, hankel_domain=dom)

    # ---- rule 9: Γ(m0²) = Γ0 exactly (rationals; L as Python int)
    for i, (mp, gm, a, b, rad) in enumerate([(R(3, 2), R(1, 10), 1, R(1, 3), 1), (2, R(1, 5), R(1, 2), R(1, 2), R(3, 2)), (3, R(2, 7), 1, R(1, 5), 2), (R(1, 2), R(1, 9), R(1, 2), R(1, 3), 1)]):
        for j, cname in enumerate(RHO):
            lv = (i + j) % (lmax + 1)
            chk.count(("pole-exact", cname, i))
            with time_cap(30):
                v = numeric(dyn.EnergyDependentWidth(mp**2, mp, gm, a, b, int(lv), rad, phsp_factor=getattr(ps, cname)), 40)
            if not same(v, complex(gm), 1e-13):
                fail("Gamma(m0²) != Gamma0 with exact rational arguments", phsp_factor=cname, L=lv, m0=mp, Gamma0=gm, m1=a, m2=b, d=rad, value=v)

    # ---- rule 5: defaults and protocol implementations
    chk.count(("defaults",))
    if ffm.FormFactor(s, m1, m2, 2).args[-1] != 1 or ffm.FormFactor(s, m1, m2, 2).doit() != ffm.FormFactor(s, m1, m2, 2, 1).doit():
        fail("FormFactor: default meson_radius is not 1", args=ffm.FormFactor(s, m1, m2, 2).args)
    w_def = dyn.EnergyDependentWidth(s, m0, g0, m1, m2, 1, d)
    if w_def.phsp_factor is not ps.PhaseSpaceFactor or w_def.name is not None:
        fail("EnergyDependentWidth: default phsp_factor is not PhaseSpaceFactor / default name is not None", phsp_factor=w_def.phsp_factor, name=w_def.name)
    if w_def.doit() != dyn.EnergyDependentWidth(s, m0, g0, m1, m2, 1, d, phsp_factor=ps.PhaseSpaceFactor).doit():
        fail("EnergyDependentWidth: default phsp_factor gives another expression than PhaseSpaceFactor passed explicitly")
    if dyn.EnergyDependentWidth(s, m0, g0, m1, m2, 1, d, name="G").doit() != w_def.doit():
        fail("EnergyDependentWidth: passing name= changes the unfolded expression")
    if dyn.relativistic_breit_wigner_with_ff(s, m0, g0, m1, m2, 1, d).doit() != dyn.relativistic_breit_wigner_with_ff(s, m0, g0, m1, m2, 1, d, ps.PhaseSpaceFactor).doit():
        fail("relativistic_breit_wigner_with_ff: default phsp_factor is not PhaseSpaceFactor")

    def as_function(ss, a, b):
        return ps.PhaseSpaceFactorAbs(ss, a, b)

    implementations = {
        "plain function": as_function,
        "lambda": lambda ss, a, b: ps.PhaseSpaceFactorComplex(ss, a, b),  # noqa: PLW0108
        "chew_mandelstam_s_wave (function)": ps.chew_mandelstam_s_wave,
        "BreakupMomentumSquared (class)": ps.BreakupMomentumSquared,
        "EqualMassPhaseSpaceFactor (class)": ps.EqualMassPhaseSpaceFactor,
    }
    pt = {s: R(17, 5), m0: R(3, 2), g0: R(1, 10), m1: R(2, 3), m2: R(1, 3), d: R(5, 4)}
    mm, ma, mb, th, ph = sp.symbols("m m_a m_b theta phi", real=True)
    from qrules.particle import Particle

    res = Particle(name="R", pid=99991, spin=1, mass=1.5, width=0.1)
    for label, impl in implementations.items():
        for lv in (0, 2):
            chk.count(("protocol", label, lv))
            with time_cap(30):
                width = numeric(dyn.EnergyDependentWidth(s, m0, g0, m1, m2, lv, d, phsp_factor=impl).doit().xreplace(pt))
                f_s = numeric(ffm.FormFactor(pt[s], pt[m1], pt[m2], lv, pt[d]))
                f_0 = numeric(ffm.FormFactor(pt[m0] ** 2, pt[m1], pt[m2], lv, pt[d]))
                r_s, r_0 = numeric(impl(pt[s], pt[m1], pt[m2])), numeric(impl(pt[m0] ** 2, pt[m1], pt[m2]))
            want = complex(pt[g0]) * (f_s / f_0) ** 2 * r_s / r_0
            if not same(width, want, 1e-11):
                fail("EnergyDependentWidth with a phase-space factor given as " + label + " is not Γ0 (F/F0)² ρ(s)/ρ(m0²)", L=lv, value=width, expected=want)
            full = numeric(dyn.relativistic_breit_wigner_with_ff(s, m0, g0, m1, m2, lv, d, phsp_factor=impl).doit().xreplace(pt))
            want_full = complex(pt[m0]) * complex(pt[g0]) * f_s / (complex(pt[m0]) ** 2 - complex(pt[s]) - want * complex(pt[m0]) * 1j)
            if not same(full, want_full, 1e-11):
                fail("relativistic_breit_wigner_with_ff with a phase-space factor given as " + label + " differs from m0Γ0F/(m0²-s-iΓ(s)m0)", L=lv, value=full, expected=want_full)
            pool = bld.TwoBodyKinematicVariableSet(mm, ma, mb, th, ph, lv)
            e_b, dflt = bld.RelativisticBreitWignerBuilder(True, True, impl)(res, pool)
            subs = {mm: sp.sqrt(pt[s]), ma: pt[m1], mb: pt[m2], **{k: (pt[m0] if str(k).startswith("m_") else pt[g0] if "Gamma" in str(k) else pt[d]) for k in dflt}}
            got_b = numeric(e_b.doit().xreplace(subs))
            if not same(got_b, want_full, 1e-11):
                fail("builder with a phase-space factor given as " + label + " differs from the function API", L=lv, value=got_b, expected=want_full)

    # ---- rule 2 / 7: compound arguments, generated numpy code, cse off/on, complex and real inputs
    k = sp.Symbol("k", real=True)
    n_code = 0
    targets = {
        "BlattWeisskopfSquared": (lambda zz, lv: ffm.BlattWeisskopfSquared(zz, lv), 1),
        "SphericalHankel1": (lambda zz, lv: ffm.SphericalHankel1(lv, zz), 1),
    }
    comp1 = [(mm * k + x, lambda v: v["m"] * v["k"] + v["x"]), (mm**2, lambda v: v["m"] ** 2), ((mm + k) / (x + 2), lambda v: (v["m"] + v["k"]) / (v["x"] + 2)),
             (x - k, lambda v: v["x"] - v["k"]), (mm * (k + x), lambda v: v["m"] * (v["k"] + v["x"]))]
    vals = [{"m": 1.7, "k": 0.21, "x": 0.4}, {"m": 0.8, "k": 0.05, "x": 2.6}]
    for name, (mk, _) in targets.items():
        for lv in (1, 2, lmax):
            f_plain = sp.lambdify([z], mk(z, lv).doit(), "numpy")
            for arg, at in comp1:
                e = mk(arg, lv).doit()
                syms = sorted(e.free_symbols, key=str)
                for cse in (False, True):
                    with time_cap(30):
                        f = sp.lambdify(syms, e, "numpy", cse=cse)
                    for v in vals:
                        for kind in ("real", "complex"):
                            args = [complex(v[str(q)]) if kind == "complex" else v[str(q)] for q in syms]
                            zin = complex(at(v)) if kind == "complex" else at(v)
                            with np.errstate(all="ignore"):
                                got, want = complex(f(*args)), complex(f_plain(zin))
                            n_code += 1
                            chk.count(("compound", name, lv, str(arg), cse, kind, v["m"]))
                            if (cmath.isfinite(got) or cmath.isfinite(want)) and not same(got, want, 1e-9):
                                fail(f"{name} on a compound argument differs from the same function at the compound value (generated numpy code)",
                                     argument=arg, L=lv, cse=cse, input_kind=kind, values=v, value=got, expected=want)
    f_ff = {lv: sp.lambdify([s, m1, m2, d], ffm.FormFactor(s, m1, m2, lv, d).doit(), "numpy") for lv in (1, 2)}
    f_w = {lv: sp.lambdify([s, m0, g0, m1, m2, d], dyn.EnergyDependentWidth(s, m0, g0, m1, m2, lv, d, phsp_factor=ps.PhaseSpaceFactorComplex).doit(), "numpy") for lv in (1, 2)}
    for lv in (1, 2):
        for cse in (False, True):
            e1 = ffm.FormFactor(mm**2, m1 + k, m2 - k, lv, d * 2).doit()
            e2 = dyn.EnergyDependentWidth(mm**2, m0, g0, m1 + k, m2 - k, lv, d / 2, phsp_factor=ps.PhaseSpaceFactorComplex).doit()
            s1, s2 = sorted(e1.free_symbols, key=str), sorted(e2.free_symbols, key=str)
            g1, g2 = sp.lambdify(s1, e1, "numpy", cse=cse), sp.lambdify(s2, e2, "numpy", cse=cse)
            for v in [{"m": 1.7, "k": 0.11, "m1": 0.4, "m2": 0.9, "d": 1.3, "m0": 1.6, "Gamma0": 0.2}, {"m": 1.1, "k": 0.05, "m1": 0.5, "m2": 0.75, "d": 0.8, "m0": 1.9, "Gamma0": 0.1}]:
                cv = {q: (complex(w) if q == "m" else w) for q, w in v.items()}
                with np.errstate(all="ignore"):
                    got1 = complex(g1(*[cv[str(q)] for q in s1]))
                    want1 = complex(f_ff[lv](cv["m"] ** 2, v["m1"] + v["k"], v["m2"] - v["k"], v["d"] * 2))
                    got2 = complex(g2(*[cv[str(q)] for q in s2]))
                    want2 = complex(f_w[lv](cv["m"] ** 2, v["m0"], v["Gamma0"], v["m1"] + v["k"], v["m2"] - v["k"], v["d"] / 2))
                n_code += 2
                chk.count(("compound-lineshape", lv, cse, v["m"]))
                if not same(got1, want1, 1e-9):
                    fail("FormFactor on compound arguments (s := m², m1+k, m2-k, 2d) differs from FormFactor at the compound values", L=lv, cse=cse, values=v, value=got1, expected=want1)
                if not same(got2, want2, 1e-9):
                    fail("EnergyDependentWidth on compound arguments differs from the width at the compound values", L=lv, cse=cse, values=v, value=got2, expected=want2)
    info["generated_code_evaluations"] = n_code
    info["symbolic_L_vs_integer_L_at_z_le_0"] = {"disagreements": len(below), "first": below[:2]}
    # documented closed forms (Chung / von Hippel-Quigg, as in the class docstring / TR-029) for L <= 4, ANY real z:
    # the integer-L polynomial path must be this function everywhere (a deviation is never the known finding)
    zz = sp.Symbol("zz", real=True)
    documented = {0: sp.Integer(1), 1: 2 * zz / (zz + 1), 2: 13 * zz**2 / ((zz - 3) ** 2 + 9 * zz),
                  3: 277 * zz**3 / (zz * (zz - 15) ** 2 + 9 * (2 * zz - 5) ** 2),
                  4: 12746 * zz**4 / ((zz**2 - 45 * zz + 105) ** 2 + 25 * zz * (2 * zz - 21) ** 2)}
    for lv, formula in documented.items():
        for zv in (R(-7, 2), R(-3, 2), R(-1, 100), 0, R(1, 100), 1, R(5, 2), 40, -2.5, 3.25):
            chk.count(("documented-BL", lv, str(zv)))
            got = numeric(ffm.BlattWeisskopfSquared(zv, lv))
            want = numeric(formula.xreplace({zz: sp.sympify(zv)}))
            if not same(got, want, 1e-12):
                fail("integer-L (polynomial) path of BlattWeisskopfSquared differs from the documented B_L² formula", L=lv, z=zv, value=got, documented=want)
    # the known finding: ONLY a disagreement between the symbolic-L (Hankel) spelling and the integer-L spelling at
    # z <= 0 (all other spellings of that call agreeing) is classified; it is reported last
    if below:
        b0 = below[0]
        bad.append({"what": "symbolic-L (Hankel) path of BlattWeisskopfSquared differs from the integer-L (polynomial) path for z <= 0",
                    "class": "symbolic-L Hankel path vs integer-L polynomial path, z <= 0", "cases": len(below), "first": b0, "examples": below[1:4]})
    return bad, info
